"""C12 -- API-mode modules reflect the C source and detect mismatches.

E1: ONE universe (cdef, C source) pair (vlib/props/_universe.py) built with
set_source()/compile(); every fact is compared with a gcc reference program
compiled from the same source (sizes, offsets, values) and with the module's
own memory reached through ctypes (addresses, reads, writes, calls).  Then EVERY
single-point mutant of the cdef over a fixed operator alphabet is built against
the same source: using the mutated item must raise iff gcc says the mutation
changes a checked fact; every unmutated item of the same module must keep
working; the same mutation under '...' must be silent and yield gcc's layout.

Families added after the audit (.cache/audit/C12.md), all enumerated exhaustively:
  * anonymous struct/union members (6 kinds: struct and union member, two levels, first / last / only member,
    inside a union, a bitfield carrier next to a plain one, inside a '...;' struct); the operators also work
    inside the member, unwrap it and flip it between struct and union.  A mismatch of such a struct that
    goes unnoticed carries anonymous_member=True in its signature;
  * a struct known only through 'typedef struct {...} *p;' (with a long double member);
  * the '[...]' kinds s_dots / s_dots2 (two dimensions) under selection, item retypes, re-spellings, fixed lengths;
  * bitfields of _Bool / long long:40 / unsigned char / an enum type, and bitfields in a union;
  * eleven 'static const <type> K = v;' over eight integer types at the types' boundaries;
  * more uses of a mismatching struct (alignof, T[2], from_buffer, addressof(global), the by-value call wrappers,
    an outer struct that holds it by value);
  * part 'misc': variadic functions, globals of function-pointer / pointer / open array / '[...]' (1 and 2
    dimensions) type, non-integer constants, a macro and a static inline declared as functions, 'typedef ... *p'.
"""
import ctypes
import importlib.util
import itertools
import os
import re
import sys

from .. import build, cref, pool
from ..build import InfraError
from . import _universe as U

ID = "C12"
LEVEL = "exploration"
META = dict(
    engine="E1-enum", level="exploration",
    technique="one universe module checked fact-by-fact against a gcc reference program and ctypes, plus exhaustive "
              "single-point cdef mutants (swap / retype / remove / add / pack flip / value +-1 / negate / 2^64 wrap) "
              "each built against the same C source, with gcc deciding whether the mutant changes a checked fact",
    text="Every declared item of a 436-name universe (31 primitives as global, constants, function result and "
         "argument; 28 struct/union kinds each declared 12 times (tag + 11 typedef aliases) -- among them 6 kinds with "
         "anonymous struct/union members (flattened, two levels, bitfield carrier, inside a union, inside a '...;' "
         "struct), a struct known only through a pointer typedef, '[...]' arrays in one and two dimensions, bitfields "
         "of _Bool / long long / enum type and in a union; 10 enums; 29 integer constants incl. 'static const' over "
         "8 integer types at their boundaries; typedef chain; a part 'misc' with variadic functions, function-pointer / "
         "pointer / open-array / '[...]' globals, non-integer constants, macro and static-inline functions, "
         "'typedef ... *p') is compared with gcc's facts and "
         "with the module's memory through ctypes.  Every single-point mutant of every struct, enumerator and integer "
         "constant is compiled (batched, independent items per module): the mutated item must raise on every use "
         "(sizeof, alignof, new, T[2], offsetof, .fields, field access through cast / from_buffer / global / "
         "addressof / pointer result / by-value result, by-value argument, an outer struct holding it) when "
         "gcc's layout of the mutated declaration differs in a field offset, field size or total size (or the value "
         "differs), every other item of the module must behave as in the base module, and the '...' variant of the "
         "mutant must be silent and give gcc's layout/values.  The operators also act inside anonymous members, unwrap "
         "them and flip them between struct and union.",
    note="gcc 12 on this machine is the authority for facts; ctypes.CDLL on the built extension is the independent "
         "channel to its memory and C helpers; generated modules are compiled with -O0 -g0 to fit the budget")

CFLAGS = ["-O0", "-g0", "-w"]
MASK64 = (1 << 64) - 1

# set by setup() in the driver before the pool forks
G = {}


# ---------------------------------------------------------------------------------------
# building modules

_counter = itertools.count()


class _Quiet(object):
    """Silence the C compiler's stderr/stdout while cffi runs it."""

    def __enter__(self):
        sys.stdout.flush()
        sys.stderr.flush()
        self.saved = (os.dup(1), os.dup(2))
        nul = os.open(os.devnull, os.O_WRONLY)
        os.dup2(nul, 1)
        os.dup2(nul, 2)
        os.close(nul)

    def __exit__(self, *a):
        sys.stdout.flush()
        sys.stderr.flush()
        os.dup2(self.saved[0], 1)
        os.dup2(self.saved[1], 2)
        os.close(self.saved[0])
        os.close(self.saved[1])


def build_module(replace):
    """Build and import the universe module with some cdef parts replaced.
    Returns ('ok', module, ctypes lib) or ('compile_error', msg) or ('rejected', exc type, msg)."""
    import cffi
    name = "c12m_%d_%d" % (os.getpid(), next(_counter))
    ffi = cffi.FFI()
    tmp = os.path.join(build.scratch(), name)
    try:
        with _Quiet():
            U.apply_cdef(ffi, G["parts"], replace)
            ffi.set_source(name, G["source"], extra_compile_args=CFLAGS)
            path = ffi.compile(tmpdir=tmp)
    except cffi.VerificationError as e:
        return ("compile_error", str(e)[:300])
    except Exception as e:
        return ("rejected", type(e).__name__, str(e)[:300])
    spec = importlib.util.spec_from_file_location(name, path)
    m = importlib.util.module_from_spec(spec)
    spec.loader.exec_module(m)
    cd = ctypes.CDLL(path)
    return ("ok", m, cd)


class Env(object):
    def __init__(self, m, cd):
        self.ffi = m.ffi
        self.lib = m.lib
        self.cd = cd
        self.facts = G["facts"]
        self.nchecks = 0

    def caddr(self, fname):
        fn = getattr(self.cd, fname)
        fn.restype = ctypes.c_void_p
        fn.argtypes = []
        return fn()

    def addr_of(self, cdata_ptr):
        return int(self.ffi.cast("uintptr_t", cdata_ptr))


def _exc(e):
    return "%s: %s" % (type(e).__name__, str(e)[:200])


def s_ctype(ffi, s, slot):
    """The ctype of declaration `slot` of struct kind s (lazy: does not look at the fields)."""
    name = U.slot_tname(s, slot)
    if s.get("via_pointer"):
        return ffi.typeof(name).item          # known only as 'typedef struct {...} *name;'
    return ffi.typeof(name)


def p_ctype(ffi, s, slot):
    """The pointer-to-struct ctype."""
    name = U.slot_tname(s, slot)
    if s.get("via_pointer"):
        return ffi.typeof(name)
    return ffi.typeof(name + " *")


def flat_ctype_fields(ct, base=0, out=None):
    """{leaf name: (offset from the start of ct, field)}; members with an empty name are expanded."""
    out = {} if out is None else out
    for n, fld in ct.fields:
        if n == "":
            flat_ctype_fields(fld.type, base + fld.offset, out)
        else:
            out[n] = (base + fld.offset, fld)
    return out


class Probs(list):
    """Problems found while checking one item: (what, info)."""

    def __init__(self, env):
        list.__init__(self)
        self.env = env

    def eq(self, what, got, want, **info):
        self.env.nchecks += 1
        if got != want:
            d = {"got": U.norm(got) if not isinstance(got, (list, tuple, dict)) else got,
                 "want": U.norm(want) if not isinstance(want, (list, tuple, dict)) else want}
            d.update(info)
            self.append((what, d))

    def guard(self, what, fn, **info):
        """Run fn(); an exception is a problem of kind 'raises'."""
        try:
            return True, fn()
        except Exception as e:
            d = {"what": what, "error": _exc(e)}
            d.update(info)
            self.append(("raises", d))
            return False, None


def _rd(key, x):
    """Normalise a primitive read through cffi."""
    if U.PRIM[key][1] == "ldouble":
        return U.norm(float(x))
    return U.norm(x)


def _pick(vals, light):
    if not light or len(vals) <= 3:
        return vals
    return [vals[0], vals[len(vals) // 2], vals[-1]]


# ---- primitives ------------------------------------------------------------------------

def chk_prim(env, key, light):
    ffi, lib, facts = env.ffi, env.lib, env.facts
    pr = Probs(env)
    t, fam = U.PRIM[key]
    pf = facts["P"][key]
    size = pf[0]

    def body():
        pr.eq("sizeof", ffi.sizeof(t), size, type=t)
        pr.eq("alignof", ffi.alignof(t), pf[2], type=t)
        addr = env.caddr("addr_g_" + key)
        pr.eq("address", env.addr_of(ffi.addressof(lib, "g_" + key)), addr, name="g_" + key)
        pr.eq("address-helper", env.addr_of(getattr(lib, "addr_g_" + key)()), addr, name="g_" + key)
        nbytes = 10 if fam == "ldouble" else size
        orig = ctypes.string_at(addr, nbytes)
        pr.eq("initial-value", _rd(key, getattr(lib, "g_" + key)), U.norm(U.fact_value(key, facts["GI"][key])),
              name="g_" + key)
        pr.eq("constant", _rd(key, getattr(lib, "kc_" + key)), U.norm(U.fact_value(key, facts["KC"][key])),
              name="kc_" + key)
        pr.eq("constant", _rd(key, getattr(lib, "kn_" + key)), U.norm(U.fact_value(key, facts["KN"][key])),
              name="kn_" + key)
        vals = _pick(U.prim_values(key, pf), light)
        for i, (v, img) in enumerate(vals):
            isnan = isinstance(v, float) and v != v
            setattr(lib, "g_" + key, v)
            if not isnan:
                pr.eq("write-image", ctypes.string_at(addr, len(img)), img, name="g_" + key, value=U.norm(v))
            pr.eq("call-result", _rd(key, getattr(lib, "get_" + key)()), U.norm(v), name="get_" + key)
            v2, img2 = vals[(i + 1) % len(vals)]
            ctypes.memmove(addr, img2, len(img2))
            pr.eq("read-value", _rd(key, getattr(lib, "g_" + key)), U.norm(v2), name="g_" + key)
            pr.eq("call-identity", _rd(key, getattr(lib, "id_" + key)(v)), U.norm(v), name="id_" + key)
        ctypes.memmove(addr, orig, nbytes)
    pr.guard("prim " + key, body)
    return pr


# ---- structs ---------------------------------------------------------------------------

def _leaf_paths(s, f, facts):
    """Yield (attribute path, byte offset inside s, prim key or special) for writable leaves of field f."""
    off, fsz = facts["F"][s["tag"]][f["name"]]
    k = f["kind"]
    if k == "scalar":
        yield ((f["name"],), off, f["prim"])
    elif k == "array":
        isz = facts["P"][f["prim"]][0]
        dims = f["dims"]
        n = 1
        for d in dims:
            n *= d
        first = tuple(0 for d in dims)
        last = tuple(d - 1 for d in dims)
        yield ((f["name"],) + first, off, f["prim"])
        yield ((f["name"],) + last, off + (n - 1) * isz, f["prim"])
    elif k == "struct":
        sub = U.STRUCT[f["sub"]]
        for g in sub["fields"]:
            for path, o, key in _leaf_paths(sub, g, facts):
                yield ((f["name"],) + path, off + o, key)
    elif k == "ptr":
        yield ((f["name"],), off, "@ptr")
    elif k == "fnptr":
        yield ((f["name"],), off, "@fnptr")
    elif k == "enum":
        yield ((f["name"],), off, "@enum:" + f["enum"])


def _get_path(obj, path):
    for p in path:
        obj = obj[p] if isinstance(p, int) else getattr(obj, p)
    return obj


def _set_path(obj, path, v):
    for p in path[:-1]:
        obj = obj[p] if isinstance(p, int) else getattr(obj, p)
    p = path[-1]
    if isinstance(p, int):
        obj[p] = v
    else:
        setattr(obj, p, v)


def chk_struct_layout(env, s, fields, pr, slot=0):
    ffi, facts = env.ffi, env.facts
    T = U.slot_tname(s, slot)
    ct = s_ctype(ffi, s, slot)
    tag = s["tag"]
    size, align = facts["S"][tag]
    pr.eq("sizeof", ffi.sizeof(ct), size, type=T)
    pr.eq("alignof", ffi.alignof(ct), align, type=T)
    flds = flat_ctype_fields(ct)
    leaves = list(U.flat_fields(fields))       # anonymous members: their leaves, by their own names
    pr.eq("field-names", sorted(flds), sorted(f["name"] for f in leaves), type=T)
    for f in leaves:
        if f["kind"] == "bits" or f["name"] not in facts["F"][tag]:
            continue
        off, fsz = facts["F"][tag][f["name"]]
        pr.eq("offsetof", ffi.offsetof(ct, f["name"]), off, type=T, field=f["name"])
        if f["name"] in flds:
            pr.eq("field-offset", flds[f["name"]][0], off, type=T, field=f["name"])
            if fsz >= 0 and f["kind"] != "flex":
                pr.eq("field-size", ffi.sizeof(flds[f["name"]][1].type), fsz, type=T, field=f["name"])


def chk_struct(env, s, fields, light, retyped=(), slot=0):
    """fields: the fields the cdef declares.  retyped: names whose declared type is not the C type
    (value images are not checked for those).  slot 0 is 'struct tag' itself (reached through the
    global gs_<tag>), slot k its k-th typedef alias (reached through a cast of the same address)."""
    ffi, lib, facts = env.ffi, env.lib, env.facts
    pr = Probs(env)
    T = U.slot_tname(s, slot)
    tag = s["tag"]
    vp = bool(s.get("via_pointer"))

    def body():
        chk_struct_layout(env, s, fields, pr, slot)
        size, align = facts["S"][tag]
        addr = env.caddr("addr_gs_" + tag)
        if slot == 0:
            pr.eq("pointer-result", env.addr_of(getattr(lib, "ptr_" + tag)()), addr, name="ptr_" + tag)
        if s.get("novalue"):
            if any(f["name"] == "n" for f in fields) and "n" not in retyped:
                p = getattr(lib, "ptr_" + tag)() if slot == 0 else ffi.cast(p_ctype(ffi, s, slot), addr)
                p.n = 5
                pr.eq("write-image", ctypes.string_at(addr, 4), (5).to_bytes(4, "little"), type=T, field="n")
            return
        if vp:
            # the struct has no name: it is reached through the pointer typedef only
            g = getattr(lib, "ptr_" + tag)() if slot == 0 else ffi.cast(p_ctype(ffi, s, slot), addr)
        elif slot == 0:
            pr.eq("address", env.addr_of(ffi.addressof(lib, "gs_" + tag)), addr, name="gs_" + tag)
            g = getattr(lib, "gs_" + tag)
        else:
            g = ffi.cast(p_ctype(ffi, s, slot), addr)
        ctypes.memset(addr, 0, size)
        for f in U.flat_fields(fields):
            if f["name"] in retyped:
                continue
            if f["kind"] == "bits":
                w = f["width"]
                signed = facts["P"][f["prim"]][1]
                lo, hi = (-(1 << (w - 1)), (1 << (w - 1)) - 1) if signed else (0, (1 << w) - 1)
                cget = getattr(env.cd, "bfget_%s_%s" % (tag, f["name"]))
                cget.restype = ctypes.c_longlong
                cget.argtypes = []
                cset = getattr(env.cd, "bfset_%s_%s" % (tag, f["name"]))
                cset.restype = None
                cset.argtypes = [ctypes.c_longlong]
                for v in _pick(sorted({lo, 0, 1, hi}), light):
                    setattr(g, f["name"], v)
                    pr.eq("bitfield-write", cget(), v, type=T, field=f["name"])
                    pr.eq("bitfield-call", getattr(lib, "bfget_%s_%s" % (tag, f["name"]))(), v, type=T, field=f["name"])
                    w2 = hi if v != hi else lo
                    cset(w2)
                    pr.eq("bitfield-read", getattr(g, f["name"]), w2, type=T, field=f["name"])
                continue
            if f["kind"] == "flex":
                continue
            for path, off, key in _leaf_paths(s, f, facts):
                if key == "@ptr":
                    vals = [(ffi.NULL, bytes(8)), (ffi.cast("void *", addr), addr.to_bytes(8, "little"))]
                    if "struct" in f["tmpl"]:
                        vals[1] = (ffi.cast(f["tmpl"].format(n=""), addr), vals[1][1])
                    rd = lambda x: env.addr_of(x)
                    vals = [(v, img, env.addr_of(v)) for v, img in vals]
                elif key == "@fnptr":
                    fp = ffi.addressof(lib, "id_int")
                    vals = [(ffi.NULL, bytes(8), 0), (fp, env.addr_of(fp).to_bytes(8, "little"), env.addr_of(fp))]
                    rd = lambda x: env.addr_of(x)
                elif key.startswith("@enum:"):
                    e = U.ENUM[key[6:]]
                    esz = facts["E"][e["key"]][0]
                    vals = [(v, (v & ((1 << (8 * esz)) - 1)).to_bytes(esz, "little"), v) for n, v in e["c"]]
                    rd = lambda x: x
                else:
                    vals = [(v, img, U.norm(v)) for v, img in _pick(U.prim_values(key, facts["P"][key]), True)]
                    rd = (lambda k: lambda x: _rd(k, x))(key)
                for i, (v, img, nv) in enumerate(vals):
                    isnan = isinstance(v, float) and v != v
                    _set_path(g, path, v)
                    if not isnan:
                        pr.eq("write-image", ctypes.string_at(addr + off, len(img)), img, type=T, path=list(path))
                    v2, img2, nv2 = vals[(i + 1) % len(vals)]
                    ctypes.memmove(addr + off, img2, len(img2))
                    pr.eq("read-value", rd(_get_path(g, path)), nv2, type=T, path=list(path))
        if slot != 0 or vp:
            return
        # by-value result and argument: compare field images with the C object
        cfields = [(n, o, z) for n, (o, z) in sorted(facts["F"][tag].items()) if z > 0]
        pat = bytes((i * 37 + 11) & 0x7F for i in range(size))
        ctypes.memmove(addr, pat, size)
        r = getattr(lib, "ret_" + tag)()
        rb = bytes(ffi.buffer(ffi.addressof(r)))
        pr.eq("sizeof-result", len(rb), size, name="ret_" + tag)
        for n, o, z in cfields:
            pr.eq("struct-result", rb[o:o + z], pat[o:o + z], name="ret_" + tag, field=n)
        p = ffi.new(T + " *")
        pat2 = bytes((i * 29 + 3) & 0x7F for i in range(size))
        ffi.buffer(p)[:] = pat2
        getattr(lib, "take_" + tag)(p[0])
        now = ctypes.string_at(addr, size)
        for n, o, z in cfields:
            pr.eq("struct-argument", now[o:o + z], pat2[o:o + z], name="take_" + tag, field=n)
        ctypes.memset(addr, 0, size)
    pr.guard("struct " + tag, body)
    return pr


# ---- enums, constants, typedefs -----------------------------------------------------------

def chk_enum(env, e, names, light):
    ffi, lib, facts = env.ffi, env.lib, env.facts
    pr = Probs(env)

    def body():
        for n in names:
            pr.eq("enumerator", getattr(lib, n), facts["V"][n], name=n)
        T = U.enum_tname(e)
        if T is None:
            return
        size, signed = facts["E"][e["key"]]
        pr.eq("sizeof", ffi.sizeof(T), size, type=T)
        pr.eq("signedness", int(ffi.cast(T, -1)) < 0, signed, type=T)
        pr.eq("relements", dict(ffi.typeof(T).relements), {n: facts["V"][n] for n in names}, type=T)
        pr.eq("initial-value", getattr(lib, "ge_" + e["key"]), facts["GE"][e["key"]], name="ge_" + e["key"])
        for n, v in e["c"]:
            pr.eq("call-identity", getattr(lib, "ide_" + e["key"])(v), v, name="ide_" + e["key"])
    pr.guard("enum " + e["key"], body)
    return pr


def chk_const(env, c):
    pr = Probs(env)
    pr.guard("const " + c[0], lambda: pr.eq("constant", getattr(env.lib, c[0]), env.facts["V"][c[0]], name=c[0]))
    return pr


def chk_typedefs(env):
    ffi, lib, facts = env.ffi, env.lib, env.facts
    pr = Probs(env)

    def body():
        for t, (sz, al) in sorted(facts["T"].items()):
            pr.eq("sizeof", ffi.sizeof(t), sz, type=t)
            pr.eq("alignof", ffi.alignof(t), al, type=t)
        pr.eq("typedef-identity", ffi.typeof("t2") is ffi.typeof("int"), True, type="t2")
        pr.eq("typedef-identity", ffi.typeof("t4") is ffi.typeof("int *[2]"), True, type="t4")
        pr.eq("typedef-identity", ffi.typeof("tsp_t") is ffi.typeof("struct s_plain"), True, type="tsp_t")
        pr.eq("initial-value", lib.g_t2, 5, name="g_t2")
        pr.eq("address", env.addr_of(lib.g_t4[0]), env.addr_of(ffi.addressof(lib, "g_t2")), name="g_t4")
        pr.eq("call-result", lib.td_f(lib.g_t4[0], lib.g_t4), 10, name="td_f")
        pr.eq("call-identity", lib.td_u(65535), 65535, name="td_u")
        pr.eq("int...-signedness", int(ffi.cast("tu_dots", -1)), 65535, type="tu_dots")
        pr.eq("call-identity", lib.td_i(-2 ** 63), -2 ** 63, name="td_i")
        pr.eq("call-identity", lib.td_fl(0.1), U.f32(0.1), name="td_fl")
        pr.eq("call-result", lib.td_opq_get(lib.td_opq()), 1234, name="td_opq_get")
        pr.eq("pointer-result", env.addr_of(lib.td_sp()), env.caddr("addr_gs_s_plain"), name="td_sp")
        try:
            ffi.sizeof("opq_t")
            pr.append(("opaque-has-size", {"type": "opq_t"}))
        except Exception:
            pass
    pr.guard("typedefs", body)
    return pr


def chk_misc(env):
    """Part 'misc': a variadic function, globals of function-pointer / pointer / open-array / '[...]' array type,
    constants of non-integer type, a macro and a static inline function declared as functions, 'typedef ... *p'."""
    ffi, lib, facts = env.ffi, env.lib, env.facts
    pr = Probs(env)
    X, XS = facts["X"], facts["XS"]

    def I(k):
        return int(X[k])

    def Fl(k):
        return float.fromhex(X[k])

    def mem(addr, n):
        return ctypes.string_at(addr, n)

    def body():
        ci = lambda v: ffi.cast("int", v)
        # variadic functions (emitted as constant function pointers, no wrapper)
        pr.eq("call-result", lib.vsum(3, ci(1), ci(2), ci(4)), I("vsum"), name="vsum")
        pr.eq("call-result", lib.vsum(0), I("vsum0"), name="vsum")
        sh = ffi.new("short *", -9)
        pr.eq("call-result", lib.vmix(b"ildp", ci(-5), ffi.cast("long long", 1 << 40), ffi.cast("double", 0.25), sh), Fl("vmix"), name="vmix")
        # global of function-pointer type
        a_fp = env.caddr("addr_g_fp")
        dbl, neg = env.caddr("addr_misc_dbl"), env.caddr("addr_misc_neg")
        pr.eq("address", env.addr_of(ffi.addressof(lib, "g_fp")), a_fp, name="g_fp")
        pr.eq("read-value", env.addr_of(lib.g_fp), dbl, name="g_fp")
        pr.eq("call-result", lib.g_fp(21), I("g_fp"), name="g_fp")
        lib.g_fp = ffi.cast("int(*)(int)", neg)
        pr.eq("write-image", mem(a_fp, 8), neg.to_bytes(8, "little"), name="g_fp")
        env.cd.call_g_fp.restype = ctypes.c_int
        env.cd.call_g_fp.argtypes = [ctypes.c_int]
        pr.eq("write-seen-by-C", env.cd.call_g_fp(21), -21, name="g_fp")
        pr.eq("call-result", lib.call_g_fp(5), -5, name="call_g_fp")
        ctypes.memmove(a_fp, dbl.to_bytes(8, "little"), 8)
        pr.eq("read-value", env.addr_of(lib.g_fp), dbl, name="g_fp")
        # global of pointer type
        a_str, buf = env.caddr("addr_g_str"), env.caddr("addr_g_strbuf")
        pr.eq("address", env.addr_of(ffi.addressof(lib, "g_str")), a_str, name="g_str")
        pr.eq("read-value", env.addr_of(lib.g_str), buf, name="g_str")
        pr.eq("initial-value", ffi.string(lib.g_str).decode("latin-1"), XS["g_str"], name="g_str")
        lib.g_str = ffi.cast("char *", buf + 1)
        pr.eq("write-image", mem(a_str, 8), (buf + 1).to_bytes(8, "little"), name="g_str")
        ctypes.memmove(a_str, buf.to_bytes(8, "little"), 8)
        pr.eq("read-value", env.addr_of(lib.g_str), buf, name="g_str")
        # 'extern int g_open[];'
        a_open = env.caddr("addr_g_open")
        pr.eq("address", env.addr_of(lib.g_open), a_open, name="g_open")
        pr.eq("address", env.addr_of(ffi.addressof(lib, "g_open")), a_open, name="&g_open")
        for i in range(I("len_g_open")):
            pr.eq("initial-value", lib.g_open[i], I("g_open[%d]" % i), name="g_open", index=i)
        lib.g_open[1] = -77
        pr.eq("write-image", mem(a_open + 4, 4), (-77 & 0xFFFFFFFF).to_bytes(4, "little"), name="g_open")
        ctypes.memmove(a_open + 4, I("g_open[1]").to_bytes(4, "little"), 4)
        pr.eq("read-value", lib.g_open[1], I("g_open[1]"), name="g_open")
        # 'extern int g_dots[...];'  the length is the compiler's
        a_dots = env.caddr("addr_g_dots")
        n = I("len_g_dots")
        pr.eq("array-length", len(lib.g_dots), n, name="g_dots")
        pr.eq("sizeof", ffi.sizeof(lib.g_dots), 4 * n, name="g_dots")
        pr.eq("address", env.addr_of(lib.g_dots), a_dots, name="g_dots")
        pr.eq("address", env.addr_of(ffi.addressof(lib, "g_dots")), a_dots, name="&g_dots")
        for i in range(n):
            pr.eq("initial-value", lib.g_dots[i], I("g_dots[%d]" % i), name="g_dots", index=i)
        lib.g_dots[n - 1] = 123456
        pr.eq("write-image", mem(a_dots + 4 * (n - 1), 4), (123456).to_bytes(4, "little"), name="g_dots")
        ctypes.memmove(a_dots + 4 * (n - 1), I("g_dots[%d]" % (n - 1)).to_bytes(4, "little"), 4)
        try:
            lib.g_dots[n]
            pr.append(("array-length-not-enforced", {"name": "g_dots", "index": n}))
        except IndexError:
            pass
        # two dimensions: 'extern short g_m[2][...];'  'extern long long g_m2[...][...];'
        for nm, isz in (("g_m", 2), ("g_m2", 8)):
            a = env.caddr("addr_" + nm)
            g = getattr(lib, nm)
            n0, n1 = I("len0_" + nm), I("len1_" + nm)
            pr.eq("array-length", len(g), n0, name=nm)
            pr.eq("array-length", len(g[0]), n1, name=nm + "[0]")
            pr.eq("sizeof", ffi.sizeof(g), I("size_" + nm), name=nm)
            pr.eq("address", env.addr_of(g), a, name=nm)
            pr.eq("address", env.addr_of(g[n0 - 1]), a + (n0 - 1) * n1 * isz, name=nm + "[last]")
            g[n0 - 1][n1 - 1] = -5
            pr.eq("write-image", mem(a + (n0 * n1 - 1) * isz, isz), (-5 & ((1 << (8 * isz)) - 1)).to_bytes(isz, "little"),
                  name=nm)
            ctypes.memmove(a + (n0 * n1 - 1) * isz, (6 if nm == "g_m" else 0).to_bytes(isz, "little"), isz)
        for i in range(2):
            for j in range(3):
                pr.eq("initial-value", lib.g_m[i][j], I("g_m[%d][%d]" % (i, j)), name="g_m", index=[i, j])
        # constants of non-integer type
        pr.eq("constant", U.norm(lib.K_PI), U.norm(Fl("K_PI")), name="K_PI")
        pr.eq("constant", U.norm(lib.K_F), U.norm(Fl("K_F")), name="K_F")
        pr.eq("constant", ffi.string(lib.g_ccs).decode("latin-1"), XS["g_ccs"], name="g_ccs")
        pr.eq("address", env.addr_of(lib.g_ccs), env.caddr("addr_g_ccs_target"), name="g_ccs")
        ks = lib.K_S
        pr.eq("constant", [ord(ks.a), ks.b, ks.c, ks.d], [I("K_S.a"), I("K_S.b"), I("K_S.c"), I("K_S.d")], name="K_S")
        pr.eq("sizeof", ffi.sizeof(ks), facts["S"]["s_plain"][0], name="K_S")
        # a macro and a static inline function, declared as functions
        pr.eq("call-result", lib.mac_add(3, 4), I("mac_add"), name="mac_add")
        pr.eq("call-result", lib.inl_neg(3), I("inl_neg"), name="inl_neg")
        # 'typedef ... *opq_p;'
        pr.eq("pointer-result", env.addr_of(lib.get_opq_p()), env.caddr("addr_the_opq2"), name="get_opq_p")
        pr.eq("call-result", lib.opq_p_get(lib.get_opq_p()), I("opq_p_get"), name="opq_p_get")
        pr.eq("typedef-identity", ffi.typeof(lib.get_opq_p()) is ffi.typeof("opq_p"), True, type="opq_p")
        try:
            ffi.sizeof(ffi.typeof("opq_p").item)
            pr.append(("opaque-has-size", {"type": "*opq_p"}))
        except Exception:
            pass
    pr.guard("misc", body)
    return pr


def chk_exposure(env):
    pr = Probs(env)

    def body():
        have = set(dir(env.lib))
        missing = [n for n in U.declared_names() if n not in have]
        pr.eq("exposed-names", missing, [])
        tds, sts, uns = env.ffi.list_types()
        want = U.TYPEDEF_TYPES + ["te_t", "opq_p"] + [s["tag"] for s in U.STRUCTS if s.get("typedef")] + [
            U.alias_name(s, k) for s in U.STRUCTS for k in range(1, U.NALIAS + 1)]
        pr.eq("exposed-typedefs", [t for t in want if t not in tds], [])
        pr.eq("exposed-structs", [s["tag"] for s in U.STRUCTS if s["su"] == "struct" and not s.get("typedef")
                                  and s["tag"] not in sts], [])
        pr.eq("exposed-unions", [s["tag"] for s in U.STRUCTS if s["su"] == "union" and s["tag"] not in uns], [])
    pr.guard("exposure", body)
    return pr


# ---- items -------------------------------------------------------------------------------

def all_items():
    out = [("prim:" + k) for k, t, fam in U.PRIMS]
    out += [U.slot_part(s, k) for s in U.STRUCTS for k in range(U.NALIAS + 1)]
    out += ["enum:" + e["key"] for e in U.ENUMS]
    out += ["const:" + c[0] for c in U.CONSTS]
    out += ["typedefs", "misc", "exposure"]
    return out


_deps_memo = {}


def split_part(part):
    """'struct:s_plain#3' -> ('struct', 's_plain', 3)"""
    kind, _, key = part.partition(":")
    key, _, slot = key.partition("#")
    return kind, key, int(slot or 0)


def item_deps(item):
    """Parts an item depends on (transitively), including itself."""
    if item in _deps_memo:
        return _deps_memo[item]
    out = {item}
    kind, key, slot = split_part(item)
    if kind == "struct":
        for d in U.STRUCT[key].get("deps", ()):
            out |= item_deps(("struct:" if d in U.STRUCT else "enum:") + d)
        if slot and U.STRUCT[key].get("selfref"):
            out |= item_deps("struct:" + key)     # an alias holding a 'struct tag *' field uses 'struct tag'
    if item in ("typedefs", "misc"):
        out |= item_deps("struct:s_plain")
    _deps_memo[item] = out
    return out


def related(a, b):
    return bool(a in item_deps(b) or b in item_deps(a))


def check_item(env, item, light, override=None):
    """override: for a partial mutant of this item, (fields or names, retyped)"""
    kind, key, slot = split_part(item)
    if kind == "prim":
        return chk_prim(env, key, light)
    if kind == "struct":
        s = U.STRUCT[key]
        if override is not None:
            return chk_struct(env, s, override[0], light, retyped=override[1], slot=slot)
        return chk_struct(env, s, U.base_cdef_fields(s), light, slot=slot)
    if kind == "enum":
        e = U.ENUM[key]
        names = override[0] if override is not None else (
            e["cdef_names"] if e.get("partial_base") else [n for n, v in e["c"]])
        return chk_enum(env, e, names, light)
    if kind == "const":
        return chk_const(env, U.CONST[key])
    if kind == "typedefs":
        return chk_typedefs(env)
    if kind == "misc":
        return chk_misc(env)
    return chk_exposure(env)


# ---------------------------------------------------------------------------------------
# mutants

INT_RETYPES_QUICK = ["signed char {n}", "short {n}", "int {n}", "unsigned int {n}", "long long {n}"]
INT_RETYPES_FULL = ["signed char {n}", "unsigned char {n}", "short {n}", "unsigned short {n}", "int {n}",
                    "unsigned int {n}", "long {n}", "long long {n}", "unsigned long long {n}", "_Bool {n}"]


def retypes(f, quick):
    """Replacement declarations of one field: (template, extra dict, expect compile error)."""
    ints = INT_RETYPES_QUICK if quick else INT_RETYPES_FULL
    k = f["kind"]
    out = []
    if k == "scalar" and U.PRIM[f["prim"]][1] in ("float", "ldouble"):
        out += [(t, {}, False) for t in ("float {n}", "double {n}", "long double {n}")]
        out += [("int {n}", {}, True), ("long long {n}", {}, True)]
    elif k == "scalar":
        out += [(t, {}, False) for t in ints]
        out += [("float {n}", {}, False), ("double {n}", {}, False)]
    elif k == "enum":
        out += [(t, {}, False) for t in ("signed char {n}", "int {n}", "long long {n}")]
    elif k == "ptr":
        out += [("char *{n}", {}, False), ("long {n}", {}, True), ("int {n}", {}, True)]
    elif k == "fnptr":
        out += [("void *{n}", {}, False), ("long {n}", {}, True)]
    elif k == "struct":
        out += [("struct s_arr {n}", {}, False), ("struct s_packed {n}", {}, False), ("long long {n}", {}, True)]
    elif k == "array":
        dims = f["dims"]
        sfx = "".join("[%d]" % d for d in dims)
        for i, d in enumerate(dims):
            for nd in (d + 1, d - 1):
                if nd >= 1:
                    nds = dims[:i] + (nd,) + dims[i + 1:]
                    out.append(("%s {n}%s" % (f["base"], "".join("[%d]" % x for x in nds)), {"dims": nds}, False))
        for t in ints:
            base = t[:-4]
            out.append(("%s {n}%s" % (base, sfx), {}, False))
        out.append(("%s {n}[]" % f["base"], {"kind": "flex"}, False))
        out.append(("%s {n}" % f["base"], {"kind": "scalar"}, True))
    elif k == "flex":
        out += [("%s {n}[1]" % f["base"], {"kind": "array", "dims": (1,)}, True),
                ("int {n}[]", {}, False), ("%s *{n}" % f["base"], {"kind": "ptr"}, True)]
    elif k == "bits":
        w = f["width"]
        for nw in (w + 1, w - 1):
            if nw >= 1:
                out.append(("%s {n}:%d" % (f["base"], nw), {"width": nw}, False))
        for t in ints + ["long long {n}"]:
            out.append(("%s:%d" % (t, w), {}, False))
        out.append(("%s {n}" % f["base"], {"kind": "scalar"}, True))
    res, seen = [], {f["tmpl"]}
    for t, extra, ce in out:
        if t in seen:
            continue
        seen.add(t)
        res.append((t, extra, ce))
    return res


def field_variants(base, quick):
    """Single-point variants of one field list: (op, fields, expect compile error, retyped names, inside an
    anonymous member).  All swaps, every field retyped, every field removed; an anonymous struct/union member
    is one field for these operators and is also unwrapped (its members put in its place), flipped between struct
    and union, and varied inside (recursively) by the same operators."""
    out = []
    n = len(base)
    for i in range(n):
        for j in range(i + 1, n):
            fl = list(base)
            fl[i], fl[j] = fl[j], fl[i]
            out.append((["swap", U.field_label(base[i]), U.field_label(base[j])], fl, False, [], False))
    for i, f in enumerate(base):
        for tmpl, extra, ce in retypes(f, quick):
            nf = dict(f)
            nf.pop("cdef_tmpl", None)
            nf["tmpl"] = tmpl
            nf.update(extra)
            fl = list(base)
            fl[i] = nf
            out.append((["retype", f["name"], tmpl.format(n=f["name"])], fl, ce, [f["name"]], False))
    if n > 1:
        for i, f in enumerate(base):
            out.append((["remove", U.field_label(f)], base[:i] + base[i + 1:], False, [], False))
    for i, f in enumerate(base):
        if f["kind"] != "anon":
            continue
        lab = U.field_label(f)
        out.append((["unwrap", lab], base[:i] + list(f["sub"]) + base[i + 1:], False, [], False))
        g = dict(f)
        g["su"] = "union" if f["su"] == "struct" else "struct"
        out.append((["suflip", lab], base[:i] + [g] + base[i + 1:], False, [], False))
        for op, sub, ce, rt, _ in field_variants(f["sub"], quick):
            g = dict(f)
            g["sub"] = sub
            out.append((op + ["in", lab], base[:i] + [g] + base[i + 1:], ce, rt, True))
    return out


def struct_mutants(s, quick):
    """Single-point mutants of a struct that is exact (no '...') in the base cdef."""
    base = U.base_cdef_fields(s)
    kw = {"packed": True} if s.get("packed") else {}
    muts = []

    def add(op, fields, expect_ce=False, kw2=None, retyped=(), inner=False):
        d = dict(skind=s["tag"], item="struct", op=op, fields=fields, kw=kw if kw2 is None else kw2,
                 expect_ce=expect_ce, retyped=list(retyped))
        if inner:
            d["inner"] = True
        muts.append(d)
    n = len(base)
    for op, fl, ce, rt, inner in field_variants(base, quick):
        add(op, fl, expect_ce=ce, retyped=rt, inner=inner)
    for pos in sorted({0, n}):
        fl = list(base)
        fl.insert(pos, U.F("zz_added", "char {n}", "scalar", "char"))
        add(["add", "zz_added", pos], fl, expect_ce=True)
    add(["packflip"], list(base), kw2={} if s.get("packed") else {"packed": True})
    return muts


def partial_struct_mutants(s):
    """Alternative declarations of a struct that is partial in the base cdef: every non-empty
    ordered selection of up to 2 of its C fields (plus all fields in C order and reversed)."""
    sels = []
    fl = s["fields"]
    for f in fl:
        sels.append([f])
    for a in fl:
        for b in fl:
            if a is not b:
                sels.append([a, b])
    sels.append(list(fl))
    sels.append(list(reversed(fl)))
    base = [U.field_label(f) for f in U.base_cdef_fields(s)]
    out = []
    for sel in sels:
        if [U.field_label(f) for f in sel] == base:
            continue
        out.append(dict(skind=s["tag"], item="struct", op=["select"] + [U.field_label(f) for f in sel],
                        fields=sel, kw={}, expect_ce=False, retyped=[], partial=True))
    return out


DOTS_ITEM_TYPES = ["signed char", "short", "int", "unsigned int", "long long"]


def is_dots_kind(s):
    return any("cdef_tmpl" in f for f in s["fields"])


def dots_struct_mutants(s):
    """Alternative declarations of a struct whose base cdef has a '[...]' array field (and no '...;').
    A declaration that still contains '[...]' is partial: silent, with gcc's layout (mode 'partial'; a wrong
    item type may be refused).  A declaration without it is exact: it must raise iff gcc's layout of it differs."""
    fl = U.base_cdef_fields(s)
    (di, d), = [(i, f) for i, f in enumerate(fl) if "cdef_tmpl" in f]
    out = []

    def add(op, fields, retyped=()):
        dotted = any("..." in f.get("cdef_tmpl", "") for f in fields)
        out.append(dict(skind=s["tag"], item="struct", op=op, fields=fields, kw={}, expect_ce=False,
                        retyped=list(retyped), nodots=True, mode="partial" if dotted else "exact", dots_kind=True))
    sels = [[f] for f in fl]
    sels += [[a, b] for a in fl for b in fl if a is not b]
    sels.append(list(reversed(fl)))
    for sel in sels:
        add(["select"] + [f["name"] for f in sel], sel)

    def with_field(nf):
        return fl[:di] + [nf] + fl[di + 1:]
    dims = d["dims"]
    rest = "".join("[%d]" % x for x in dims[1:])
    # the item type of the '[...]' array
    for t in DOTS_ITEM_TYPES:
        if t == d["base"]:
            continue
        nf = dict(d)
        nf["cdef_tmpl"] = "%s {n}[...]%s" % (t, rest)
        add(["retype", d["name"], nf["cdef_tmpl"].format(n=d["name"])], with_field(nf), retyped=[d["name"]])
    if len(dims) > 1:
        # other spellings of the same type
        for sfx in ("[...]" * len(dims), "[%d]" % dims[0] + "[...]" * (len(dims) - 1)):
            nf = dict(d)
            nf["cdef_tmpl"] = "%s {n}%s" % (d["base"], sfx)
            add(["respell", d["name"], nf["cdef_tmpl"].format(n=d["name"])], with_field(nf))
            if not sfx.startswith("[...]"):
                # '[3][...]' (only an inner dimension open) as a struct field: scheduled alone, because the
                # module fails to compile on the current tree (see judge: dots_inner_dimension_only)
                out[-1]["expect_ce"] = True
                out[-1]["dots_inner_only"] = True
        # a wrong inner dimension under '[...]'
        for nd in (dims[1] + 1, dims[1] - 1):
            if nd >= 1:
                nf = dict(d)
                nf["cdef_tmpl"] = "%s {n}[...][%d]%s" % (d["base"], nd, "".join("[%d]" % x for x in dims[2:]))
                add(["retype", d["name"], nf["cdef_tmpl"].format(n=d["name"])], with_field(nf), retyped=[d["name"]])
    # the '[...]' replaced by a number: the right one, one more, one less
    for n0 in (dims[0], dims[0] + 1, dims[0] - 1):
        nf = dict(d)
        nf.pop("cdef_tmpl")
        nf["dims"] = (n0,) + tuple(dims[1:])
        nf["tmpl"] = "%s {n}%s" % (d["base"], "".join("[%d]" % x for x in nf["dims"]))
        add(["fixlen", d["name"], nf["tmpl"].format(n=d["name"])], with_field(nf),
            retyped=[] if n0 == dims[0] else [d["name"]])
    return out


def value_mutations(v):
    out = []
    for op, nv in (("plus1", v + 1), ("minus1", v - 1), ("negate", -v),
                   ("wrap64", v + (1 << 64) if v < 0 else v - (1 << 64))):
        if nv == v:
            continue
        out.append((op, nv))
    return out


def in_c_range(v):
    return -(1 << 63) <= v <= MASK64


def const_mutants(c):
    name, val, ctext, form = c
    out, excluded = [], 0
    if form == "dots":
        return out, excluded
    for op, nv in value_mutations(val):
        if not in_c_range(nv):
            excluded += 1
            continue
        out.append(dict(part="const:" + name, item="const" if form.startswith("const:") else "define",
                        op=["value", op], value=nv, kw={}, expect_ce=False))
    return out, excluded


def enum_mutants(e):
    out, excluded = [], 0
    if e.get("partial_base"):
        return out, excluded
    for i, (n, v) in enumerate(e["c"]):
        for op, nv in value_mutations(v):
            if not in_c_range(nv):
                excluded += 1
                continue
            if e.get("implicit"):
                pairs = [(m, None) for m, w in e["c"]]
                pairs[i] = (n, nv)
            else:
                pairs = list(e["c"])
                pairs[i] = (n, nv)
            out.append(dict(part="enum:" + e["key"], item="enumerator", op=["value", op], name=n, value=nv,
                            pairs=pairs, kw={}, expect_ce=False))
    return out, excluded


def mutant_text(m, partial):
    kind, key, slot = split_part(m["part"])
    if kind == "struct":
        if m.get("nodots"):
            partial = False            # a '[...]' kind: the array length is the only '...' of the declaration
        return U.slot_text(U.STRUCT[key], m["fields"], slot, partial=partial or m.get("partial", False))
    if kind == "enum":
        return U.enum_text(U.ENUM[key], m["pairs"], partial=partial)
    return U.const_cdef(U.CONST[key], value=m.get("value"), dots=partial)


QUICK_CE_PER_KIND = 1       # quick tier: mutants expected not to compile, per struct kind
# ... and of the kinds added later only these have one in the quick tier (each costs a module of its own)
QUICK_CE_ADDED_KINDS = ("s_anon", "np_plain")
ADDED_KINDS = ("s_anon", "u_anon", "s_anon2", "s_anon1", "s_anonbf", "s_panon", "np_plain", "s_dots2", "s_bf2", "u_bf")


def enumerate_mutants(quick):
    """Returns (list of mutants, counters).  Every mutant gets an 'id', 'part', 'text' and 'mode':
       exact   -- mutated declaration without '...': must raise iff a checked fact changed
       partial -- the same mutation under '...': must be silent and give gcc's layout/values"""
    muts = []
    cnt = {}

    def bump(k, n=1):
        cnt[k] = cnt.get(k, 0) + n
    for s in U.STRUCTS:
        mine = []
        if is_dots_kind(s):
            for m in dots_struct_mutants(s):
                mine.append(m)
        elif s.get("partial_base"):
            for m in partial_struct_mutants(s):
                m["mode"] = "partial"
                mine.append(m)
        else:
            nce = 0
            for m in struct_mutants(s, quick):
                if m["expect_ce"]:
                    nce += 1
                    if quick and (nce > QUICK_CE_PER_KIND or (s["tag"] in ADDED_KINDS and
                                                              s["tag"] not in QUICK_CE_ADDED_KINDS)):
                        bump("bound_quick_skipped_expected_compile_errors")
                        continue
                m["mode"] = "exact"
                mine.append(m)
                if m["op"][0] in ("add", "packflip"):
                    continue
                if any(f["kind"] == "bits" for f in U.flat_fields(m["fields"])):
                    bump("excluded_partial_with_bitfield")      # documented: '...;' and bitfields cannot be combined
                    continue
                if any(f["kind"] == "flex" for f in m["fields"][:-1]):
                    bump("excluded_partial_flex_not_last")
                    continue
                if s.get("via_pointer"):
                    # 'typedef struct { ...; } *p;' is refused by cffi as a whole ("is partial but has no C name"):
                    # not a declaration the '...' half of the statement can be asked about
                    bump("excluded_partial_pointer_typedef_unsupported")
                    continue
                if m["expect_ce"] and quick:
                    bump("bound_quick_skipped_expected_compile_errors")
                    continue
                if quick and m["op"][0] == "retype":
                    bump("bound_quick_skipped_retype_under_dots")
                    continue
                pm = dict(m)
                pm["mode"] = "partial"
                mine.append(pm)
        # spread the mutants of one struct kind over its interchangeable declarations (slots)
        k = 0
        for m in mine:
            m["part"] = U.slot_part(s, k % (U.NALIAS + 1))
            k += 1
        muts += mine
    for e in U.ENUMS:
        ms, ex = enum_mutants(e)
        bump("excluded_value_outside_c_integer_range", ex)
        seen_partial = set()
        for m in ms:
            if quick and m["op"][1] == "minus1" and m["value"] not in (0, -1):
                # quick bound: +1, negate, wrap for every enumerator; -1 only where it crosses zero
                bump("bound_quick_skipped_enumerator_ops")
                continue
            m["mode"] = "exact"
            muts.append(m)
            if quick and m["name"] in seen_partial:
                continue
            seen_partial.add(m["name"])
            pm = dict(m)
            pm["mode"] = "partial"
            muts.append(pm)
    for c in U.CONSTS:
        ms, ex = const_mutants(c)
        bump("excluded_value_outside_c_integer_range", ex)
        for m in ms:
            m["mode"] = "exact"
            muts.append(m)
        if c[3] != "dots":
            muts.append(dict(part="const:" + c[0], item="define" if c[3] == "define" else "const", op=["dots"],
                             kw={}, expect_ce=False, mode="partial"))
    for i, m in enumerate(muts):
        m["id"] = i
        m["text"] = mutant_text(m, m["mode"] == "partial")
    return muts, cnt


def _gcc_run(src):
    """Compile+run; returns (stdout, None) or (None, set of failing line numbers)."""
    import subprocess
    exe = os.path.join(build.scratch(), "rule_%d_%d" % (os.getpid(), next(_counter)))
    with open(exe + ".c", "w") as f:
        f.write(src)
    p = subprocess.run(["gcc", "-w", "-O0", exe + ".c", "-o", exe], stdout=subprocess.PIPE, stderr=subprocess.STDOUT,
                       text=True)
    if p.returncode != 0:
        lines = set()
        for line in p.stdout.splitlines():
            mm = re.match(r"^[^:]+\.c:(\d+):\d+: error:", line)
            if mm:
                lines.add(int(mm.group(1)))
        if not lines:
            raise InfraError("gcc failed on the mutant layout program:\n" + p.stdout[-2000:])
        return None, lines
    q = subprocess.run([exe], stdout=subprocess.PIPE, text=True)
    if q.returncode != 0:
        raise InfraError("mutant layout program failed")
    return q.stdout, None


def _decl_key(m):
    return (m["skind"], tuple(U.field_text(f, True) for f in m["fields"]), bool(m["kw"].get("packed")))


def gcc_rule(muts):
    """Ask gcc for the layout of every struct mutant declaration (as an exact C declaration); sets
    m['changed'] = list of checked facts (field offset / field size / total size) that differ from the
    real struct, per the statement.  Declarations gcc rejects are not C: returned separately."""
    smuts = [m for m in muts if m["item"] == "struct" and m["mode"] == "exact"]
    facts = G["facts"]
    todo = [m for m in smuts if m["op"][0] != "add"]
    while True:
        head = U.types_source() + "#include <stdio.h>\n"
        lineno = head.count("\n")
        src = [head]
        body = []
        owner = {}
        for m in todo:
            s = U.STRUCT[m["skind"]]
            tag = "m%d" % m["id"]
            txt = U.c_struct_def(s, m["fields"], tag=tag, packed=bool(m["kw"].get("packed")))
            for k in range(txt.count("\n")):
                owner[lineno + 1 + k] = m["id"]
            lineno += txt.count("\n")
            src.append(txt)
            T = U.ctype_expr(s, tag)
            body.append('printf("M %d %%d\\n", (int)sizeof(%s));' % (m["id"], T))
            for f in U.flat_fields(m["fields"]):
                if f["kind"] == "bits":
                    continue
                sz = "-1" if f["kind"] == "flex" else "(int)sizeof(((%s *)0)->%s)" % (T, f["name"])
                body.append('printf("MF %d %s %%d %%d\\n", (int)offsetof(%s, %s), %s);' % (
                    m["id"], f["name"], T, f["name"], sz))
        src.append("int main(void) {\n" + "\n".join(body) + "\nreturn 0; }\n")
        out, badlines = _gcc_run("".join(src))
        if out is not None:
            break
        bad = {owner[ln] for ln in badlines if ln in owner}
        if not bad:
            raise InfraError("gcc rejects the mutant layout program outside a mutant declaration")
        for m in todo:
            if m["id"] in bad:
                m["gcc_rejects"] = True
        todo = [m for m in todo if m["id"] not in bad]
    size, flds = {}, {}
    for line in out.splitlines():
        p = line.split()
        if p[0] == "M":
            size[int(p[1])] = int(p[2])
        else:
            flds.setdefault(int(p[1]), {})[p[2]] = (int(p[3]), int(p[4]))
    for m in smuts:
        tag = m["skind"]
        if m["op"][0] == "add":
            m["changed"] = ["field-not-in-C"]
            continue
        if m.get("gcc_rejects"):
            continue
        ch = []
        if size[m["id"]] != facts["S"][tag][0]:
            ch.append("total-size")
        real = facts["F"][tag]
        for name, (off, sz) in sorted(flds.get(m["id"], {}).items()):
            if name not in real:
                ch.append("not-a-plain-field-in-C:" + name)
                continue
            roff, rsz = real[name]
            if off != roff:
                ch.append("offset:" + name)
            # the size of a field is checked unless the cdef declares it as an open array
            if sz >= 0 and sz != rsz:
                ch.append("size:" + name)
        m["changed"] = ch
    for m in muts:
        if m["mode"] == "exact" and m["item"] != "struct":
            m["changed"] = ["value"]
    # the '...' variant of a declaration gcc rejects is dropped too
    bad_decls = {_decl_key(m) for m in smuts if m.get("gcc_rejects")}
    keep, dropped = [], []
    for m in muts:
        if m["item"] == "struct" and not m.get("partial") and _decl_key(m) in bad_decls and not (
                m.get("dots_kind") and m["mode"] == "partial"):
            dropped.append(m)
        else:
            keep.append(m)
    return keep, dropped


def schedule(muts, cap):
    """Greedy packing of mutants into modules: the mutated parts of one module are pairwise
    unrelated.  Mutants expected not to compile get a module of their own."""
    solos = [[m["id"]] for m in muts if m["expect_ce"]]
    allparts = [pid for pid, text, kw in G["parts"]] + ["typedefs"]
    rel = {}
    for m in muts:
        p = m["part"]
        if p not in rel:
            rel[p] = {q for q in allparts if related(p, q)}
    per_part = {}
    for m in muts:
        if not m["expect_ce"]:
            per_part[m["part"]] = per_part.get(m["part"], 0) + 1
    nb = max(per_part.values()) if per_part else 0
    bins = [[[], set()] for _ in range(nb)]      # [ids, blocked parts]
    # parts other parts depend on are concentrated in the first modules (first fit); everything else
    # goes to the least-loaded admissible module
    blockers = {p for p in rel if any(q != p and p in item_deps(q) for q in allparts)}
    order = [m for m in muts if not m["expect_ce"] and m["part"] in blockers] + \
            [m for m in muts if not m["expect_ce"] and m["part"] not in blockers]
    for m in order:
        best = None
        for b in bins:               # ties -> lowest index (deterministic)
            if len(b[0]) < cap and m["part"] not in b[1]:
                if m["part"] in blockers:
                    best = b
                    break
                if best is None or len(b[0]) < len(best[0]):
                    best = b
        if best is None:
            best = [[], set()]
            bins.append(best)
        best[0].append(m["id"])
        best[1] |= rel[m["part"]]
    return [b[0] for b in bins if b[0]], solos


# ---- using a mutated item ---------------------------------------------------------------------

class Accept(str):
    """Returned by a use that did not raise but provably worked with the compiler's layout only."""


def _try(fn):
    try:
        r = fn()
    except Exception as e:
        return type(e).__name__
    if isinstance(r, Accept):
        return "accepted:" + r
    return None


def _all_raise(obj, names):
    """Read every named field of obj: raises (the last error) iff every read raises."""
    last = None
    for n in names:
        try:
            getattr(obj, n)
        except Exception as e:
            last = e
            continue
        return None
    raise last


def outer_kinds(key):
    """(outer struct kind, name of its field) for the kinds that hold struct kind `key` by value."""
    out = []
    for o in U.STRUCTS:
        for f in U.base_cdef_fields(o):
            if f["kind"] == "struct" and f["sub"] == key:
                out.append((o, f["name"]))
    return out


def uses_of(env, m):
    """(use name, thunk) list: every way the mutated item is used."""
    ffi, lib = env.ffi, env.lib
    kind, key, slot = split_part(m["part"])
    if kind == "struct":
        s = U.STRUCT[key]
        T = U.slot_tname(s, slot)
        vp = bool(s.get("via_pointer"))
        names = [f["name"] for f in U.flat_fields(m["fields"])]      # anonymous members: the leaves' own names
        first = names[0]
        last = names[-1]
        ST = lambda: s_ctype(ffi, s, slot)
        PT = lambda: p_ctype(ffi, s, slot)
        us = [("sizeof", lambda: ffi.sizeof(ST())),
              ("new", lambda: ffi.new(PT())),
              ("offsetof-first", lambda: ffi.offsetof(ST(), first)),
              ("offsetof-last", lambda: ffi.offsetof(ST(), last)),
              ("fields", lambda: ST().fields),
              ("cast-pointer-field", lambda: getattr(ffi.cast(PT(), env.caddr("addr_gs_" + key)), first)),
              ("alignof", lambda: ffi.alignof(ST()))]
        if not vp:

            def new_array():
                # allocating 'T[2]' needs the total size only; cffi takes it from the compiler without looking
                # at the fields.  Required: raise, or allocate 2 x gcc's size and refuse every look inside.
                arr = ffi.new(T + "[2]")
                if ffi.sizeof(arr) != 2 * env.facts["S"][key][0]:
                    return None
                return _all_raise(arr[1], names)
            us.append(("new-array", new_array))
            us.append(("from-buffer-field", lambda: getattr(ffi.from_buffer(T + " *", bytearray(512)), first)))
        if slot == 0:
            if not s.get("novalue") and not vp:
                us.append(("global-field", lambda: getattr(getattr(lib, "gs_" + key), last)))
                us.append(("addressof-global-field", lambda: getattr(ffi.addressof(lib, "gs_" + key), first)))
            us.append(("pointer-field", lambda: getattr(getattr(lib, "ptr_" + key)(), first)))
        if slot == 0 and not s.get("novalue") and not vp:
            # the by-value call wrappers.  A call that only moves the compiler's bytes around never looks at
            # the cdef's layout and is not required to raise; every look inside what it returned is.
            ret, take = "ret_" + key, "take_" + key
            us.append(("byvalue-result-fields", lambda: _all_raise(getattr(lib, ret)(), names)))
            us.append(("byvalue-argument-dict", lambda: getattr(lib, take)({})))

            def roundtrip():
                size = env.facts["S"][key][0]
                addr = env.caddr("addr_gs_" + key)
                pat = bytes((i * 37 + 11) & 0x7F for i in range(size))
                ctypes.memmove(addr, pat, size)
                try:
                    getattr(lib, take)(getattr(lib, ret)())
                    now = ctypes.string_at(addr, size)
                finally:
                    ctypes.memset(addr, 0, size)
                for n, (o, z) in sorted(env.facts["F"][key].items()):
                    if z > 0 and now[o:o + z] != pat[o:o + z]:
                        return None          # silent, and the C object was not carried over intact
                return Accept("compiler-layout-roundtrip")
            us.append(("byvalue-roundtrip", roundtrip))

            def fields_after_call():
                try:
                    getattr(lib, ret)()
                except Exception:
                    pass
                return ST().fields
            us.append(("fields-after-byvalue-call", fields_after_call))
            for o, fname in outer_kinds(key):
                OT = U.tname(o)
                us.append(("outer-sizeof:" + o["tag"], (lambda OT: lambda: ffi.sizeof(OT))(OT)))
                us.append(("outer-offsetof:" + o["tag"],
                           (lambda OT, fname: lambda: ffi.offsetof(OT, fname, first))(OT, fname)))
                us.append(("outer-global-field:" + o["tag"],
                           (lambda o, fname: lambda: getattr(getattr(getattr(lib, "gs_" + o["tag"]), fname), first))(o, fname)))
        return us
    if kind == "enum":
        e = U.ENUM[key]
        us = [("lib-attr", lambda: getattr(lib, m["name"]))]
        T = U.enum_tname(e)
        if T is not None:
            us.append(("enum-type", lambda: ffi.typeof(T).relements))
        return us
    # an integer constant: through lib, through ffi.integer_const(), and as an array length in a type string
    return [("lib-attr", lambda: getattr(lib, key)),
            ("integer_const", lambda: ffi.integer_const(key)),
            ("array-length", lambda: ffi.typeof("char[%s]" % key)),
            ("array-length-new", lambda: ffi.sizeof("short[%s][2]" % key))]


def eval_module(ids):
    """Build one module carrying the given mutants and evaluate every oracle in it."""
    M = G["mutants"]
    ms = [M[i] for i in ids]
    replace = {m["part"]: (m["text"], m["kw"]) for m in ms}
    r = build_module(replace)
    if r[0] != "ok":
        if len(ids) == 1:
            return {"n_builds": 1, "results": {ids[0]: {"build": r[0], "info": list(r[1:])}}, "unmutated": [],
                    "bisected": 0, "nchecks": 0, "n_unmutated_items": 0}
        h = len(ids) // 2
        a = eval_module(ids[:h])
        b = eval_module(ids[h:])
        a["results"].update(b["results"])
        a["unmutated"] += b["unmutated"]
        a["n_builds"] += b["n_builds"] + 1
        a["bisected"] += b["bisected"] + 1
        a["nchecks"] += b["nchecks"]
        a["n_unmutated_items"] += b["n_unmutated_items"]
        return a
    env = Env(r[1], r[2])
    res = {}
    tainted = {m["part"] for m in ms}
    for m in ms:
        if m["mode"] == "exact":
            outs = []
            for rnd in (1, 2):
                for uname, thunk in uses_of(env, m):
                    outs.append((uname, rnd, _try(thunk)))
            res[m["id"]] = {"build": "ok", "uses": outs}
        else:
            kind, key, slot = split_part(m["part"])
            if kind == "struct":
                ov = (m["fields"], m["retyped"])
            elif kind == "enum":
                ov = ([n for n, v in m["pairs"]], ())
            else:
                ov = None
            pr = check_item(env, m["part"], True, override=ov)
            res[m["id"]] = {"build": "ok", "problems": list(pr)}
    unmut = []
    nitems = 0
    for item in G["items"]:
        if item == "exposure":
            continue
        if any(p in tainted for p in item_deps(item)):
            continue
        nitems += 1
        for what, info in check_item(env, item, True):
            unmut.append((item, what, info, ids))
    return {"n_builds": 1, "results": res, "unmutated": unmut, "bisected": 0, "nchecks": env.nchecks,
            "n_unmutated_items": nitems}


def work(job):
    kind = job[0]
    if kind == "base":
        r = build_module({})
        if r[0] != "ok":
            raise InfraError("the base universe module does not build: %r" % (r,))
        env = Env(r[1], r[2])
        out = []
        for item in G["items"]:
            for what, info in check_item(env, item, False):
                out.append((item, what, info))
        return ("base", out, env.nchecks)
    return ("mut", eval_module(job[1]))


# ---------------------------------------------------------------------------------------

def setup(quick):
    G["parts"] = U.parts()
    G["source"] = U.source()
    G["facts"] = U.parse_reference(cref.run_c(U.source() + U.reference_main()))
    G["items"] = all_items()
    muts, cnt = enumerate_mutants(quick)
    ok, notc = gcc_rule(muts)
    cnt["excluded_declaration_rejected_by_gcc"] = len(notc)
    G["mutants"] = {m["id"]: m for m in muts}
    return ok, cnt


def struct_family(m):
    """The family of the universe a struct mutant belongs to (evidence counters)."""
    s = U.STRUCT[m["skind"]]
    if s.get("via_pointer"):
        return "family_pointer_typedef"
    if m.get("dots_kind"):
        return "family_dots_array"
    if U.has_anon(s["fields"]):
        return "family_anonymous_member"
    if s["tag"] in ("s_bf2", "u_bf"):
        return "family_bitfield_types"
    return "family_base"


def judge_exact(ctx, m, r, detail_base):
    """The oracle of an exact (no '...') mutant."""
    must = bool(m["changed"])
    cls = "must_raise" if must else "no_checked_fact_changed"
    ctx.count("exact_%s_%s" % (m["item"], cls))
    if r["build"] != "ok":
        ctx.count("outcome_build_refused_" + r["build"])
        if must:
            ctx.count("detected_at_build_" + m["item"])
        return          # refusing to build the module is raising an error
    outs = r["uses"]
    silent = [(u, rnd) for u, rnd, ex in outs if ex is None]
    for u, rnd, ex in outs:
        ctx.count("use_outcome_%s_%s" % (cls, ex or "silent"))
        if must and rnd == 1 and m["item"] == "struct":
            ctx.count("struct_use_%s_%s" % (u.partition(":")[0], "silent" if ex is None else
                                            "accepted" if ex.startswith("accepted:") else "raises"))
    if not must and len(silent) != len(outs) and os.environ.get("C12_DEBUG"):
        ctx.log("not required but raises: %s %r" % (m["text"].strip(), sorted({ex for u, rnd, ex in outs if ex})))
    if m["item"] == "struct":
        fam = struct_family(m)
        ctx.count("exact_%s_%s" % (fam, cls))
        if must and r["build"] == "ok":
            ctx.count("exact_%s_%s" % (fam, "all_uses_raise" if not silent else "some_use_silent"))
    if must and silent:
        sig = {"kind": "mutant-silent", "item": m["item"]}
        if m["item"] == "struct":
            sig["op"] = m["op"][0]
            nacc = len([1 for u, rnd, ex in outs if ex is not None and ex.startswith("accepted:")])
            sig["uses"] = "all" if len(silent) + nacc == len(outs) else "some"
            if sig["uses"] == "some":
                which = sorted({u.partition(":")[0] for u, rnd in silent})
                sig["which"] = "+".join(which) if len(which) <= 3 else "many"
            if U.has_anon(m["fields"]):
                # the declaration (as mutated) has an anonymous struct/union member: recompiler.py does not
                # set _CFFI_F_CHECK_FIELDS for it (audit finding 0)
                sig["anonymous_member"] = True
        d = dict(detail_base)
        d.update({"silent_uses": silent, "changed": m["changed"]})
        ctx.violation(sig, d)
    elif must:
        ctx.count("detected_at_use_" + m["item"])


def run(ctx):
    quick = ctx.quick
    ok, cnt = setup(quick)
    for k, v in cnt.items():
        ctx.count(k, v)
    cap = 200
    batches, solos = schedule(ok, cap)
    ctx.log("universe: %d names, %d mutants, %d batch modules + %d single modules" % (
        len(U.declared_names()), len(ok), len(batches), len(solos)))
    for m in ok:
        ctx.count("mutants_%s_%s" % (m["mode"], m["item"]))
        ctx.count("op_%s" % m["op"][0])
        if m["item"] == "struct":
            ctx.count("struct_slot_%s" % ("named" if split_part(m["part"])[2] == 0 else "typedef_alias"))
            ctx.count("mutants_%s_%s" % (struct_family(m), m["mode"]))
            if m.get("inner"):
                ctx.count("mutants_inside_an_anonymous_member")
            if U.has_anon(U.STRUCT[m["skind"]]["fields"]) and not U.has_anon(m["fields"]):
                ctx.count("mutants_that_leave_no_anonymous_member")
    jobs = [[("base",)]] + [[("mut", b)] for b in sorted(batches, key=len, reverse=True)] + [[("mut", s)] for s in solos]
    nbuilds = 0
    evaluated = 0
    nontrivial = set()
    nchecks = 0
    bisected = 0
    M = G["mutants"]
    for job, r in pool.pmap(work, jobs, item_timeout=900):
        if isinstance(r, pool.WorkerError):
            raise InfraError("worker failed: %s" % r.tb)
        if isinstance(r, pool.Crash):
            ctx.violation({"kind": "crash"}, {"job": job, "how": r.describe()})
            continue
        if r[0] == "base":
            nbuilds += 1
            nchecks += r[2]
            ctx.count("base_fact_comparisons", r[2])
            for item, what, info in r[1]:
                ctx.violation({"kind": "base-" + what, "item": item.partition(":")[0]},
                              {"mode": "base", "item": item, "what": what, "info": info})
            continue
        er = r[1]
        nbuilds += er["n_builds"]
        bisected += er["bisected"]
        nchecks += er["nchecks"]
        for item, what, info, ids in er["unmutated"]:
            ctx.violation({"kind": "unmutated-item-" + what, "item": item.partition(":")[0]},
                          {"mode": "unmutated", "item": item, "what": what, "info": info,
                           "mutants": [dict(id=i, part=M[i]["part"], text=M[i]["text"], kw=M[i]["kw"]) for i in ids]})
        ctx.count("unmutated_items_rechecked", er["n_unmutated_items"])
        for mid, mr in er["results"].items():
            m = M[mid]
            evaluated += 1
            db = {"mode": m["mode"], "part": m["part"], "op": m["op"], "text": m["text"], "kw": m["kw"], "id": mid}
            ctx.sample({"part": m["part"], "mode": m["mode"], "op": m["op"], "cdef": m["text"].strip(),
                        "changed": m.get("changed")})
            if mr["build"] != "ok" and not m["expect_ce"]:
                ctx.count("unexpected_build_failure_%s_%s" % (m["item"], m["op"][0]))
                ctx.log("unexpected build failure: %s %s %r" % (m["mode"], m["text"].strip(), mr["info"]))
            if m["mode"] == "exact":
                if m["changed"]:
                    nontrivial.add(mid)
                judge_exact(ctx, m, mr, db)
            else:
                nontrivial.add(mid)
                if mr["build"] != "ok":
                    ctx.count("partial_build_refused_" + mr["build"])
                    if m["item"] == "struct" and m["retyped"]:
                        continue      # a wrong field *type* may be refused even under '...;'
                    d = dict(db)
                    d["info"] = mr["info"]
                    sig = {"kind": "partial-not-silent", "item": m["item"], "op": m["op"][0], "at": "build"}
                    if m.get("dots_inner_only"):
                        sig["dots_inner_dimension_only"] = True
                    ctx.violation(sig, d)
                    continue
                probs = mr["problems"]
                raises = [p for p in probs if p[0] == "raises"]
                if raises and m["item"] == "struct" and m["retyped"]:
                    ctx.count("partial_retype_refused_at_use")
                    continue
                if not probs:
                    ctx.count("partial_silent_and_gcc_layout_" + m["item"])
                    if m["item"] == "struct":
                        ctx.count("partial_silent_and_gcc_layout_" + struct_family(m))
                for what, info in probs:
                    d = dict(db)
                    d.update({"what": what, "info": info})
                    if what == "raises":
                        ctx.violation({"kind": "partial-not-silent", "item": m["item"], "op": m["op"][0], "at": "use"}, d)
                    else:
                        ctx.violation({"kind": "partial-" + what, "item": m["item"], "op": m["op"][0]}, d)
    ctx.count("modules_built", nbuilds)
    ctx.count("batches_bisected_after_unexpected_build_failure", bisected)
    cov = {
        "evaluations": evaluated + 1,
        "distinct_nontrivial": len(nontrivial),
        "fact_comparisons": nchecks,
        "modules_built": nbuilds,
        "rule": "the universe module (every declared name checked against gcc/ctypes) plus every single-point mutant of "
                "every exact struct kind (all field swaps, every field retyped over the %s type alphabet incl. array "
                "length +-1 / bitfield width +-1, every field removed, a field added first/last, packing flipped; each "
                "struct kind is declared %d times in the universe -- 'struct tag' and %d typedef aliases -- and its "
                "mutants are dealt round-robin over these declarations), of every enumerator and every valued integer "
                "constant (+1, -1, negated, +-2^64 wrap%s), each also under '...'; plus every <=2-field selection of "
                "the partial structs (an anonymous member counts as one field).  Added families: "
                "6 kinds with anonymous struct/union members (operators also applied inside the member, member "
                "unwrapped, struct<->union flipped); a struct known only through a pointer typedef (exact operators "
                "only: cffi refuses '...;' there); the two '[...]' kinds under every <=2-field selection, the item type "
                "of the open array over %d types, re-spelled ('[...][...]', '[3][...]'), wrong inner dimension, "
                "and the '[...]' replaced by the right length and +-1; bitfields of _Bool / long long:40 / unsigned "
                "char / an enum and bitfields in a union; 11 'static const' over 8 integer types; every mismatching "
                "struct is also used through alignof, T[2], from_buffer and (named declaration) addressof(global), the "
                "by-value call wrappers and the outer structs that hold it; part 'misc' in the base/unmutated "
                "comparison.  non-trivial = exact mutants for which gcc reports a changed field offset, field "
                "size, total size or value (must raise) and all '...' mutants (must be silent with gcc's layout); "
                "exact mutants that change no checked fact are executed but not required to raise%s" % (
                    "5-type (quick)" if quick else "10-type (full)", U.NALIAS + 1, U.NALIAS,
                    "; quick: enumerator -1 only where it crosses zero" if quick else "", len(DOTS_ITEM_TYPES),
                    "; quick: at most %d mutants expected not to compile per struct kind, and retype mutants "
                    "only without '...'; of the added kinds only %s have such a mutant" % (
                        QUICK_CE_PER_KIND, "/".join(QUICK_CE_ADDED_KINDS)) if quick else ""),
        "exhaustive": True,
        "bound": {"int_retype_alphabet": len(INT_RETYPES_QUICK if quick else INT_RETYPES_FULL), "module_cap": cap,
                  "declarations_per_struct_kind": U.NALIAS + 1, "struct_kinds": len(U.STRUCTS),
                  "integer_constants": len(U.CONSTS), "universe_names": len(U.declared_names())},
    }
    return ctx.finish(cov, [
        "gcc 12 on this machine is the authority for sizes, offsets and values",
        "ctypes.CDLL on the generated extension is the independent channel to the module's memory",
        "a module that cffi or the C compiler refuses to build counts as 'raises' for a mutated item",
        "mutants are batched: mutated parts in one module are pairwise independent (no nesting/enum-field relation)"])


def replay(detail):
    mode = detail["mode"]
    G["parts"] = U.parts()
    G["source"] = U.source()
    G["facts"] = U.parse_reference(cref.run_c(U.source() + U.reference_main()))
    G["items"] = all_items()
    if mode in ("base", "unmutated"):
        replace = {}
        for mm in detail.get("mutants", []):
            replace[mm["part"]] = (mm["text"], mm["kw"])
        r = build_module(replace)
        if r[0] != "ok":
            print("module does not build:", r)
            return 0
        env = Env(r[1], r[2])
        probs = [p for p in check_item(env, detail["item"], mode == "unmutated") if p[0] == detail["what"]]
        print("item", detail["item"], "with cdef parts replaced:", sorted(replace))
        for p in probs:
            print("MISMATCH", p)
        return 1 if probs else 0
    part, text, kw = detail["part"], detail["text"], detail["kw"]
    print("cdef part %s replaced by (kwargs %r):\n  %s" % (part, kw, text.strip()))
    cand = None
    for quick in (True, False):
        muts, cnt = enumerate_mutants(quick)
        hit = [m for m in muts if m["part"] == part and m["text"] == text and m["kw"] == kw and m["mode"] == mode]
        if hit:
            gcc_rule(muts)
            G["mutants"] = {m["id"]: m for m in muts}
            cand = hit[0]
            break
    if cand is None:
        print("mutant not found in the current enumeration")
        return 0
    m = cand
    er = eval_module([m["id"]])
    mr = er["results"][m["id"]]
    print("observed:", mr)
    if mode == "exact":
        print("gcc says changed checked facts:", m.get("changed"))
        if mr["build"] != "ok" or not m.get("changed"):
            return 0
        silent = [u for u, rnd, ex in mr["uses"] if ex is None]
        print("uses that did not raise:", silent)
        return 1 if silent else 0
    if mr["build"] != "ok":
        return 1
    return 1 if mr["problems"] else 0
