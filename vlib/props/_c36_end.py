"""C36, family `ending`: interpreters that are driven into a model state and then END there.

    python -m vlib.props._c36_end '<json: paths, specs=[{cfg, history, how}, ...]>'

This process loads the harness and the callbacks but never runs a callback itself (no foreign thread state,
no zombie ever exists in it).  For every spec it forks one CASE process from the top level of the script;
the case process spawns its own foreign threads, replays `history` under the model of c36.Sys and then

how = "finalize"       leaves Python normally (return to the top level -> Py_FinalizeEx) with whatever foreign
                       threads are alive (with a thread state, without one, parked inside a callback) and
                       whatever exited threads are still unreclaimed -- no cleaning close()
      "fork-exit"      os.fork()s in that state; the child (in which the foreign pthreads do not exist, their
                       thread states having been cleared by PyOS_AfterFork_Child) starts new foreign threads,
                       runs CHILD_HISTORY under the same model and leaves through os._exit(0); the case process
                       waits for it, then finishes its own history with the cleaning close() and leaves normally
      "fork-finalize"  the same, but the child leaves through sys.exit(0), i.e. finalises with a live foreign
                       thread state of its own

stdout / stderr of a case go to files; this process reports one line `C36END <index> <json>` per spec with
the wait status, the records printed by the case (`REC <role> <json>`) and its stderr.  The driver
(c36.judge_ending) requires exit status 0 of every process, no fatal-error text, and no model violation.
"""
import json
import os
import shutil
import sys
import tempfile


def emit(role, rec):
    sys.stdout.write("REC %s %s\n" % (role, json.dumps(rec)))
    sys.stdout.flush()


def run_case(spec):
    from . import c36
    how = spec["how"]
    s = c36.Sys(spec["cfg"])
    for op in spec["history"]:
        bad = s.apply(tuple(op))
        if bad:
            emit("main", {"stage": "prefix", "bad": bad, "child_status": 0})
            s.close()
            return 0
    if how == "finalize":
        emit("main", {"stage": "finalize", "bad": None, "tstates": c36.tstate_count()})
        return 0                      # -> Py_FinalizeEx with the threads / zombies / parked callbacks pending
    sys.stdout.flush()
    sys.stderr.flush()
    pid = os.fork()
    if pid == 0:
        bad = None
        stage = "after-fork"
        c36._W["lib"].ft_forget()
        c36._W["ctl"].clear()
        n = c36.tstate_count()
        if n != s.base:
            bad = {"kind": "fork-child-thread-state-count", "count": n, "expected": s.base}
        else:
            s2 = c36.Sys({"fam": "extern", "nt": 2})
            if s2.base != s.base:
                bad = {"kind": "fork-child-thread-state-count", "count": s2.base, "expected": s.base,
                       "where": "after-first-callback"}
            else:
                stage = "child-history"
                for op in c36.CHILD_HISTORY:
                    bad = s2.apply(tuple(op))
                    if bad:
                        break
        emit("child", {"stage": stage, "bad": bad, "tstates": c36.tstate_count()})
        if how == "fork-exit":
            os._exit(0)
        return 0                      # finalisation in the child, one foreign thread alive with a state
    _, status = os.waitpid(pid, 0)
    cstat = os.waitstatus_to_exitcode(status)
    bad = s.close()
    emit("main", {"stage": "close", "bad": bad, "child_status": cstat, "tstates": c36.tstate_count()})
    return 0


def main():
    from . import c36
    job = json.loads(sys.argv[1])
    c36.setup(job["paths"], light=True)
    me = os.getpid()
    tmp = tempfile.mkdtemp(prefix="c36end-", dir=os.environ.get("VERIF_SHARED_SCRATCH") or None)
    try:
        for k, spec in enumerate(job["specs"]):
            fo, fe = os.path.join(tmp, "%d.out" % k), os.path.join(tmp, "%d.err" % k)
            sys.stdout.flush()
            sys.stderr.flush()
            pid = os.fork()
            if pid == 0:
                for path, fd in ((fo, 1), (fe, 2)):
                    f = os.open(path, os.O_WRONLY | os.O_CREAT | os.O_TRUNC, 0o600)
                    os.dup2(f, fd)
                    os.close(f)
                return run_case(spec)        # back to the top level of the script: a normal interpreter exit
            _, status = os.waitpid(pid, 0)
            recs = {}
            with open(fo) as f:
                for line in f:
                    if line.startswith("REC "):
                        _, role, js = line.rstrip("\n").split(" ", 2)
                        recs[role] = json.loads(js)
            with open(fe, errors="replace") as f:
                err = f.read()
            sys.stdout.write("C36END %d %s\n" % (k, json.dumps(
                {"returncode": os.waitstatus_to_exitcode(status), "stderr": err[-3000:], "records": recs})))
            sys.stdout.flush()
    finally:
        if os.getpid() == me:
            shutil.rmtree(tmp, ignore_errors=True)
    return 0


if __name__ == "__main__":
    sys.exit(main())
