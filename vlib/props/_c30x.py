"""C30 -- families added after the audit round (pure generators, no cffi import).

Every function returns a list of cases `(family, api, text)` or
`(family, api, text, plan)`; `plan` is None or a dict
    {"pre": [[text, opts], ...], "opts": {...}}
(cdef() calls made on the same FFI before the measured call, and the keyword
options of the measured call).  All families are finite products that are
executed completely; nothing is sampled.

Families (names as they appear in the evidence):
  agg_gap, agg_frame      a construct that pycparser returns as a node that is not a
                          declaration (#pragma, _Pragma, _Static_assert) at every
                          token gap of the corpus and inside every aggregate frame
  magnitude_lit/_expr/_chain
                          literals in every base around every bound of the constant
                          folder (63/64 bits, 1024 bits, 4300 digits), every binary
                          operator over operands around those bounds, products and
                          sums that grow past them
  expr_ops                every unary / binary / ternary operator of C over every
                          literal spelling, as array length, enumerator value and
                          bit-field width
  spec_seq                sequences of specifier / qualifier / common-type keywords
  xtok_insert/_subst      the new tokens at every slot of the corpus
  nonascii                characters outside printable ASCII
  state_*                 cdef() on an FFI that is not fresh (after the same
                          declarations, after a failed cdef(), with override / packed)
"""
import itertools

# ---------------------------------------------------------------------------
# tokens outside c30.TOKENS

NODE_TOKENS = ["\n#pragma p\n", '_Pragma("p")', '_Static_assert(1,"m");']

SPEC_TOKENS = ["union", "short", "signed", "float", "volatile", "restrict", "_Bool", "bool", "FILE", "wchar_t",
               "size_t", "static", "inline", "register", "auto", "__restrict", "__int128", "_Atomic", "_Noreturn",
               "_Thread_local", "_Alignas(4)", "__cdecl", "WINAPI", "TCHAR", "__extension__", "__attribute__((x))",
               "__declspec(x)", "typeof(int)", 'asm("x")']

OP_TOKENS = ["+", ">>", "&", "|", "^", "~", "!", "sizeof", "?", "<", "==", "&&", "(int)", "_Alignof(int)", "offsetof"]

LIT_TOKENS = ["'\\n'", "'\\x41'", "'ab'", "L'a'", "''", "5UL", "5ull", "5LU", "0B11", "0X1F", "1.5", "5f", "5e", ".5",
              'L"s"', "0x1p3"]

INTERNAL_TOKENS = ["__cffi_extern_python_start", "__cffi_extern_python_stop", "__cffi_extern_python_plus_c_start",
                   "__dotdotdotarray__", "__dotdotdotint__", "__dotdotdotfloat__", "__dotdotdot3__", "$", "$x",
                   "#pragma", "#line 3", "#if 1", "#include <x.h>"]

NONASCII_TOKENS = ["\x00", "\r", "\x0c", "\xe9", "\ud800", "@", "`", "\x7f",          # quick (the audit's 8, '$' is above)
                   "\x0b", "\u2028", "\xa0", "\ufeff", "\U0001f600"]
NONASCII_QUICK = NONASCII_TOKENS[:8]

XTOKENS = NODE_TOKENS + SPEC_TOKENS + OP_TOKENS + LIT_TOKENS + INTERNAL_TOKENS + NONASCII_TOKENS
assert len(XTOKENS) == len(set(XTOKENS))

# inserted at every token gap of the corpus in the quick tier (thorough: all XTOKENS, also substituted)
XTOKENS_QUICK = NODE_TOKENS + ["signed", "sizeof", "__dotdotdotarray__"]


# ---------------------------------------------------------------------------
# gap 1: non-declaration nodes inside aggregates

AGG_FRAMES = [
    ("cdef", "struct fs { %s };", "struct"), ("cdef", "union fu { %s };", "union"),
    ("cdef", "enum fe { %s };", "enum"), ("cdef", "int ff( %s );", "args"), ("cdef", "%s", "bare"),
    ("cdef", "struct fs { int z; struct { %s } in; };", "nested"),
    ("typeof", "struct { %s }", "t_struct"), ("typeof", "union { %s } *", "t_union"),
    ("typeof", "enum { %s }", "t_enum"), ("typeof", "void( %s )", "t_args"),
]
AGG_OTHER_QUICK = ["int a;", "int", "a", ";", ",", "A", "=", "1", "}"]
AGG_OTHER = AGG_OTHER_QUICK + ["{", "..."]


def seqs_with(new, old, maxlen):
    """Every sequence of 1..maxlen tokens over new+old that contains at least one token of new."""
    alpha = list(new) + list(old)
    newset = set(new)
    for L in range(1, maxlen + 1):
        for seq in itertools.product(alpha, repeat=L):
            for t in seq:
                if t in newset:
                    yield seq
                    break


def agg_frame(quick):
    out = []
    other, maxlen = (AGG_OTHER_QUICK, 3) if quick else (AGG_OTHER, 4)
    for api, tmpl, nm in AGG_FRAMES:
        if quick and nm in ("union", "nested", "t_union"):
            continue
        for seq in seqs_with(NODE_TOKENS, other, maxlen):
            out.append(("agg_frame_" + nm, api, tmpl % " ".join(seq)))
    return out


def corpus_gaps(corpus, tokenize):
    """(name, text, offset) for every token gap (before each token, and the end)."""
    for name, text in corpus:
        toks, _ = tokenize(text)
        for t in toks:
            yield name, text, t
        yield name, text, None


def xtok_mutants(corpus, tokenize, quick, have):
    """The new tokens at every slot of the corpus: inserted at every gap (quick: NODE tokens and a
    few others), thorough also substituted for every token.  `have` = texts already produced."""
    out = []
    seen = set(have)

    def add(fam, text):
        if text not in seen:
            seen.add(text)
            out.append((fam, "cdef", text))
    for name, text, t in corpus_gaps(corpus, tokenize):
        for a in (XTOKENS_QUICK if quick else XTOKENS):
            fam = "agg_gap" if a in NODE_TOKENS else "xtok_insert"
            if t is None:
                add(fam, text + " " + a + " ")
            else:
                add(fam, text[:t.start] + " " + a + " " + text[t.start:])
                if not quick:
                    add("agg_gap_subst" if a in NODE_TOKENS else "xtok_subst",
                        text[:t.start] + " " + a + " " + text[t.end:])
    return out


# ---------------------------------------------------------------------------
# gap 2: magnitude of constant-expression values

# (api, template, name, in the quick tier: True = literals, expressions and chains, "lit" = literals only)
CONST_CONTEXTS = [
    ("cdef", "int fa[%s];", "array", True),
    ("cdef", "enum fe { A = %s };", "enum", True),
    ("typeof", "int[%s]", "t_array", True),
    ("cdef", "struct fs { int a : %s; };", "bitfield", False),
    ("cdef", "struct fs { int z; char a[%s]; };", "field", False),
    ("cdef", "void ff(int a[%s]);", "arg", False),
    ("cdef", "typedef int ta_t[%s];", "typedef", False),
    ("typeof", "enum { A = %s }", "t_enum", False),
    ("typeof", "struct { int a : %s; }", "t_bitfield", "lit"),
]
LIT_CONTEXTS = CONST_CONTEXTS + [("cdef", "#define FX %s\n", "define", True),
                                 ("cdef", "static const int FC = %s;", "static_const", True)]

MAG_VALUES = [0, 1, 5, 63, 64, 1023, 1024, 1025, 2 ** 31 - 1, 2 ** 31, 2 ** 32, 2 ** 63 - 1, 2 ** 63, 2 ** 64 - 1,
              2 ** 64, 2 ** 70, 10 ** 20 - 1, 2 ** 1023, 2 ** 1024 - 1, 2 ** 1024, 2 ** 1025, 2 ** 4096]


def _hexdigits(v):
    return "%x" % v          # ('%x' has no digit limit: power-of-two base)


def mag_literals():
    """Spellings of the boundary values in the four bases, with suffixes, and digit runs around
    1024 bits and around the 4300-digit limit of int()/str() in each base."""
    lits = []
    for v in MAG_VALUES:
        if v < 10 ** 400:
            lits.append("%d" % v)
        lits.append("0x" + _hexdigits(v))
        lits.append("0" + "%o" % v)
        lits.append("0b" + bin(v)[2:])
    for v in (5, 2 ** 63, 2 ** 64):
        for suf in ("U", "u", "L", "UL", "ul", "LL", "ULL", "LLU", "uLL"):
            lits.append("%d%s" % (v, suf))
            lits.append("0x%x%s" % (v, suf))
    for n in (255, 256, 257, 1074, 1075, 4000, 4300, 4301, 6000):
        lits.append("0x" + "f" * n)
        lits.append("0X" + "F" * n)
    for n in (341, 342, 343, 4300, 4301, 5000):
        lits.append("0" + "7" * n)
    for n in (1023, 1024, 1025, 1026, 4300, 4301):
        lits.append("0b" + "1" * n)
        lits.append("0B" + "1" * n)
    for n in (308, 309, 310, 4299, 4300, 4301, 6000):
        lits.append("9" * n)
        lits.append("1" + "0" * (n - 1))
    seen = set()
    return [x for x in lits if not (x in seen or seen.add(x))]


MAG_OPERANDS_QUICK = ["0", "1", "5", "64", "1023", "1024", "1025", "20000", "9223372036854775808",
                      "99999999999999999999", "(1<<1023)", "-1", "-(1<<1023)"]
MAG_OPERANDS = MAG_OPERANDS_QUICK + ["63", "2147483648", "18446744073709551615", "18446744073709551616", "(1<<1024)",
                                     "(1<<512)", "-(1<<512)", "K", "0x" + "f" * 256, "0x" + "f" * 257]
MAG_OPS = ["<<", ">>", "*", "+", "-", "/", "%", "&", "|", "^"]


def magnitude(quick):
    out = []
    for api, tmpl, nm, inq in LIT_CONTEXTS:
        if quick and not inq:
            continue
        for lit in mag_literals():
            out.append(("magnitude_lit_" + nm, api, tmpl % lit))
            if inq is True:
                out.append(("magnitude_lit_" + nm, api, tmpl % ("-" + lit)))
    operands = MAG_OPERANDS_QUICK if quick else MAG_OPERANDS
    for api, tmpl, nm, inq in CONST_CONTEXTS:
        if quick and inq is not True:
            continue
        for a in operands:
            for op in MAG_OPS:
                for b in operands:
                    out.append(("magnitude_expr_" + nm, api, tmpl % ("%s %s %s" % (a, op, b))))
        # nested shift counts and results shifted back
        for a in ("1", "5", "0", "-1"):
            for n in ("5", "10", "11", "62", "63", "64", "70", "1023"):
                out.append(("magnitude_expr_" + nm, api, tmpl % ("%s << (1 << %s)" % (a, n))))
                out.append(("magnitude_expr_" + nm, api, tmpl % ("%s >> (1 << %s)" % (a, n))))
                out.append(("magnitude_expr_" + nm, api, tmpl % ("(%s << %s) >> %s" % (a, n, n))))
    # chains that grow past the bound: 2**32 * ... (31 / 32 factors straddle 1024 bits), 10**9 * ...
    # (34 / 35), sums of 2**1023, shifts by 1 repeated
    for api, tmpl, nm, inq in CONST_CONTEXTS:
        if quick and inq is not True:
            continue
        for n in (30, 31, 32, 33, 34, 35, 36, 100, 500):
            out.append(("magnitude_chain_" + nm, api, tmpl % ("4294967296 * " * n + "1")))
            out.append(("magnitude_chain_" + nm, api, tmpl % ("1000000000 * " * n + "1")))
            out.append(("magnitude_chain_" + nm, api, tmpl % ("-4294967296 * " * n + "1")))
            out.append(("magnitude_chain_" + nm, api, tmpl % ("(1<<1023) + " * n + "0")))
            out.append(("magnitude_chain_" + nm, api, tmpl % ("0 - (1<<1023)" + " - (1<<1023)" * n)))
            out.append(("magnitude_chain_" + nm, api, tmpl % ("1" + " << 64" * n)))
            out.append(("magnitude_chain_" + nm, api, tmpl % ("(" * n + "1" + " << 64)" * n)))
    return out


# ---------------------------------------------------------------------------
# gap 6a: operators and literal spellings of constant expressions

EXPR_OPERANDS_QUICK = ["5", "0", "K", "x", "'\\n'", "'\\x41'", "'ab'", "L'a'", "5UL", "1.5"]
EXPR_OPERANDS = EXPR_OPERANDS_QUICK + ["'a'", "0B11", '"s"', "-5", "~5", "!5", "(5)", "sizeof(int)", "(int)5", "''", "0x", "08", "5f", "E1",
                                       "__dotdotdotarray__", "...", "'\\0'", "'\\''", "'\\\\'", "'\\777'", "'\\u00e9'"]
BINOPS = ["+", "-", "*", "/", "%", "<<", ">>", "&", "|", "^", "<", ">", "<=", ">=", "==", "!=", "&&", "||", ","]
UNOPS = ["+", "-", "~", "!", "sizeof", "&", "*", "++", "--", "(int)", "_Alignof", "- -", "+ +", "- +"]
EXPR_CONTEXTS = [c for c in CONST_CONTEXTS if c[2] in ("array", "enum", "t_array", "bitfield", "t_enum")]


def expr_ops(quick):
    out = []
    operands = EXPR_OPERANDS_QUICK if quick else EXPR_OPERANDS
    for api, tmpl, nm, inq in EXPR_CONTEXTS:
        if quick and inq is not True:
            continue
        fam = "expr_ops_" + nm
        for a in operands:
            for u in UNOPS:
                out.append((fam, api, tmpl % ("%s %s" % (u, a))))
                out.append((fam, api, tmpl % ("%s ( %s )" % (u, a))))
            for op in BINOPS:
                for b in operands:
                    out.append((fam, api, tmpl % ("%s %s %s" % (a, op, b))))
        small = operands[:6] if quick else operands[:13]
        for a in small:
            for b in small:
                for c in small:
                    out.append((fam, api, tmpl % ("%s ? %s : %s" % (a, b, c))))
    seen = set()
    return [x for x in out if not (x[2] in seen or seen.add(x[2]))]


# ---------------------------------------------------------------------------
# gap 6b: specifier / qualifier / common-type keywords

SPEC_NEW_QUICK = ["union", "short", "signed", "float", "volatile", "restrict", "_Bool", "bool", "FILE", "wchar_t"]
SPEC_NEW = SPEC_NEW_QUICK + ["size_t", "static", "inline", "__int128", "_Atomic", "TCHAR"]
SPEC_OLD = ["int", "char", "long", "unsigned", "double", "*", "const", "x"]
SPEC_OLD_FIELD = SPEC_OLD + ["_Complex", "T", "struct", "void"]


def spec_seq(quick):
    out = []
    if quick:
        for seq in seqs_with(SPEC_NEW_QUICK, SPEC_OLD, 3):
            out.append(("spec_seq_typeof", "typeof", " ".join(seq)))
    else:
        for seq in seqs_with(SPEC_NEW, SPEC_OLD, 4):
            out.append(("spec_seq_typeof", "typeof", " ".join(seq)))
        for seq in seqs_with(SPEC_NEW, SPEC_OLD_FIELD, 3):
            out.append(("spec_seq_field", "cdef", "struct fs { %s a; };" % " ".join(seq)))
            out.append(("spec_seq_func", "cdef", "%s ff(int);" % " ".join(seq)))
    return out


# ---------------------------------------------------------------------------
# gap 7: characters outside printable ASCII

NONASCII_FRAMES_QUICK = [("typeof", "%s", "typeof"), ("cdef", "%s", "bare"), ("cdef", "#define FX %s\n", "define")]
NONASCII_FRAMES = NONASCII_FRAMES_QUICK + [("cdef", "struct fs { %s };", "struct"),
                                           ("cdef", "enum fe { %s };", "enum"), ("cdef", "int fa[ %s ];", "array"),
                                           ("typeof", "int [ %s ]", "t_array"), ("typeof", "void ( %s )", "t_args"),
                                           ("cdef", "int before(void); %s", "tail")]


def nonascii(quick, tokens):
    out = []
    new = NONASCII_QUICK if quick else NONASCII_TOKENS
    for api, tmpl, nm in (NONASCII_FRAMES_QUICK if quick else NONASCII_FRAMES):
        for seq in seqs_with(new, tokens, 2):
            out.append(("nonascii_" + nm, api, tmpl % " ".join(seq)))
            if len(seq) == 2:
                out.append(("nonascii_" + nm, api, tmpl % "".join(seq)))      # glued: inside an identifier / number
    if not quick:
        for seq in seqs_with(new, tokens, 3):
            if len(seq) == 3:
                out.append(("nonascii_typeof", "typeof", " ".join(seq)))
    seen = set()
    return [x for x in out if not ((x[1], x[2]) in seen or seen.add((x[1], x[2])))]


# ---------------------------------------------------------------------------
# gap 8: cdef() options and accumulated state

STATE_SUBST_QUICK = []


def state_cases(corpus, tokenize, tokens, quick):
    """For every corpus entry e and mutant m of e (quick: every deletion; thorough: every
    deletion / substitution):
       after_same      cdef(e); cdef(m)                   (redeclaration of everything in e)
       after_override  cdef(e); cdef(m, override=True)
       after_failed    cdef(m) [may raise]; cdef(e)       (declarations made before the error stay)
       twice           cdef(m) [may raise]; cdef(m)
       packed          cdef(m, packed=True)   /  pack2: cdef(m, pack=2)       (quick: m = e only)
    and for the unmutated entries the same plans with m = e, plus the remaining option values."""
    out = []
    seen = set()

    def add(fam, text, plan):
        key = (fam, text, repr(plan))
        if key not in seen:
            seen.add(key)
            out.append((fam, "cdef", text, plan))

    def plans(e, m):
        add("state_after_same", m, {"pre": [[e, {}]], "opts": {}})
        add("state_after_override", m, {"pre": [[e, {}]], "opts": {"override": True}})
        add("state_after_failed", e, {"pre": [[m, {}]], "opts": {}})
        add("state_twice", m, {"pre": [[m, {}]], "opts": {}})
        if not quick or m is e:
            add("state_packed", m, {"pre": [], "opts": {"packed": True}})
        if not quick:
            add("state_pack2", m, {"pre": [], "opts": {"pack": 2}})
            add("state_twice_override", m, {"pre": [[m, {}]], "opts": {"override": True}})

    for name, text in corpus:
        plans(text, text)
        # (only option values that the documented validation of cdef() accepts: a 'pack' that is
        # not a power of two, or 'pack' together with 'packed', is a ValueError by design)
        for opts in ({"pack": 0}, {"pack": 1}, {"pack": 4}, {"pack": 16}, {"pack": 2 ** 70}, {"pack": None},
                     {"packed": False, "pack": 8}, {"override": 1, "packed": True}):
            add("state_options", text, {"pre": [], "opts": opts})
        toks, _ = tokenize(text)
        for t in toks:
            plans(text, text[:t.start] + " " + text[t.end:])
            for a in (STATE_SUBST_QUICK if quick else tokens):
                if a != t.text:
                    plans(text, text[:t.start] + " " + a + " " + text[t.end:])
    return out


# ---------------------------------------------------------------------------
# C side, gap 3b: explicit strings around the hand-written name tables of parse_c_type.c

C_KEYWORDS = ["int", "char", "long", "short", "unsigned", "signed", "double", "float", "_Complex", "_Bool", "void",
              "const", "volatile", "struct", "union", "enum", "__stdcall", "__cdecl"]
_EDIT_ALPHA = "abcdefghijklmnopqrstuvwxyz0123456789_"


def name_edits(names, keywords=C_KEYWORDS):
    """For every name N: N, N minus its last / first character, N+'x', N+'_t', every proper prefix +
    '_t', every single-character deletion, substitution (37 characters) and insertion ('_', 't',
    '1'); each also followed by '*' and '[3]' and preceded by 'const ' (so that the name is the
    end of the exactly-sized block in some strings and is followed by another token in others).
    Returns [(string, is_plain_edit)]."""
    base = []
    for N in list(names) + list(keywords):
        base += [N, N[:-1], N[1:], N + "x", N + "_t", N + "_", N + "t", "u" + N, "_" + N]
        for k in range(1, len(N)):
            base.append(N[:k] + "_t")
            base.append(N[:k] + N[k + 1:])
            for c in ("_", "t", "1"):
                base.append(N[:k] + c + N[k:])
        for k in range(len(N)):
            for c in _EDIT_ALPHA:
                if c != N[k]:
                    base.append(N[:k] + c + N[k + 1:])
    out = []
    seen = set()
    for s in base:
        for k, v in enumerate((s, s + "*", "const " + s, s + "[3]")):
            if v and v not in seen and len(v) < 100:
                seen.add(v)
                out.append((v, k == 0))
    return out
