"""C28 -- embedded start-up initialises once and never deadlocks (engine E4).

The UNCHANGED text of src/cffi/_embedding.h is compiled twice (two "libraries")
against a stub CPython and scheduler-visible CAS / mutex / assert primitives
(harness/c28/*).  A C explorer runs every schedule of 2-3 threads making first
calls within a preemption bound (one forked child per execution, fair treatment
of spin loops) and prints each distinct event log; the monitor below judges the
logs against the five clauses of the statement.

Dimensions of a scenario: libraries x init kinds x thread programs x INITIAL
WORLD ("" Python not initialised; P already initialised, GIL free; H<k> = P and
thread k makes its calls while owning the GIL) x COMPILE VARIANT of the lock
code (py312 / py311 `int` lock on tp_version_tag / msvc arms against a fake
<Windows.h>).  The statement has no precondition on who owns the GIL ("any
interleaving of threads making first calls"), so the H worlds are judged by the
same monitor; _cffi_carefully_make_gil's comment "It assumes that we don't hold
the GIL before" is a restriction the statement does not carry.
"""
import os
import subprocess

from .. import build, pool
from ..build import InfraError

ID = "C28"
LEVEL = "model_checking"
META = dict(
    engine="E4-sched-C", level="model_checking",
    technique="stateless model checking of the unchanged _embedding.h C text under a controlled scheduler: all "
              "schedules up to a preemption bound (fair spin-loop yields), 2-3 threads x 1-2 libraries x init "
              "scenarios (ok / failing / failing before the init code / recursive / cross-library / GIL released; "
              "4-byte and 24-byte results) x initial world (Python not yet / "
              "already initialised / a first caller that owns the GIL) x 3 compile variants of the lock code, judged "
              "by a monitor of the statement",
    text="Every scheduling decision is at a CAS, barrier, mutex operation, assert (the spin loop's only statement), "
         "GIL operation or stub-Python call; between them the code is sequential.  All schedules with <= 2 preemptions "
         "(quick: 1-2) of the listed scenarios are executed, each in a fresh process; a thread that spins is not "
         "rescheduled until another thread moved, and 'only spinners can move' is reported as livelock.  Initial "
         "worlds: fresh process (the first caller runs Py_InitializeEx), P = Python already initialised with the GIL "
         "free (Py_InitializeEx must then not run at all), H = P with one or more callers that own the GIL during "
         "their calls (class_histogram world_*).  The #if arms for Python < 3.12 (int spin lock on tp_version_tag) "
         "and for _MSC_VER (InterlockedCompareExchangePointer, CRITICAL_SECTION; fake <Windows.h>) are compiled and "
         "explored as separate worlds (variant_*).  A deadlock is reported with its wait-for graph, classified in "
         "the signature (startup-lock-cycle / gil-holder-waits-for-startup-lock).  Init kinds M (module init raises: "
         "PyErr_Occurred after _CFFI_PYTHON_STARTUP_FUNC, exports table never filled) and C (Py_CompileString NULL) "
         "fail before any init code runs (failure_before_init_code); ops g/h call a function with a 24-byte result "
         "whose buffer is pre-filled with 0x55 and must be all zero after a failed init (result_24_bytes).  Conformance runs of a REAL "
         "embedded library: C host (Python not initialised), Python host with ctypes.CDLL callers (world P), and a "
         "deterministic handshake run in which a ctypes.PyDLL caller (GIL held) makes its first call while the init "
         "code runs (world H) next to its CDLL control (real_host_*).",
    note="trusted base: the stub CPython in harness/c28 (GIL as a mutex, Py_InitializeEx leaves the caller holding it, "
         "PyEval_EvalCode runs a scripted init code, C calls from Python release the GIL); interleavings are "
         "sequentially consistent -- x86-TSO store buffering and the write/read barrier pairing are outside the model")

HDIR = os.path.join(build.HARNESS, "c28")

# compile-time variants of the lock code of _embedding.h (audit gap 2).  Both libraries of one world are
# compiled with the same variant (they share one stub libpython, hence one PY_VERSION_HEX).
VARIANTS = {
    # Python >= 3.12, gcc builtins, pthread mutex: pointer-sized spin lock on PyCapsule_Type.tp_as_buffer
    "py312": [],
    # Python 3.8-3.11: `int` spin lock (-42) on PyCapsule_Type.tp_version_tag + assert on tp_flags
    "py311": ["-DFAKE_PY_VERSION_HEX=0x030B0000"],
    # the `#ifdef _MSC_VER` arms: InterlockedCompareExchangePointer(l,n,o) == (o), CRITICAL_SECTION,
    # Get/SetLastError, against harness/c28/fakewin/Windows.h (CFFI_MESSAGEBOX is a documented user switch)
    "msvc": ["-D_MSC_VER=1900", "-DCFFI_MESSAGEBOX=0", "-I", os.path.join(HDIR, "fakewin")],
}


def build_world(variant="py312"):
    out = os.path.join(build.scratch(), "c28-" + variant)
    os.makedirs(out, exist_ok=True)
    emb = os.path.join(build.REPO, "src", "cffi", "_embedding.h")
    inc = ["-I", os.path.join(HDIR, "fakepy"), "-I", HDIR, "-I", os.path.join(build.REPO, "src", "cffi")]
    objs = []
    for lib in (0, 1):
        o = os.path.join(out, "lib%d.o" % lib)
        cmd = ["gcc", "-O1", "-g", "-pthread", "-w"] + inc + VARIANTS[variant] + [
            "-DLIBID=%d" % lib, '-DEMBEDDING_H="%s"' % emb, "-c", os.path.join(HDIR, "lib.c"), "-o", o]
        p = subprocess.run(cmd, stdout=subprocess.PIPE, stderr=subprocess.STDOUT, text=True)
        if p.returncode != 0:
            # the header under test no longer compiles against the stub world: that is a harness limit
            raise InfraError("cannot compile _embedding.h in the stub world:\n" + p.stdout[-3000:])
        objs.append(o)
    o = os.path.join(out, "world.o")
    p = subprocess.run(["gcc", "-O1", "-g", "-pthread", "-w"] + inc + ["-c", os.path.join(HDIR, "world.c"), "-o", o],
                       stdout=subprocess.PIPE, stderr=subprocess.STDOUT, text=True)
    if p.returncode != 0:
        raise InfraError("world.c: " + p.stdout[-3000:])
    exe = os.path.join(out, "world")
    p = subprocess.run(["gcc", "-pthread"] + objs + [o, "-o", exe], stdout=subprocess.PIPE,
                       stderr=subprocess.STDOUT, text=True)
    if p.returncode != 0:
        raise InfraError("link: " + p.stdout[-3000:])
    return exe


def scenarios(ctx):
    """(nlibs, init kinds, bound, programs, world, variant)

    world: "" = Python not initialised, nobody owns the GIL (the first caller initialises Python);
           "P" = Python already initialised, GIL free; "H<k..>" = P and the listed threads make their calls
           while owning the GIL.  variant: key of VARIANTS."""
    scs = [tuple(sc) + ("", "py312")[len(sc) - 4:] for sc in _scenarios(ctx)]
    # one scenario = one sequential depth-first search in one pool worker: start the long ones first
    # (3 threads, then the higher preemption bounds); the order has no influence on what is explored
    return sorted(scs, key=lambda sc: (-len(sc[3]), -sc[2], -sc[0]))


def _scenarios(ctx):
    out = []
    one = ["O", "F", "R", "G", "S"]
    if ctx.quick:
        for k in one:
            out.append((1, k + "O", 2 if k in "OF" else 1, ("0", "0")))
            out.append((1, k + "O", 1, ("s0", "0")))
        out.append((1, "OO", 1, ("00", "0")))
        out.append((1, "OO", 1, ("0", "0", "0")))
        out.append((1, "FO", 1, ("0", "0", "0")))
        for kinds in ("OO", "FO", "XO", "XX", "RX", "GF"):
            out.append((2, kinds, 1, ("0", "1")))
        out.append((2, "XF", 1, ("01", "10")))
        out.append((2, "XO", 2, ("0", "1")))
        # --- initial world states (audit gap 1) ---
        for k in one:
            out.append((1, k + "O", 1, ("0", "0"), "P"))
        for kinds in ("OO", "FO"):
            out.append((1, kinds, 1, ("s0", "0"), "P"))
        out.append((1, "OO", 1, ("0", "0", "0"), "P"))
        for kinds in ("OO", "FO", "XO"):
            out.append((2, kinds, 1, ("0", "1"), "P"))
        for kinds, progs, world in (("OO", ("0", "0"), "H0"), ("OO", ("0", "0"), "H1"), ("OO", ("0", "0"), "H01"),
                                    ("FO", ("0", "0"), "H0"), ("RO", ("0", "0"), "H0"), ("GO", ("0", "0"), "H1"),
                                    ("OO", ("0", "s"), "H0"), ("FO", ("0", "0", "0"), "H0")):
            out.append((1, kinds, 1, progs, world))
        for kinds in ("OO", "XO", "OX"):
            out.append((2, kinds, 1, ("0", "1"), "H0"))
        # --- failures before the init code runs (audit gap 3, kinds M and C) ---
        for k in ("M", "C"):
            out.append((1, k + "O", 1, ("0", "0")))
            out.append((1, k + "O", 1, ("s0", "0")))
        out.append((2, "MO", 1, ("0", "1")))
        out.append((2, "XM", 1, ("0", "1")))
        out.append((1, "MO", 1, ("0", "0"), "P"))
        # --- a 24-byte result (audit gap 5): ops g / h ---
        for kinds, progs in (("FO", ("g", "g")), ("FO", ("0g", "g")), ("SO", ("g", "0")), ("MO", ("g", "0")),
                             ("OO", ("g", "g")), ("RO", ("g", "0"))):
            out.append((1, kinds, 1, progs))
        out.append((2, "FF", 1, ("g", "h")))
        # --- the other #if arms of the lock code (audit gap 2) ---
        for v in ("py311", "msvc"):
            for kinds in ("OO", "FO", "RO"):
                out.append((1, kinds, 1, ("0", "0"), "", v))
            out.append((1, "OO", 1, ("s0", "0"), "", v))
            out.append((1, "FO", 1, ("0", "0", "0"), "", v))       # (OO with 3 threads: thorough tier)
            out.append((2, "OO", 1, ("0", "1"), "", v))
            out.append((1, "OO", 1, ("0", "0"), "P", v))
    else:
        for k in one:
            out.append((1, k + "O", 3, ("0", "0")))
            for progs in (("00", "0"), ("s0", "0"), ("0s", "s"), ("s", "s")):
                out.append((1, k + "O", 2, progs))
            out.append((1, k + "O", 2 if k in "OF" else 1, ("0", "0", "0")))
            out.append((1, k + "O", 1, ("s", "0", "00")))
        two = ["O", "F", "R", "X", "G"]
        for a in two:
            for b in two:
                out.append((2, a + b, 2, ("0", "1")))
                out.append((2, a + b, 1, ("01", "10")))
                out.append((2, a + b, 1, ("0", "1", "0")))
        # --- initial world states (audit gap 1) ---
        for k in one:
            out.append((1, k + "O", 2, ("0", "0"), "P"))
            for progs in (("00", "0"), ("s0", "0"), ("0s", "s"), ("s", "s"), ("0", "0", "0"), ("s", "0", "00")):
                out.append((1, k + "O", 1, progs, "P"))
            for world in ("H0", "H1", "H01"):
                out.append((1, k + "O", 2, ("0", "0"), world))
            for progs in (("00", "0"), ("0", "00"), ("s0", "0"), ("0", "s"), ("s", "0")):
                out.append((1, k + "O", 1, progs, "H0"))
            for world in ("H0", "H2", "H01"):
                out.append((1, k + "O", 1, ("0", "0", "0"), world))
        for a in two:
            for b in two:
                out.append((2, a + b, 1, ("0", "1"), "P"))
                out.append((2, a + b, 1, ("0", "1"), "H0"))
        # --- failures before the init code runs (audit gap 3, kinds M and C) ---
        for k in ("M", "C"):
            out.append((1, k + "O", 2, ("0", "0")))
            for progs in (("00", "0"), ("s0", "0"), ("0s", "s"), ("0", "0", "0")):
                out.append((1, k + "O", 1, progs))
            out.append((1, k + "O", 1, ("0", "0"), "P"))
            for other in ("O", "F", "X", "M", "C"):
                out.append((2, k + other, 1, ("0", "1")))
                if other not in "MC":
                    out.append((2, other + k, 1, ("0", "1")))
        # --- a 24-byte result (audit gap 5): ops g / h ---
        for k in ("O", "F", "R", "S", "M", "C"):
            out.append((1, k + "O", 2, ("g", "g")))
            for progs in (("0g", "g"), ("g", "0"), ("g0", "0"), ("sg", "g"), ("g", "g", "0")):
                out.append((1, k + "O", 1, progs))
        for kinds in ("FF", "OF", "FO", "XF", "MF"):
            out.append((2, kinds, 1, ("g", "h")))
            out.append((2, kinds, 1, ("gh", "hg")))
        # --- the other #if arms of the lock code (audit gap 2) ---
        for v in ("py311", "msvc"):
            for k in one:
                out.append((1, k + "O", 2, ("0", "0"), "", v))
                out.append((1, k + "O", 1, ("s0", "0"), "", v))
                out.append((1, k + "O", 1, ("0", "0", "0"), "", v))
                out.append((1, k + "O", 1, ("0", "0"), "P", v))
            out.append((1, "OO", 1, ("0", "0"), "H0", v))
            for kinds in ("OO", "FO", "OF", "XO", "XX", "RX", "GF"):
                out.append((2, kinds, 1, ("0", "1"), "", v))
            out.append((2, "OO", 1, ("01", "10"), "", v))
    return out


def init_arg(sc):
    return sc[1] + (":" + sc[4] if sc[4] else "")


def monitor(log):
    """Judge one event log.  Returns (list of violated clauses, info flags)."""
    evs = [e.split(" ") for e in log.strip().strip(";").split(";") if e]
    bad = []
    info = []
    pyinit = 0
    deadlock = None
    initstart = {}
    initend = {}
    calls = {}
    for e in evs:
        k = e[0]
        if k == "PREINIT":
            pyinit = 1           # world P / H: the process's Python is already initialised
        elif k == "PYINIT":
            pyinit += 1
            if pyinit > 1:
                bad.append("python-initialised-twice")
        elif k == "INITSTART":
            lib = e[1]
            if lib in initstart:
                bad.append("init-code-ran-twice")
            initstart[lib] = e[2]
        elif k == "INITEND":
            initend[e[1]] = e[3]
        elif k == "EXTERN":
            lib, tid = e[1], e[2]
            if lib not in initend:
                if initstart.get(lib) != tid:
                    bad.append("extern-python-ran-before-init-finished")
            elif initend[lib] == "fail":
                bad.append("extern-python-ran-after-failed-init")
        elif k == "CALL":
            calls[(e[1], e[2])] = calls.get((e[1], e[2]), 0) + 1
        elif k == "RET":
            lib, tid, r = e[1], e[2], int(e[3])
            calls[(lib, tid)] = calls.get((lib, tid), 0) - 1
            st = initend.get(lib)
            if st == "fail":
                if r != 0:
                    bad.append("nonzero-result-after-failed-init")
            elif st == "ok":
                if r != 7 + 1000 * (int(lib) + 1):
                    bad.append("wrong-result")
            else:
                bad.append("call-returned-without-initialisation")
        elif k == "RETG":
            # lib_g_<n>: 24-byte struct result; the wrapper reports 0 = 24 zero bytes, 1 = the stub
            # function's 24 bytes, 2 = anything else (partly zeroed / partly the 0x55 pre-fill)
            lib, tid, r = e[1], e[2], int(e[3])
            calls[(lib, tid)] = calls.get((lib, tid), 0) - 1
            st = initend.get(lib)
            if st == "fail":
                if r != 0:
                    bad.append("nonzero-result-after-failed-init")
            elif st == "ok":
                if r != 1:
                    bad.append("wrong-result")
            else:
                bad.append("call-returned-without-initialisation")
        elif k == "STARTRET":
            lib, r = str(e[1]), int(e[3])
            st = initend.get(lib)
            if (st == "ok" and r != 0) or (st == "fail" and r != -1) or st is None:
                bad.append("cffi_start_python-wrong-status")
        elif k in ("DEADLOCK", "LIVELOCK", "HORIZON"):
            bad.append("call-does-not-terminate")
            deadlock = deadlock_shape(e[1:]) if k == "DEADLOCK" else k.lower()
        elif k == "CRASH":
            bad.append("crash")
        elif k == "ASSERTFAIL":
            info.append("assert-failed:" + " ".join(e[2:]))
        elif k in ("GIL-RELEASE-NOT-OWNER", "UNLOCK-NOT-OWNER", "MUTEX-REINIT-WHILE-HELD",
                   "PYINIT-GIL-ALREADY-HELD", "INITCODE-WITHOUT-GIL", "GILSTATE-BEFORE-PYINIT",
                   "GIL-LEAKED", "GIL-LOST-BY-HOLDER"):
            bad.append("python-api-misuse:" + k)
    if not any(b == "call-does-not-terminate" or b == "crash" for b in bad):
        if any(v != 0 for v in calls.values()):
            bad.append("call-does-not-terminate")
    if deadlock:
        info.append("deadlock:" + deadlock)
    return sorted(set(bad)), info


def deadlock_shape(waits):
    """Classify the wait-for graph the explorer prints with a DEADLOCK event
    (`<tid>:m<owner>[+G]` waits for a start-up mutex [while owning the GIL], `<tid>:g<owner>` waits for the GIL)."""
    w = {}
    for item in waits:
        tid, what = item.split(":")
        w[tid] = what
    for tid, what in sorted(w.items()):
        if what.startswith("m") and what.endswith("+G"):
            owner = what[1:-2]
            if w.get(owner, "") == "g" + tid:
                return "gil-holder-waits-for-startup-lock"
    if w and all(x.startswith("m") and not x.endswith("+G") for x in w.values()):
        # every owner is itself waiting: a cycle; otherwise a thread finished / went on without unlocking
        return "startup-lock-cycle" if all(x[1:] in w for x in w.values()) else "startup-lock-never-released"
    if w and all(x.startswith("g") for x in w.values()):
        return "gil-never-released"
    return "other"


_EXE = {}


def work(sc):
    nlibs, kinds, bound, progs, world, variant = sc
    max_exec = 0
    cmd = [_EXE[variant], str(nlibs), init_arg(sc), str(bound), str(max_exec)] + list(progs)
    p = subprocess.run(cmd, stdout=subprocess.PIPE, stderr=subprocess.PIPE, text=True)
    if p.returncode != 0:
        raise InfraError("explorer failed for %r: rc=%s %s %s" % (sc, p.returncode, p.stdout[-500:], p.stderr[-500:]))
    stat = None
    logs = []
    for line in p.stdout.splitlines():
        if line.startswith("LOG "):
            head, log = line.split(" | ", 1)
            _, count, choices = head.split(" ", 2) if head.count(" ") >= 2 else (head.split(" ") + [""])
            logs.append((int(count), choices, log))
        elif line.startswith("STAT "):
            stat = dict(kv.split("=") for kv in line.split()[1:])
        elif line.startswith("INFRA") or line.startswith("CAPPED"):
            raise InfraError("explorer: %s for %r" % (line, sc))
    if stat is None:
        raise InfraError("no STAT line for %r" % (sc,))
    viol = []
    infos = set()
    for count, choices, log in logs:
        bad, info = monitor(log)
        shape = [i.split(":", 1)[1] for i in info if i.startswith("deadlock:")]
        infos.update(i for i in info if not i.startswith("deadlock:"))
        if bad:
            viol.append({"scenario": list(sc), "choices": choices, "bad": bad, "log": log, "schedules": count,
                         "deadlock": shape[0] if shape else None})
    return {"stat": {k: int(v) for k, v in stat.items()}, "viol": viol, "info": sorted(infos),
            "sample": {"scenario": list(sc), "choices": logs[0][1], "log": logs[0][2]} if logs else None}


def _judge_real(kind, n, returncode, stdout, logpath):
    try:
        logtext = open(logpath).read()
    except OSError:
        logtext = None
    results = [int(l.split()[1]) for l in stdout.splitlines() if l.startswith("result ")]
    again = [int(l.split()[1]) for l in stdout.splitlines() if l.startswith("again ")]
    want = 0 if kind == "fail" else 8
    problems = []
    if returncode == -14:
        problems.append("did not terminate (killed by its own watchdog alarm)")
    elif returncode != 0:
        problems.append("exit status %s" % returncode)
    if logtext is None or logtext.count("init-start") != 1:
        problems.append("init code ran %d times" % (logtext.count("init-start") if logtext else 0))
    if results != [want] * n:
        problems.append("results %r, expected %r" % (results, [want] * n))
    if again != [0 if kind == "fail" else 2]:
        problems.append("later call returned %r" % (again,))
    if kind == "recursive" and "recursive-result 4" not in (logtext or ""):
        problems.append("recursive call from the init code did not return 4")
    return problems


# seconds until a python-hosted handshake run kills itself (a normal one takes < 1 s).  The `held` runs are started
# before and collected after the ~32 other runs, so a hanging one costs little wall time.
HELD_WATCHDOG = {"held": 12, "ctrl": 60}


def real_library_runs(ctx, only=None):
    """Conformance of the stub world: a REAL embedded library (built by cffi from the working tree,
    real CPython, real threads) must show behaviour the stub-world exploration also produced at the
    granularity init-start / init-end / results.  Three hosts:
      c       main program in C, Python not initialised, pthreads released by a barrier (world "")
      python  the library loaded with ctypes.CDLL into a running /venv/bin/python, callers are Python threads
              released by a barrier, the GIL is free during the calls (world P)
      held    python host; by a handshake with the init code, a second thread makes its first call through
              ctypes.PyDLL -- owning the GIL -- while the init code runs (world H), and `ctrl`, the same
              handshake with a CDLL caller.  Deterministic (no sleeps; switch interval 1000 s).
    Returns (runs, mismatches, runs per host)."""
    import sysconfig
    d = os.path.join(build.scratch(), "c28real")
    os.makedirs(d, exist_ok=True)
    env = dict(os.environ)
    p = subprocess.run([build.PY, os.path.join(build.HARNESS, "c28_real", "build_lib.py"), d], env=env,
                       stdout=subprocess.PIPE, stderr=subprocess.STDOUT, text=True)
    if p.returncode != 0:
        raise InfraError("cannot build the real embedded library:\n" + p.stdout[-2000:])
    libdir = sysconfig.get_config_var("LIBDIR")
    exe = os.path.join(d, "main")
    p = subprocess.run(["gcc", "-pthread", os.path.join(build.HARNESS, "c28_real", "main.c"), "-o", exe, "-L", d,
                        "-lc28real", "-Wl,-rpath," + d, "-Wl,-rpath," + libdir],
                       stdout=subprocess.PIPE, stderr=subprocess.STDOUT, text=True)
    if p.returncode != 0:
        raise InfraError("cannot link the real embedding main:\n" + p.stdout[-2000:])
    so = os.path.join(d, "libc28real.so")
    host = os.path.join(build.HARNESS, "c28_real", "host.py")
    runs = 0
    per_host = {"c": 0, "python": 0, "held": 0, "ctrl": 0}
    bad = []

    def envfor(kind, log):
        return dict(env, C28_KIND=kind, C28_LOG=log, PYTHONPATH=env.get("PYTHONPATH", "") + os.pathsep + d)

    # world H (and its control): started now, collected at the end -- the hanging one costs no wall time
    held_jobs = []
    for mode in ("held", "ctrl"):
        for rep in range(1 if ctx.quick else 3):
            log = os.path.join(d, "log-%s-%d.txt" % (mode, rep))
            held_jobs.append((mode, log, subprocess.Popen(
                [build.PY, host, so, mode, "-", str(HELD_WATCHDOG[mode])], env=envfor("handshake", log),
                stdout=subprocess.PIPE, stderr=subprocess.PIPE, text=True)))

    def collect_held():
        n = 0
        for mode, log, job in held_jobs:
            try:
                out, err = job.communicate(timeout=HELD_WATCHDOG[mode] + 60)
            except subprocess.TimeoutExpired:
                job.kill()
                raise InfraError("python-hosted run ignored its watchdog alarm")
            n += 1
            per_host[mode] += 1
            problems = _judge_real("handshake", 2, job.returncode, out, log)
            if problems:
                bad.append({"kind": "handshake", "threads": 2, "host": mode, "problems": problems,
                            "stderr": err[-300:]})
        return n

    if only == "held":
        runs += collect_held()
        return runs, bad, per_host
    reps = 2 if ctx.quick else 10
    for hostkind, ns, nreps in (("c", (1, 2, 3), reps), ("python", (2, 3), 1 if ctx.quick else 5)):
        for kind in ("ok", "fail", "recursive", "slow"):
            for n in ns:
                for rep in range(nreps):
                    log = os.path.join(d, "log-%s-%s-%d-%d.txt" % (hostkind, kind, n, rep))
                    cmd = [exe, str(n)] if hostkind == "c" else [build.PY, host, so, "free", str(n), "60"]
                    runs += 1
                    per_host[hostkind] += 1
                    try:
                        p = subprocess.run(cmd, env=envfor(kind, log), stdout=subprocess.PIPE,
                                           stderr=subprocess.PIPE, text=True, timeout=90)
                    except subprocess.TimeoutExpired:
                        # a real embedded library whose calls never return (a normal run takes < 1 s)
                        bad.append({"kind": kind, "threads": n, "host": hostkind,
                                    "problems": ["did not terminate within 90 s"], "stderr": ""})
                        if len(bad) >= 3:
                            for _, _, job in held_jobs:
                                job.kill()
                            return runs, bad, per_host
                        continue
                    problems = _judge_real(kind, n, p.returncode, p.stdout, log)
                    if problems:
                        bad.append({"kind": kind, "threads": n, "host": hostkind, "problems": problems,
                                    "stderr": p.stderr[-300:]})
    runs += collect_held()
    return runs, bad, per_host


def signature(sc, clause, v):
    """Structured classification of one violated clause.  `init` is the init kinds of the libraries in play (as
    before the world / variant dimensions existed, so that one root cause keeps one signature across worlds);
    the initial world and the compile variant are extra keys, present only when they are not the default."""
    nlibs, kinds, bound, progs, world, variant = sc
    sig = {"clause": clause.split(":")[0], "init": kinds[:nlibs]}
    if world:
        sig["world"] = world[0]                   # "P" or "H"
    if world.startswith("H"):
        sig["gil_held_caller"] = True
    if variant != "py312":
        sig["variant"] = variant
    if clause == "call-does-not-terminate" and v.get("deadlock"):
        sig["deadlock"] = v["deadlock"]
    return sig


def run(ctx):
    scs = scenarios(ctx)
    # development aid (never used by a registered command): --opt only=worlds|variants|base|new restricts the scenario
    # list, --opt noreal=1 skips the real-library runs; such a run says exhaustive=False.
    only = getattr(ctx, "opts", {}).get("only")
    noreal = bool(getattr(ctx, "opts", {}).get("noreal"))
    if only:
        keep = {"worlds": lambda sc: sc[4] != "" and sc[5] == "py312", "variants": lambda sc: sc[5] != "py312",
                "base": lambda sc: sc[4] == "" and sc[5] == "py312",
                # everything the audit round added (worlds, variants, kinds M / C, ops g / h)
                "new": lambda sc: (sc[4] != "" or sc[5] != "py312" or any(c in "MC" for c in sc[1][:sc[0]])
                                   or any(c in "gh" for prog in sc[3] for c in prog))}[only]
        scs = [sc for sc in scs if keep(sc)]
    for variant in sorted(set(sc[5] for sc in scs)):
        _EXE[variant] = build_world(variant)
    tot = {"executions": 0, "decisions": 0, "distinct": 0, "crashes": 0}
    maxdec = 0
    infos = set()
    for sc, r in pool.pmap(work, [[s] for s in scs], contain_crashes=False, item_timeout=7200):
        if isinstance(r, pool.WorkerError):
            raise InfraError(r.tb)
        for k in tot:
            tot[k] += r["stat"][k]
        maxdec = max(maxdec, r["stat"]["maxdecisions"])
        infos.update(r["info"])
        ctx.count("libs_%d" % sc[0], r["stat"]["executions"])
        ctx.count("threads_%d" % len(sc[3]), r["stat"]["executions"])
        ctx.count("init_" + sc[1][:sc[0]], r["stat"]["executions"])
        ctx.count("world_" + {"": "fresh", "P": "python_preinitialised", "H": "gil_held_caller"}[sc[4][:1]],
                  r["stat"]["executions"])
        ctx.count("variant_" + sc[5], r["stat"]["executions"])
        if any(c in "gh" for prog in sc[3] for c in prog):
            ctx.count("result_24_bytes", r["stat"]["executions"])
        if any(c in "MC" for c in sc[1][:sc[0]]):
            ctx.count("failure_before_init_code", r["stat"]["executions"])
        if sc[4].startswith("H"):
            # vacuity of the H worlds: how many distinct event logs the GIL-holding callers produced
            ctx.count("gil_held_caller_distinct_logs", r["stat"]["distinct"])
        if os.environ.get("C28_DEBUG"):
            ctx.log("%r: %s" % (sc, r["stat"]))
        if r["sample"]:
            ctx.sample(r["sample"])
        for v in r["viol"]:
            for clause in v["bad"]:
                ctx.violation(signature(sc, clause, v), v)
    real_runs, real_bad, per_host = (0, [], {}) if noreal else real_library_runs(ctx)
    for h, n in sorted(per_host.items()):
        ctx.count("real_host_" + h, n)
    for b in real_bad:
        sig = {"clause": "real-embedded-library", "init": b["kind"]}
        if b["host"] != "c":
            sig["world"] = "H" if b["host"] == "held" else "P"
        if b["host"] == "held":
            sig["gil_held_caller"] = True
        ctx.violation(sig, {"real": True, "what": b})
    cov = {
        "real_embedded_library_runs": real_runs,
        "states": tot["decisions"],
        "transitions": tot["decisions"],
        "traces_validated_against_impl": tot["executions"],
        "schedules": tot["executions"],
        "evaluations": tot["executions"],
        "distinct_nontrivial": tot["distinct"],
        "rule": "one evaluation = one complete schedule of one scenario (libraries x init kinds x thread programs) run in "
                "x initial world (fresh / Python pre-initialised / GIL-holding caller) x compile variant (py312 / py311 / "
                "msvc arms), run in a fresh process over the real _embedding.h text; states = scheduling decisions; "
                "distinct_nontrivial = distinct event logs summed over scenarios",
        "scenarios": len(scs),
        "max_depth": maxdec,
        "preemption_bounds": sorted(set(s[2] for s in scs)),
        "initial_worlds": sorted(set(s[4] or "fresh" for s in scs)),
        "compile_variants": sorted(set(s[5] for s in scs)),
        "real_embedded_library_runs_by_host": dict(per_host),
        "information_events": sorted(infos),
        "exhaustive": not (only or noreal),
    }
    return ctx.finish(cov, ["stub CPython (harness/c28/fakepy, world.c) is the trusted base",
                            "sequentially consistent interleavings; spin loops scheduled fairly"])


def replay(detail):
    if detail.get("real"):
        class _C(object):
            quick = True
        only = "held" if detail.get("what", {}).get("host") in ("held", "ctrl") else None
        runs, bad, per_host = real_library_runs(_C(), only)
        print(runs, per_host, bad)
        return 1 if bad else 0
    sc = tuple(detail["scenario"])
    sc = sc + ("", "py312")[len(sc) - 4:]          # replay files written before the world / variant dimensions
    nlibs, kinds, bound, progs, world, variant = sc
    exe = build_world(variant)
    cmd = [exe, str(nlibs), init_arg(sc), str(bound), "0", "--replay", detail["choices"]] + list(progs)
    p = subprocess.run(cmd, stdout=subprocess.PIPE, stderr=subprocess.PIPE, text=True)
    print(p.stdout)
    lines = p.stdout.splitlines()
    log = lines[1] if len(lines) > 1 else ""
    if any(l.startswith("CRASH") for l in lines):
        log += "CRASH;"
    bad, info = monitor(log)
    print("violated:", bad, "info:", info)
    return 1 if bad else 0
