"""C28 -- embedded start-up initialises once and never deadlocks (engine E4).

The UNCHANGED text of src/cffi/_embedding.h is compiled twice (two "libraries")
against a stub CPython and scheduler-visible CAS / mutex / assert primitives
(harness/c28/*).  A C explorer runs every schedule of 2-3 threads making first
calls within a preemption bound (one forked child per execution, fair treatment
of spin loops) and prints each distinct event log; the monitor below judges the
logs against the five clauses of the statement.
"""
import os
import subprocess

from .. import build, pool
from ..build import InfraError

ID = "C28"
LEVEL = "model_checking"
META = dict(
    engine="E4-sched-C", level="model_checking",
    technique="stateless model checking of the unchanged _embedding.h C text under a controlled scheduler: all "
              "schedules up to a preemption bound (fair spin-loop yields), 2-3 threads x 1-2 libraries x init "
              "scenarios (ok / failing / recursive / cross-library / GIL released), judged by a monitor of the statement",
    text="Every scheduling decision is at a CAS, barrier, mutex operation, assert (the spin loop's only statement), "
         "GIL operation or stub-Python call; between them the code is sequential.  All schedules with <= 2 preemptions "
         "(quick: 1-2) of the listed scenarios are executed, each in a fresh process; a thread that spins is not "
         "rescheduled until another thread moved, and 'only spinners can move' is reported as livelock.",
    note="trusted base: the stub CPython in harness/c28 (GIL as a mutex, Py_InitializeEx leaves the caller holding it, "
         "PyEval_EvalCode runs a scripted init code, C calls from Python release the GIL); interleavings are "
         "sequentially consistent -- x86-TSO store buffering and the write/read barrier pairing are outside the model")

HDIR = os.path.join(build.HARNESS, "c28")


def build_world():
    out = os.path.join(build.scratch(), "c28")
    os.makedirs(out, exist_ok=True)
    emb = os.path.join(build.REPO, "src", "cffi", "_embedding.h")
    inc = ["-I", os.path.join(HDIR, "fakepy"), "-I", HDIR, "-I", os.path.join(build.REPO, "src", "cffi")]
    objs = []
    for lib in (0, 1):
        o = os.path.join(out, "lib%d.o" % lib)
        cmd = ["gcc", "-O1", "-g", "-pthread", "-w"] + inc + [
            "-DLIBID=%d" % lib, '-DEMBEDDING_H="%s"' % emb, "-c", os.path.join(HDIR, "lib.c"), "-o", o]
        p = subprocess.run(cmd, stdout=subprocess.PIPE, stderr=subprocess.STDOUT, text=True)
        if p.returncode != 0:
            # the header under test no longer compiles against the stub world: that is a harness limit
            raise InfraError("cannot compile _embedding.h in the stub world:\n" + p.stdout[-3000:])
        objs.append(o)
    o = os.path.join(out, "world.o")
    p = subprocess.run(["gcc", "-O1", "-g", "-pthread", "-w"] + inc + ["-c", os.path.join(HDIR, "world.c"), "-o", o],
                       stdout=subprocess.PIPE, stderr=subprocess.STDOUT, text=True)
    if p.returncode != 0:
        raise InfraError("world.c: " + p.stdout[-3000:])
    exe = os.path.join(out, "world")
    p = subprocess.run(["gcc", "-pthread"] + objs + [o, "-o", exe], stdout=subprocess.PIPE,
                       stderr=subprocess.STDOUT, text=True)
    if p.returncode != 0:
        raise InfraError("link: " + p.stdout[-3000:])
    return exe


def scenarios(ctx):
    """(nlibs, init kinds, bound, programs)"""
    out = []
    one = ["O", "F", "R", "G", "S"]
    if ctx.quick:
        for k in one:
            out.append((1, k + "O", 2 if k in "OF" else 1, ("0", "0")))
            out.append((1, k + "O", 1, ("s0", "0")))
        out.append((1, "OO", 1, ("00", "0")))
        out.append((1, "OO", 1, ("0", "0", "0")))
        out.append((1, "FO", 1, ("0", "0", "0")))
        for kinds in ("OO", "FO", "XO", "XX", "RX", "GF"):
            out.append((2, kinds, 1, ("0", "1")))
        out.append((2, "XF", 1, ("01", "10")))
        out.append((2, "XO", 2, ("0", "1")))
    else:
        for k in one:
            out.append((1, k + "O", 3, ("0", "0")))
            for progs in (("00", "0"), ("s0", "0"), ("0s", "s"), ("s", "s")):
                out.append((1, k + "O", 2, progs))
            out.append((1, k + "O", 2 if k in "OF" else 1, ("0", "0", "0")))
            out.append((1, k + "O", 1, ("s", "0", "00")))
        two = ["O", "F", "R", "X", "G"]
        for a in two:
            for b in two:
                out.append((2, a + b, 2, ("0", "1")))
                out.append((2, a + b, 1, ("01", "10")))
                out.append((2, a + b, 1, ("0", "1", "0")))
    return out


def monitor(log):
    """Judge one event log.  Returns (list of violated clauses, info flags)."""
    evs = [e.split(" ") for e in log.strip().strip(";").split(";") if e]
    bad = []
    info = []
    pyinit = 0
    initstart = {}
    initend = {}
    calls = {}
    for e in evs:
        k = e[0]
        if k == "PYINIT":
            pyinit += 1
            if pyinit > 1:
                bad.append("python-initialised-twice")
        elif k == "INITSTART":
            lib = e[1]
            if lib in initstart:
                bad.append("init-code-ran-twice")
            initstart[lib] = e[2]
        elif k == "INITEND":
            initend[e[1]] = e[3]
        elif k == "EXTERN":
            lib, tid = e[1], e[2]
            if lib not in initend:
                if initstart.get(lib) != tid:
                    bad.append("extern-python-ran-before-init-finished")
            elif initend[lib] == "fail":
                bad.append("extern-python-ran-after-failed-init")
        elif k == "CALL":
            calls[(e[1], e[2])] = calls.get((e[1], e[2]), 0) + 1
        elif k == "RET":
            lib, tid, r = e[1], e[2], int(e[3])
            calls[(lib, tid)] = calls.get((lib, tid), 0) - 1
            st = initend.get(lib)
            if st == "fail":
                if r != 0:
                    bad.append("nonzero-result-after-failed-init")
            elif st == "ok":
                if r != 7 + 1000 * (int(lib) + 1):
                    bad.append("wrong-result")
            else:
                bad.append("call-returned-without-initialisation")
        elif k == "STARTRET":
            lib, r = str(e[1]), int(e[3])
            st = initend.get(lib)
            if (st == "ok" and r != 0) or (st == "fail" and r != -1) or st is None:
                bad.append("cffi_start_python-wrong-status")
        elif k in ("DEADLOCK", "LIVELOCK", "HORIZON"):
            bad.append("call-does-not-terminate")
        elif k == "CRASH":
            bad.append("crash")
        elif k == "ASSERTFAIL":
            info.append("assert-failed:" + " ".join(e[2:]))
        elif k in ("GIL-RELEASE-NOT-OWNER", "UNLOCK-NOT-OWNER", "MUTEX-REINIT-WHILE-HELD",
                   "PYINIT-GIL-ALREADY-HELD", "INITCODE-WITHOUT-GIL", "GILSTATE-BEFORE-PYINIT"):
            bad.append("python-api-misuse:" + k)
    if not any(b == "call-does-not-terminate" or b == "crash" for b in bad):
        if any(v != 0 for v in calls.values()):
            bad.append("call-does-not-terminate")
    return sorted(set(bad)), info


_EXE = [None]


def work(sc):
    nlibs, kinds, bound, progs = sc
    max_exec = 0
    cmd = [_EXE[0], str(nlibs), kinds, str(bound), str(max_exec)] + list(progs)
    p = subprocess.run(cmd, stdout=subprocess.PIPE, stderr=subprocess.PIPE, text=True)
    if p.returncode != 0:
        raise InfraError("explorer failed for %r: rc=%s %s %s" % (sc, p.returncode, p.stdout[-500:], p.stderr[-500:]))
    stat = None
    logs = []
    for line in p.stdout.splitlines():
        if line.startswith("LOG "):
            head, log = line.split(" | ", 1)
            _, count, choices = head.split(" ", 2) if head.count(" ") >= 2 else (head.split(" ") + [""])
            logs.append((int(count), choices, log))
        elif line.startswith("STAT "):
            stat = dict(kv.split("=") for kv in line.split()[1:])
        elif line.startswith("INFRA") or line.startswith("CAPPED"):
            raise InfraError("explorer: %s for %r" % (line, sc))
    if stat is None:
        raise InfraError("no STAT line for %r" % (sc,))
    viol = []
    infos = set()
    for count, choices, log in logs:
        bad, info = monitor(log)
        infos.update(info)
        if bad:
            viol.append({"scenario": list(sc), "choices": choices, "bad": bad, "log": log, "schedules": count})
    return {"stat": {k: int(v) for k, v in stat.items()}, "viol": viol, "info": sorted(infos),
            "sample": {"scenario": list(sc), "choices": logs[0][1], "log": logs[0][2]} if logs else None}


def real_library_runs(ctx):
    """Conformance of the stub world: a REAL embedded library (built by cffi from the working tree,
    real CPython, real pthreads released by a barrier) must show behaviour the stub-world exploration
    also produced at the granularity init-start / init-end / results.  Returns (runs, mismatches)."""
    import sysconfig
    d = os.path.join(build.scratch(), "c28real")
    os.makedirs(d, exist_ok=True)
    env = dict(os.environ)
    p = subprocess.run([build.PY, os.path.join(build.HARNESS, "c28_real", "build_lib.py"), d], env=env,
                       stdout=subprocess.PIPE, stderr=subprocess.STDOUT, text=True)
    if p.returncode != 0:
        raise InfraError("cannot build the real embedded library:\n" + p.stdout[-2000:])
    libdir = sysconfig.get_config_var("LIBDIR")
    exe = os.path.join(d, "main")
    p = subprocess.run(["gcc", "-pthread", os.path.join(build.HARNESS, "c28_real", "main.c"), "-o", exe, "-L", d,
                        "-lc28real", "-Wl,-rpath," + d, "-Wl,-rpath," + libdir],
                       stdout=subprocess.PIPE, stderr=subprocess.STDOUT, text=True)
    if p.returncode != 0:
        raise InfraError("cannot link the real embedding main:\n" + p.stdout[-2000:])
    runs = 0
    bad = []
    reps = 2 if ctx.quick else 10
    for kind in ("ok", "fail", "recursive", "slow"):
        for n in (1, 2, 3):
            for rep in range(reps):
                log = os.path.join(d, "log-%s-%d-%d.txt" % (kind, n, rep))
                env2 = dict(env, C28_KIND=kind, C28_LOG=log,
                            PYTHONPATH=env.get("PYTHONPATH", "") + os.pathsep + d)
                runs += 1
                try:
                    p = subprocess.run([exe, str(n)], env=env2, stdout=subprocess.PIPE, stderr=subprocess.PIPE,
                                       text=True, timeout=60)
                except subprocess.TimeoutExpired:
                    # a real embedded library whose calls never return (a normal run takes < 1 s)
                    bad.append({"kind": kind, "threads": n, "problems": ["did not terminate within 60 s"], "stderr": ""})
                    if len(bad) >= 3:
                        return runs, bad
                    continue
                try:
                    lines = open(log).read().split()
                except OSError:
                    lines = []
                results = [int(l.split()[1]) for l in p.stdout.splitlines() if l.startswith("result ")]
                again = [int(l.split()[1]) for l in p.stdout.splitlines() if l.startswith("again ")]
                want = 0 if kind == "fail" else 8
                problems = []
                if p.returncode != 0:
                    problems.append("exit status %s" % p.returncode)
                if open(log).read().count("init-start") != 1 if os.path.exists(log) else True:
                    problems.append("init code ran %d times" % (open(log).read().count("init-start") if os.path.exists(log) else 0))
                if results != [want] * n:
                    problems.append("results %r, expected %r" % (results, [want] * n))
                if again != [0 if kind == "fail" else 2]:
                    problems.append("later call returned %r" % (again,))
                if kind == "recursive" and "recursive-result 4" not in open(log).read():
                    problems.append("recursive call from the init code did not return 4")
                if problems:
                    bad.append({"kind": kind, "threads": n, "problems": problems, "stderr": p.stderr[-300:]})
    return runs, bad


def run(ctx):
    _EXE[0] = build_world()
    scs = scenarios(ctx)
    tot = {"executions": 0, "decisions": 0, "distinct": 0, "crashes": 0}
    maxdec = 0
    infos = set()
    for sc, r in pool.pmap(work, [[s] for s in scs], contain_crashes=False, item_timeout=7200):
        if isinstance(r, pool.WorkerError):
            raise InfraError(r.tb)
        for k in tot:
            tot[k] += r["stat"][k]
        maxdec = max(maxdec, r["stat"]["maxdecisions"])
        infos.update(r["info"])
        ctx.count("libs_%d" % sc[0], r["stat"]["executions"])
        ctx.count("threads_%d" % len(sc[3]), r["stat"]["executions"])
        ctx.count("init_" + sc[1][:sc[0]], r["stat"]["executions"])
        if r["sample"]:
            ctx.sample(r["sample"])
        for v in r["viol"]:
            for clause in v["bad"]:
                ctx.violation({"clause": clause.split(":")[0], "init": sc[1][:sc[0]]}, v)
    real_runs, real_bad = real_library_runs(ctx)
    for b in real_bad:
        ctx.violation({"clause": "real-embedded-library", "init": b["kind"]}, {"real": True, "what": b})
    cov = {
        "real_embedded_library_runs": real_runs,
        "states": tot["decisions"],
        "transitions": tot["decisions"],
        "traces_validated_against_impl": tot["executions"],
        "schedules": tot["executions"],
        "evaluations": tot["executions"],
        "distinct_nontrivial": tot["distinct"],
        "rule": "one evaluation = one complete schedule of one scenario (libraries x init kinds x thread programs) run in "
                "a fresh process over the real _embedding.h text; states = scheduling decisions; distinct_nontrivial = "
                "distinct event logs summed over scenarios",
        "scenarios": len(scs),
        "max_depth": maxdec,
        "preemption_bounds": sorted(set(s[2] for s in scs)),
        "information_events": sorted(infos),
        "exhaustive": True,
    }
    return ctx.finish(cov, ["stub CPython (harness/c28/fakepy, world.c) is the trusted base",
                            "sequentially consistent interleavings; spin loops scheduled fairly"])


def replay(detail):
    if detail.get("real"):
        class _C(object):
            quick = True
        runs, bad = real_library_runs(_C())
        print(runs, bad)
        return 1 if bad else 0
    exe = build_world()
    sc = detail["scenario"]
    nlibs, kinds, bound, progs = sc
    cmd = [exe, str(nlibs), kinds, str(bound), "0", "--replay", detail["choices"]] + list(progs)
    p = subprocess.run(cmd, stdout=subprocess.PIPE, stderr=subprocess.PIPE, text=True)
    print(p.stdout)
    lines = p.stdout.splitlines()
    log = lines[1] if len(lines) > 1 else ""
    if any(l.startswith("CRASH") for l in lines):
        log += "CRASH;"
    bad, info = monitor(log)
    print("violated:", bad, "info:", info)
    return 1 if bad else 0
