"""C25 -- every declared name is found by the runtime lookup of the generated tables,
no undeclared name is found.

E1, three parts, all exhaustive over the stated bound:

 1. stand-alone ASan+UBSan executable around the real search_sorted /
    search_in_{globals,struct_unions,enums,typenames} (#include of
    <repo>/src/c/parse_c_type.c): ALL subsets of size <= 4 of an identifier universe
    built to collide, in Python's sort order, x every name of the universe as probe.
 2. end to end through real generated out-of-line ABI modules: all subsets of size
    <= 2 (quick) / <= 3 (thorough) of the 63 C identifiers, each name declared as
    constant, struct tag, typedef, enum tag, anonymous-struct typedef ('$name' entry)
    and union tag; integer_const / lib attribute / typeof for every identifier of the
    universe (members and non-members); plus the full universe (thorough: and all
    universe-minus-one sets).
 3. the same through compiled API-mode modules (two per set: constants + struct tags,
    anonymous-struct typedefs + enum tags) for all subsets of size <= 2 of a collision
    core (+ triples in the thorough tier) and the full universe.
"""
import contextlib
import io
import itertools
import os
import subprocess
import sys

from .. import build, pool
from ..build import InfraError

ID = "C25"
LEVEL = "exploration"
META = dict(
    engine="E1-enum", level="exploration",
    technique="exhaustive enumeration of identifier sets over a universe built to collide; the real search functions "
              "under ASan/UBSan on synthetic tables, and the real generated ABI/API modules end to end",
    text="(1) all 1.29 M subsets of size <= 4 of a 75-name universe (every string of length <= 3 over {A,a,_,0} that is "
         "an identifier + '$' names of anonymous types), sorted by Python, x 75 probes x 5 search entry points taken "
         "by #include from parse_c_type.c: every member found at its own index, every non-member not found, no "
         "sanitizer report; (2) all subsets of size <= 2 (thorough 3) of the 63 identifiers as three real out-of-line "
         "ABI modules each (constants + struct tags / typedefs + enum tags / anonymous-struct typedefs + union tags), "
         "every identifier looked up through ffi.integer_const, lib.<name>, ffi.typeof; (3) a batch of compiled "
         "API-mode modules.",
    note="the order of a subset is obtained from Python's list.sort of the universe (a total order, so every sorted "
         "subset is a subsequence); probes are the universe itself (names outside it are not probed); gcc/ASan are "
         "trusted; the empty table is given a non-NULL base in part 1")

ALPHA = "Aa_0"
IDS = ["".join(s) for n in (1, 2, 3) for s in itertools.product(ALPHA, repeat=n) if s[0] != "0"]
DOLLAR = ["$1", "$2", "$10", "$11", "$A", "$a", "$_", "$A0", "$AA", "$A_", "$$A", "$$a"]
assert len(IDS) == 63 and len(set(IDS)) == 63
# names that begin like the prefixes the runtime strips from struct/union/enum names ("struct ", "union ",
# "enum ") -- used as typedef names of anonymous types they exercise the '$name' <-> 'name' mapping
KW = ["union_t", "unionx", "union_", "struct_t", "structx", "enum_t", "enumx", "unio", "t"]
IDS_X = IDS + KW
GI = {n: i for i, n in enumerate(IDS_X)}        # global index: makes values/sizes unique per name
CORE6 = ["A", "a", "_", "A0", "AA", "A_"]
CORE8 = CORE6 + ["Aa", "_A"]
CORE12 = CORE8 + ["a0", "AAA", "__", "aA"]
KMAX_C = 4


class _E(object):
    def __init__(self, name):
        self.name = name


def python_sorted(names):
    """The order collect_step_tables gives: list.sort(key=lambda entry: entry.name)."""
    lst = [_E(n) for n in names]
    lst.sort(key=lambda entry: entry.name)
    return [e.name for e in lst]


# ---------------------------------------------------------------------------------------
# part 1: the C harness

def build_harness():
    d = build.scratch_shared()
    exe = os.path.join(d, "c25_search_harness")
    src = os.path.join(build.HARNESS, "c25_search_harness.c")
    pct = os.path.join(build.REPO, "src", "c", "parse_c_type.c")
    cmd = ["gcc", "-O1", "-g", "-w", "-fsanitize=address,undefined", "-fno-sanitize-recover=undefined",
           "-fno-omit-frame-pointer", '-DPARSE_C_TYPE_C="%s"' % pct, src, "-o", exe]
    p = subprocess.run(cmd, stdout=subprocess.PIPE, stderr=subprocess.STDOUT, text=True)
    if p.returncode != 0:
        # the harness only needs search_sorted & co from the file under test; if the tree no longer compiles this is
        # not a verdict about lookups
        raise InfraError("cannot compile the search harness against %s:\n%s" % (pct, p.stdout[-3000:]))
    names = os.path.join(d, "c25_names.txt")
    with open(names, "w") as f:
        f.write("\n".join(python_sorted(IDS + DOLLAR)) + "\n")
    return exe, names


_HARNESS = None


def run_harness_slice(item):
    lo, hi, kmax = item
    exe, names = _HARNESS
    env = dict(os.environ)
    env.pop("LD_PRELOAD", None)
    env["ASAN_OPTIONS"] = "detect_leaks=0:abort_on_error=0:exitcode=77"
    env["UBSAN_OPTIONS"] = "halt_on_error=1:exitcode=78:print_stacktrace=1"
    p = subprocess.run([exe, names, str(kmax), str(lo), str(hi)], stdout=subprocess.PIPE, stderr=subprocess.PIPE,
                       text=True, env=env)
    res = {"rc": p.returncode, "bad": [], "done": None, "stderr": p.stderr[-1500:]}
    for line in p.stdout.splitlines():
        if line.startswith("BAD "):
            res["bad"].append(dict(kv.split("=", 1) for kv in line.split()[1:]))
        elif line.startswith("DONE "):
            res["done"] = dict(kv.split("=", 1) for kv in line.split()[1:])
    return res


# ---------------------------------------------------------------------------------------
# parts 2 and 3: generated modules

def texts_for(S):
    """Three cdefs for the identifier set S (declared in reverse order: the generator has to sort).
    Every declaration carries the global index of its name so that 'resolves to its own entry'
    is observable."""
    names = sorted(S, reverse=True)
    a, b, c, d = [], [], [], []
    for n in names:
        g = GI[n]
        a.append("#define %s %d\n" % (n, 100 + g))
        a.append("struct %s { char f%d[%d]; };\n" % (n, g, g + 1))
        b.append("typedef short %s[%d];\n" % (n, g + 1))
        b.append("enum %s { Zq%d = %d };\n" % (n, g, g + 7))
        c.append("typedef struct { char g%d[%d]; struct { char n%d; }; } %s;\n" % (g, g + 1, g, n))
        c.append("union %s { char h%d[%d]; };\n" % (n, g, g + 2))
        # d = the typedef of c + the enum tag of b: with a, it reaches all four tables in two modules (API batch)
        d.append("typedef struct { char g%d[%d]; struct { char n%d; }; } %s;\n" % (g, g + 1, g, n))
        d.append("enum %s { Zq%d = %d };\n" % (n, g, g + 7))
    return "".join(a), "".join(b), "".join(c), "".join(d)


def c_source_for(S, which):
    """C source for the API-mode variant (constants become enumerators: no macros with 1-letter names)."""
    names = sorted(S)
    out = []
    if which == "a":
        out.append("enum { %s };\n" % ", ".join("%s = %d" % (n, 100 + GI[n]) for n in names))
        for n in names:
            out.append("struct %s { char f%d[%d]; };\n" % (n, GI[n], GI[n] + 1))
    elif which == "b":
        for n in names:
            out.append("typedef short %s[%d];\nenum %s { Zq%d = %d };\n" % (n, GI[n] + 1, n, GI[n], GI[n] + 7))
    else:
        for n in names:
            g = GI[n]
            out.append("typedef struct { char g%d[%d]; struct { char n%d; }; } %s;\n" % (g, g + 1, g, n))
            if which == "c":
                out.append("union %s { char h%d[%d]; };\n" % (n, g, g + 2))
            else:
                out.append("enum %s { Zq%d = %d };\n" % (n, g, g + 7))
    return "".join(out)


_modcount = itertools.count()


def _modname(tag):
    return "c25%s_%d_%d" % (tag, os.getpid(), next(_modcount))


def _import_file(name, path):
    import importlib.util
    spec = importlib.util.spec_from_file_location(name, path)
    m = importlib.util.module_from_spec(spec)
    spec.loader.exec_module(m)
    return m


def make_abi(cdef):
    import cffi
    ffi = cffi.FFI()
    ffi.cdef(cdef)
    name = _modname("p")
    ffi.set_source(name, None)
    path = os.path.join(build.scratch(), name + ".py")
    with contextlib.redirect_stdout(io.StringIO()):      # "generating ..." goes to stdout
        ffi.emit_python_code(path)
    m = _import_file(name, path)
    os.unlink(path)
    return m.ffi, m.ffi.dlopen(None)


def make_api(cdef, csrc):
    """API mode: the C file written by the generator (emit_c_code), compiled directly with gcc -O0
    (much cheaper than going through setuptools; the module is the generator's either way)."""
    import cffi
    ffi = cffi.FFI()
    ffi.cdef(cdef)
    name = _modname("c")
    ffi.set_source(name, csrc)
    cfile = os.path.join(build.scratch(), name + ".c")
    so = os.path.join(build.scratch(), name + build.EXT_SUFFIX)
    with contextlib.redirect_stdout(io.StringIO()):
        ffi.emit_c_code(cfile)
    p = subprocess.run(["gcc", "-O0", "-w", "-shared", "-fPIC", "-I" + build.INCLUDEPY, cfile, "-o", so],
                       stdout=subprocess.PIPE, stderr=subprocess.STDOUT, text=True)
    if p.returncode != 0:
        raise InfraError("gcc failed on the generated module %s:\n%s" % (cfile, p.stdout[-2000:]))
    m = _import_file(name, so)
    os.unlink(cfile)
    os.unlink(so)
    return m.ffi, m.lib


def _err(e):
    return "%s: %s" % (type(e).__name__, str(e).split("\n")[0][:120])


def probe_module(which, S, ffi, lib, mode):
    """Look every identifier of the universe up; returns (nprobes, nfound, mismatches)."""
    S = set(S)
    bad = []
    nprobes = nfound = 0

    def expect_missing(what, u, call, exc_types):
        try:
            r = call()
        except exc_types:
            return
        except Exception as e:
            bad.append((what, u, "non-member: unexpected " + _err(e)))
            return
        bad.append((what, u, "non-member was found: %r" % (r,)))

    for u in IDS_X:
        g = GI[u]
        member = u in S
        if which == "a":
            nprobes += 3
            if member:
                nfound += 3
                try:
                    v = ffi.integer_const(u)
                    if v != 100 + g:
                        bad.append(("integer_const", u, "got %r want %d" % (v, 100 + g)))
                except Exception as e:
                    bad.append(("integer_const", u, "member not found: " + _err(e)))
                try:
                    v = getattr(lib, u)
                    if v != 100 + g:
                        bad.append(("lib_attr", u, "got %r want %d" % (v, 100 + g)))
                except Exception as e:
                    bad.append(("lib_attr", u, "member not found: " + _err(e)))
                try:
                    ct = ffi.typeof("struct " + u)
                    got = (ct.kind, ct.fields[0][0], ffi.sizeof(ct))
                    if got != ("struct", "f%d" % g, g + 1):
                        bad.append(("struct_tag", u, "resolved to %r" % (got,)))
                except Exception as e:
                    bad.append(("struct_tag", u, "member not found: " + _err(e)))
            else:
                expect_missing("integer_const", u, lambda: ffi.integer_const(u), (AttributeError,))
                expect_missing("lib_attr", u, lambda: getattr(lib, u), (AttributeError,))
                expect_missing("struct_tag", u, lambda: ffi.typeof("struct " + u), (ffi.error,))
        elif which == "b":
            nprobes += 2
            if member:
                nfound += 2
                try:
                    ct = ffi.typeof(u)
                    got = (ct.kind, ct.length, ct.item.cname)
                    if got != ("array", g + 1, "short"):
                        bad.append(("typedef", u, "resolved to %r" % (got,)))
                except Exception as e:
                    bad.append(("typedef", u, "member not found: " + _err(e)))
                try:
                    ct = ffi.typeof("enum " + u)
                    got = (ct.kind, dict(ct.relements))
                    if got != ("enum", {"Zq%d" % g: g + 7}):
                        bad.append(("enum_tag", u, "resolved to %r" % (got,)))
                except Exception as e:
                    bad.append(("enum_tag", u, "member not found: " + _err(e)))
            else:
                expect_missing("typedef", u, lambda: ffi.typeof(u), (ffi.error,))
                expect_missing("enum_tag", u, lambda: ffi.typeof("enum " + u), (ffi.error,))
        else:
            nprobes += 3
            if member:
                nfound += 2
                try:
                    ct = ffi.typeof(u)       # typename u -> struct '$u'; .fields looks '$u' and '$<n>' up again
                    flds = ct.fields
                    got = (ct.kind, flds[0][0], flds[1][0], ffi.sizeof(ct))
                    if got != ("struct", "g%d" % g, "n%d" % g, g + 2):
                        bad.append(("anon_typedef", u, "resolved to %r" % (got,)))
                except Exception as e:
                    bad.append(("anon_typedef", u, "member not found: " + _err(e)))
                try:
                    if which == "c":
                        ct = ffi.typeof("union " + u)
                        got = (ct.kind, ct.fields[0][0], ffi.sizeof(ct))
                        if got != ("union", "h%d" % g, g + 2):
                            bad.append(("union_tag", u, "resolved to %r" % (got,)))
                    else:
                        ct = ffi.typeof("enum " + u)
                        got = (ct.kind, dict(ct.relements))
                        if got != ("enum", {"Zq%d" % g: g + 7}):
                            bad.append(("enum_tag", u, "resolved to %r" % (got,)))
                except Exception as e:
                    bad.append(("union_tag" if which == "c" else "enum_tag", u, "member not found: " + _err(e)))
            else:
                expect_missing("anon_typedef", u, lambda: ffi.typeof(u), (ffi.error,))
                if which == "c":
                    expect_missing("union_tag", u, lambda: ffi.typeof("union " + u), (ffi.error,))
                else:
                    expect_missing("enum_tag", u, lambda: ffi.typeof("enum " + u), (ffi.error,))
            # 'struct u' is declared by nobody in this module (u is a union/enum tag or nothing)
            expect_missing("struct_tag_absent", u, lambda: ffi.typeof("struct " + u), (ffi.error,))
    return nprobes, nfound, bad


def run_set(S, mode, which_list):
    out = []
    np_ = nf_ = 0
    texts = dict(zip("abcd", texts_for(S)))
    for w in which_list:
        try:
            if mode == "abi":
                ffi, lib = make_abi(texts[w])
            else:
                ffi, lib = make_api(texts[w], c_source_for(S, w))
        except Exception as e:
            import traceback
            raise InfraError("cannot build the %s module %s for %r: %s" % (mode, w, S, traceback.format_exc()[-1500:]))
        n, f, bad = probe_module(w, S, ffi, lib, mode)
        np_ += n
        nf_ += f
        for what, u, msg in bad:
            out.append({"mode": mode, "module": w, "set": list(S), "what": what, "probe": u, "msg": msg})
    return np_, nf_, out


def work_block(item):
    mode, which_list, sets = item
    import warnings
    warnings.simplefilter("ignore")
    tot = [0, 0, 0]
    res = []
    for S in sets:
        n, f, bad = run_set(S, mode, which_list)
        tot[0] += 1
        tot[1] += n
        tot[2] += f
        res.extend(bad)
    return tot, res


def relation_classes(S):
    """Collision classes present inside a set (for the histogram)."""
    cl = set()
    for a, b in itertools.combinations(S, 2):
        if a.startswith(b) or b.startswith(a):
            cl.add("prefix_pair")
        elif a[0] == b[0]:
            cl.add("common_prefix_then_diverge")
        if a.lower() == b.lower():
            cl.add("case_only_difference")
        if {a[0], b[0]} == {"_", "A"} or {a[0], b[0]} == {"_", "a"}:
            cl.add("underscore_vs_letter")
        if len(a) != len(b):
            cl.add("different_length")
    return cl


def enumerate_sets(universe, kmax):
    for k in range(0, kmax + 1):
        for S in itertools.combinations(universe, k):
            yield S


def run(ctx):
    global _HARNESS
    # ---- part 1 -------------------------------------------------------------------
    _HARNESS = build_harness()
    U = python_sorted(IDS + DOLLAR)
    if U != sorted(U, key=lambda s: s.encode("ascii")):
        ctx.count("python_order_differs_from_byte_order")
    n = len(U)
    slices = [[(i, i + 1, KMAX_C)] for i in range(n)]
    tot = {"sets": 0, "calls": 0, "found": 0, "notfound": 0}
    cls_names = ["probe_is_member", "probe_is_proper_prefix_of_member", "member_is_proper_prefix_of_probe",
                 "probe_shares_first_char_only", "probe_unrelated"]
    for item, r in pool.pmap(run_harness_slice, slices):
        if isinstance(r, (pool.WorkerError, pool.Crash)):
            raise InfraError("harness driver failed: %r" % (r,))
        if r["rc"] != 0 or r["done"] is None:
            if r["rc"] in (77, 78) or r["rc"] < 0 or "Sanitizer" in r["stderr"] or "runtime error" in r["stderr"]:
                ctx.violation({"part": "search_harness", "kind": "sanitizer_or_crash"},
                              {"part": 1, "slice": list(item), "rc": r["rc"], "stderr": r["stderr"]})
                continue
            raise InfraError("search harness failed rc=%r: %s" % (r["rc"], r["stderr"]))
        d = r["done"]
        for k in tot:
            tot[k] += int(d[k])
        for name, v in zip(cls_names, d["cls"].split(",")):
            ctx.count("c_harness." + name, int(v))
        for k, v in enumerate(d["sizes"].split(",")):
            ctx.count("c_harness.sets_of_size_%d" % k, int(v))
        for b in r["bad"]:
            idx = [int(x) for x in b["set"].split(",")] if b["set"] else []
            S = [U[i] for i in idx]
            probe = U[int(b["probe"])]
            ctx.violation({"part": "search_harness", "table": b["table"],
                           "kind": "member_not_found_or_wrong_index" if int(b["want"]) >= 0 else "non_member_found"},
                          {"part": 1, "table": b["table"], "set": S, "probe": probe,
                           "got": int(b["got"]), "want": int(b["want"])})
        if int(d["bad"]) > len(r["bad"]):
            ctx.count("c_harness.mismatches_not_listed", int(d["bad"]) - len(r["bad"]))
    ctx.log("part 1: %(sets)d sets, %(calls)d search calls, %(found)d member / %(notfound)d non-member probes" % tot)
    ctx.sample({"part": 1, "universe_in_python_order": U})

    # ---- part 2 -------------------------------------------------------------------
    k_abi = 2 if ctx.quick else 3
    sets = list(enumerate_sets(IDS, k_abi))
    sets.append(tuple(IDS))
    sets.extend(enumerate_sets(KW, 2))                 # keyword-prefixed names, alone and in pairs ...
    sets.extend((a, b) for a in KW for b in ("A", "_", "a0"))     # ... and next to ordinary names
    if not ctx.quick:
        sets.extend(tuple(x for x in IDS if x != y) for y in IDS)
    nontrivial = set()
    for S in sets:
        cl = relation_classes(S)
        for c in cl:
            ctx.count("abi_sets." + c)
        if cl:
            nontrivial.add(S)
        ctx.count("abi_sets.size_%s" % (len(S) if len(S) <= 3 else ">3"))
        if len(S) in (2, 3):
            ctx.sample({"part": 2, "set": list(S), "cdef_a": texts_for(S)[0]})
    small = [S for S in sets if len(S) <= 3]
    big = [S for S in sets if len(S) > 3]
    items = [[("abi", "abc", [S])] for S in big] + [[("abi", "abc", blk)] for blk in pool.chunks(small, 60)]
    ev_abi = [0, 0, 0]
    for item, r in pool.pmap(work_block, items):
        if isinstance(r, pool.WorkerError):
            raise InfraError("worker failed: %s" % r.tb)
        if isinstance(r, pool.Crash):
            ctx.violation({"part": "abi_module", "kind": "crash"}, {"part": 2, "block": item, "how": r.describe()})
            continue
        t, res = r
        for i in range(3):
            ev_abi[i] += t[i]
        for b in res:
            ctx.violation({"part": "abi_module", "table": b["what"],
                           "kind": "non_member_found" if b["msg"].startswith("non-member") else "member_lookup"},
                          dict(b, part=2))
    ctx.log("part 2: %d sets as ABI modules (x3), %d lookups, %d of members" % tuple(ev_abi))

    # ---- part 3 -------------------------------------------------------------------
    if ctx.quick:
        api_sets = list(enumerate_sets(CORE6, 2))
    else:
        api_sets = list(enumerate_sets(CORE12, 2)) + list(itertools.combinations(CORE8, 3))
    api_sets = [tuple(IDS)] + [S for S in api_sets if S]       # the big modules first (longest compilations)
    items = []
    for S in api_sets:
        # two modules reach all four tables: a = constants + struct tags, d = typedefs ('$' structs) + enum tags
        for w in ("a", "d"):
            items.append([("api", w, [S])])
    ev_api = [0, 0, 0]
    for item, r in pool.pmap(work_block, items):
        if isinstance(r, pool.WorkerError):
            raise InfraError("worker failed: %s" % r.tb)
        if isinstance(r, pool.Crash):
            ctx.violation({"part": "api_module", "kind": "crash"}, {"part": 3, "block": item, "how": r.describe()})
            continue
        t, res = r
        for i in range(3):
            ev_api[i] += t[i]
        for b in res:
            ctx.violation({"part": "api_module", "table": b["what"],
                           "kind": "non_member_found" if b["msg"].startswith("non-member") else "member_lookup"},
                          dict(b, part=3))
    ctx.count("api_modules_compiled", ev_api[0])
    ctx.log("part 3: %d API modules, %d lookups, %d of members" % tuple(ev_api))

    cov = {
        "evaluations": tot["sets"] + ev_abi[0] * 3 + ev_api[0],
        "distinct_nontrivial": len(nontrivial),
        "rule": "part 1: every subset of size <= %d of the %d-name universe (in Python's sort order) x every name of the "
                "universe x {search_in_globals, search_in_struct_unions, search_in_enums, search_in_typenames, "
                "search_sorted with a foreign item size}; part 2: every subset of size <= %d of the 63 identifiers + the "
                "full universe%s, each as 3 out-of-line ABI modules, 8 lookups per "
                "identifier of the universe; part 3: 2 API-mode modules for every non-empty subset of size <= 2 of %s%s + "
                "the full universe.  non-trivial (counted over part 2 sets) = the set contains a prefix pair, a common "
                "prefix followed by divergence, a case-only difference or an underscore/letter first-character pair" % (
                    KMAX_C, n, k_abi, "" if ctx.quick else " + all 63 universe-minus-one sets",
                    "CORE6" if ctx.quick else "CORE12",
                    "" if ctx.quick else " and every triple of CORE8"),
        "exhaustive": True,
        "bound": {"c_harness_max_set_size": KMAX_C, "abi_max_set_size": k_abi,
                  "api_core": CORE6 if ctx.quick else CORE12, "universe": n},
        "c_harness": tot,
        "abi_modules": {"sets": ev_abi[0], "lookups": ev_abi[1], "member_lookups": ev_abi[2]},
        "api_modules": {"modules": ev_api[0], "lookups": ev_api[1], "member_lookups": ev_api[2]},
    }
    return ctx.finish(cov, [
        "a subset sorted by Python is the subsequence of the Python-sorted universe (list.sort with key=name is a total "
        "order); the harness therefore enumerates increasing index tuples over the universe as sorted by Python",
        "probes are the names of the universe; lookups are driven through integer_const / lib attribute / typeof",
        "part 1 gives the empty table a non-NULL base pointer (with NULL, UBSan reports '&ctx->globals->name' in "
        "search_in_*: member access within null pointer -- harmless pointer arithmetic, outside this statement)"])


def replay(detail):
    global _HARNESS
    part = detail.get("part")
    if part == 1:
        _HARNESS = build_harness()
        U = python_sorted(IDS + DOLLAR)
        if "set" not in detail:
            r = run_harness_slice(tuple(detail["slice"]))
            print("slice", detail["slice"], "rc", r["rc"], r["stderr"][-800:])
            return 1 if r["rc"] != 0 else 0
        S = detail["set"]
        first = U.index(S[0]) if S else 0
        r = run_harness_slice((first, first + 1, max(len(S), 1)))
        hits = [b for b in r["bad"] if [U[int(x)] for x in b["set"].split(",") if x] == S
                and U[int(b["probe"])] == detail["probe"] and b["table"] == detail["table"]]
        print("table sorted by Python:", S, "probe:", detail["probe"], "table:", detail["table"])
        print("recorded: got=%s want=%s" % (detail["got"], detail["want"]))
        print("now:", hits[:1] or "index is correct")
        if r["rc"] != 0:
            print("harness rc", r["rc"], r["stderr"][-800:])
            return 1
        # the listing is capped at 40 lines: fall back to 'any mismatch for this set'
        anyset = [b for b in r["bad"] if [U[int(x)] for x in b["set"].split(",") if x] == S]
        return 1 if hits or anyset else 0
    import warnings
    warnings.simplefilter("ignore")
    S = tuple(detail["set"])
    mode = detail["mode"]
    w = detail["module"]
    print("mode:", mode, "module:", w)
    print(dict(zip("abcd", texts_for(S)))[w])
    n, f, bad = run_set(S, mode, w)
    for b in bad:
        print("MISMATCH", b["what"], b["probe"], b["msg"])
    if not bad:
        print("all %d lookups correct" % n)
    return 1 if bad else 0
