"""C25 -- every declared name is found by the runtime lookup of the generated tables,
no undeclared name is found.

E1, all parts exhaustive over the stated bound:

 1. stand-alone ASan+UBSan executable around the real search_sorted /
    search_in_{globals,struct_unions,enums,typenames} (#include of
    <repo>/src/c/parse_c_type.c): ALL subsets of size <= 4 of an identifier universe
    built to collide, in Python's sort order, x every name of the universe as probe;
    plus every contiguous window and every arithmetic subsequence of the sorted universe
    (tables of every length 1..75).
 2. end to end through real generated out-of-line ABI modules: all subsets of size
    <= 2 (quick) / <= 3 (thorough) of the 63 C identifiers, each name declared as
    constant, struct tag, typedef, enum tag, anonymous-struct typedef ('$name' entry)
    and union tag (module kinds a, b, c), and for the sets of size <= 2 (quick: those inside
    CORE12 or with a keyword-like name) also as enumerator of one shared enum, anonymous-enum typedef next to an enum tag,
    anonymous-union typedef next to a struct tag (kinds e, f, g); integer_const /
    lib attribute / typeof (also with the identifier followed by ']', '*', '[', '(',
    ',' instead of the end of the string) for every identifier of the universe (members
    and non-members); plus the full universe (thorough: and all universe-minus-one sets).
 2s. names the type-name fallbacks of the runtime also know (size_t, FILE, _IO_FILE ...),
    declared as something else; the cases that declare _IO_FILE in a process of their own (_c25x.py).
 2L. six names of 199..256 characters with a common prefix of 199/200 characters (_c25x.py).
 2i. ffi.include(): the names distributed over a chain A -> (B1 -> C, B2) of four generated
    modules, every distribution of every set of size <= 2 of CORE6 (thorough: <= 3, CORE8) (_c25x.py).
 3. the same through compiled API-mode modules for all subsets of size <= 2 of a collision
    core (+ triples in the thorough tier) and the full universe; include chains of four
    compiled modules; modules whose globals table mixes all entry kinds (_c25x.py).
"""
import contextlib
import io
import itertools
import os
import subprocess
import sys

from .. import build, pool
from ..build import InfraError

ID = "C25"
LEVEL = "exploration"
META = dict(
    engine="E1-enum", level="exploration",
    technique="exhaustive enumeration of identifier sets over a universe built to collide; the real search functions "
              "under ASan/UBSan on synthetic tables, and the real generated ABI/API modules (single and ffi.include() "
              "chains) end to end",
    text="(1) all 1.29 M subsets of size <= 4 of a 75-name universe (every string of length <= 3 over {A,a,_,0} that is "
         "an identifier + '$' names of anonymous types), sorted by Python, x 75 probes x 5 search entry points taken "
         "by #include from parse_c_type.c, plus all 2850 contiguous windows and 2774 arithmetic subsequences of the "
         "sorted universe (every table length 1..75, as exactly-sized heap blocks): every member found at its own "
         "index, every non-member not found, no sanitizer report; (2) all subsets of size <= 2 (thorough 3) of the 63 "
         "identifiers as three real out-of-line ABI modules each (constants + struct tags / typedefs + enum tags / "
         "anonymous-struct typedefs + union tags), sets of size <= 2 (quick tier: those inside CORE12) also as "
         "enumerators of one enum / anonymous-enum typedef + enum tag / anonymous-union typedef + struct tag; every "
         "identifier of the 80-name probe universe looked up through ffi.integer_const, lib.<name>, ffi.typeof, also "
         "inside longer type strings ('char[n]', 'struct n*', 'enum n(*)(n*,enum n)'); (2s) 8 names that the type-name "
         "fallbacks know (size_t, bool, FILE, _IO_FILE ...) declared as constants/tags/typedefs, alone and next to "
         "each name of CORE6 (modules that declare _IO_FILE in a process of their own); (2L) 6 names of 199..256 "
         "characters that differ only after 199/200 common characters; (2i) ffi.include(): every distribution over the "
         "four modules of a chain A -> (B1 -> C, B2) of every set of size <= 2 of CORE6 (thorough: <= 3 of CORE8), 3 "
         "module kinds, all names looked up through each of the four ffi/lib pairs (delegation loops of lib_obj.c, "
         "ffi_obj.c ffi_fetch_int_constant / _fetch_external_struct_or_union); (3) a batch of compiled API-mode "
         "modules (5 kinds; thorough 7), API-mode include chains, and API modules whose globals table mixes functions "
         "of the three calling conventions, variables, constants and extern \"Python\" entries (lib.<name>, "
         "ffi.addressof, def_extern by name, dir(lib)).",
    note="the order of a subset is obtained from Python's list.sort of the universe (a total order, so every sorted "
         "subset is a subsequence); probes are the universe itself (names outside it are not probed, except a few "
         "near-miss spellings in the mixed-kind modules); a name declared twice in one C scope (struct n and union n, "
         "typedef n and constant n) is not a C program and is never generated; standard type names found when NOT "
         "declared (size_t ...) are excluded by a counted rule; gcc/ASan are trusted; the empty table is given a "
         "non-NULL base in part 1")

ALPHA = "Aa_0"
IDS = ["".join(s) for n in (1, 2, 3) for s in itertools.product(ALPHA, repeat=n) if s[0] != "0"]
DOLLAR = ["$1", "$2", "$10", "$11", "$A", "$a", "$_", "$A0", "$AA", "$A_", "$$A", "$$a"]
assert len(IDS) == 63 and len(set(IDS)) == 63
# names that begin like the prefixes the runtime strips from struct/union/enum names ("struct ", "union ",
# "enum ") -- used as typedef names of anonymous types they exercise the '$name' <-> 'name' mapping
KW = ["union_t", "unionx", "union_", "struct_t", "structx", "enum_t", "enumx", "unio", "t"]
# names that the runtime's type-name lookup ALSO knows from its fallbacks (search_standard_typename, get_common_type,
# the 'struct _IO_FILE' special case of parse_c_type.c / realize_c_type.c), here declared as something else.  Legal C
# identifiers all of them.  Used in ABI mode only (an API module's C source includes <stdint.h>/<stdio.h> via Python.h).
SPECIAL = ["uint8_t", "size_t", "ssize_t", "wchar_t", "int_fast8_t", "bool", "FILE", "_IO_FILE"]
IDS_X = IDS + KW + SPECIAL
# names that are equal over 199/200 characters ("differ only after a common prefix"; longer than the '%.200s' of the
# runtime's messages); a probe universe of their own (part 2L)
_P200 = "Lq" * 100
LONG = [_P200[:199], _P200, _P200 + "A", _P200 + "AA", _P200 + "_", _P200 + "A" * 56]
GI = {n: i for i, n in enumerate(IDS_X + LONG)}        # global index: makes values/sizes unique per name
CORE6 = ["A", "a", "_", "A0", "AA", "A_"]
CORE8 = CORE6 + ["Aa", "_A"]
CORE12 = CORE8 + ["a0", "AAA", "__", "aA"]
KMAX_C = 4
KINDS = "abcdefgh"


class _E(object):
    def __init__(self, name):
        self.name = name


def python_sorted(names):
    """The order collect_step_tables gives: list.sort(key=lambda entry: entry.name)."""
    lst = [_E(n) for n in names]
    lst.sort(key=lambda entry: entry.name)
    return [e.name for e in lst]


# ---------------------------------------------------------------------------------------
# part 1: the C harness

def build_harness():
    d = build.scratch_shared()
    exe = os.path.join(d, "c25_search_harness")
    src = os.path.join(build.HARNESS, "c25_search_harness.c")
    pct = os.path.join(build.REPO, "src", "c", "parse_c_type.c")
    cmd = ["gcc", "-O1", "-g", "-w", "-fsanitize=address,undefined", "-fno-sanitize-recover=undefined",
           "-fno-omit-frame-pointer", '-DPARSE_C_TYPE_C="%s"' % pct, src, "-o", exe]
    p = subprocess.run(cmd, stdout=subprocess.PIPE, stderr=subprocess.STDOUT, text=True)
    if p.returncode != 0:
        # the harness only needs search_sorted & co from the file under test; if the tree no longer compiles this is
        # not a verdict about lookups
        raise InfraError("cannot compile the search harness against %s:\n%s" % (pct, p.stdout[-3000:]))
    names = os.path.join(d, "c25_names.txt")
    with open(names, "w") as f:
        f.write("\n".join(python_sorted(IDS + DOLLAR)) + "\n")
    return exe, names


_HARNESS = None


def run_harness_slice(item):
    lo, hi, kmax = item            # kmax == "W": the windows / arithmetic subsequences of the universe
    exe, names = _HARNESS
    env = dict(os.environ)
    env.pop("LD_PRELOAD", None)
    env["ASAN_OPTIONS"] = "detect_leaks=0:abort_on_error=0:exitcode=77"
    env["UBSAN_OPTIONS"] = "halt_on_error=1:exitcode=78:print_stacktrace=1"
    p = subprocess.run([exe, names, str(kmax), str(lo), str(hi)], stdout=subprocess.PIPE, stderr=subprocess.PIPE,
                       text=True, env=env)
    res = {"rc": p.returncode, "bad": [], "done": None, "stderr": p.stderr[-1500:]}
    for line in p.stdout.splitlines():
        if line.startswith("BAD "):
            res["bad"].append(dict(kv.split("=", 1) for kv in line.split()[1:]))
        elif line.startswith("DONE "):
            res["done"] = dict(kv.split("=", 1) for kv in line.split()[1:])
    return res


# ---------------------------------------------------------------------------------------
# parts 2 and 3: generated modules
#
# A C scope has ONE ordinary name space (typedef names, enumerators, objects, functions; cffi's '#define' constants
# stand for enumerators/macros) and ONE tag name space (struct, union and enum tags together).  Every module kind
# therefore gives a name n at most one declaration per name space:
#
#   kind  ordinary name space                                   tag name space
#   a     #define n 100+g                                       struct n { char f<g>[g+1]; }
#   b     typedef short n[g+1]                                  enum n { Zq<g> = g+7 }
#   c     typedef struct { char g<g>[g+1]; struct {char n<g>;}; } n      union n { char h<g>[g+2]; }
#   d     the typedef of c                                      the enum of b           (API batch: 4 tables in a + d)
#   e     enumerator n = 100+g of ONE enum Zt over the whole set (the globals table holds _CFFI_OP_ENUM entries and
#         the runtime walks the comma-separated enumerator list, looking each name up with an explicit length)
#   f     typedef enum { Zr<g> = g+3 } n   ('$n' in the enums table)     enum n { Zq<g> = g+7 }
#   g     typedef union { char k<g>[g+3]; } n  ('$n', a union)           struct n { char f<g>[g+1]; }
#   h     typedef struct { char g<g>[g+1]; char n<g>; } n  (c without the nested anonymous struct: those are numbered
#         '$1', '$2' PER MODULE and collide along ffi.include() chains, a defect recorded under C34)      union of c
#
# g = GI[n], so that 'resolves to its own entry' is observable in every value, field name and size.

def decls_for(kind, n):
    g = GI[n]
    td_anon = "typedef struct { char g%d[%d]; struct { char n%d; }; } %s;\n" % (g, g + 1, g, n)
    enum_tag = "enum %s { Zq%d = %d };\n" % (n, g, g + 7)
    struct_tag = "struct %s { char f%d[%d]; };\n" % (n, g, g + 1)
    if kind == "a":
        return ["#define %s %d\n" % (n, 100 + g), struct_tag]
    if kind == "b":
        return ["typedef short %s[%d];\n" % (n, g + 1), enum_tag]
    if kind == "c":
        return [td_anon, "union %s { char h%d[%d]; };\n" % (n, g, g + 2)]
    if kind == "d":
        return [td_anon, enum_tag]
    if kind == "h":
        return ["typedef struct { char g%d[%d]; char n%d; } %s;\n" % (g, g + 1, g, n),
                "union %s { char h%d[%d]; };\n" % (n, g, g + 2)]
    if kind == "f":
        return ["typedef enum { Zr%d = %d } %s;\n" % (g, g + 3, n), enum_tag]
    if kind == "g":
        return ["typedef union { char k%d[%d]; } %s;\n" % (g, g + 3, n), struct_tag]
    raise ValueError(kind)


def text_for(S, kind):
    """The cdef of module kind `kind` for the identifier set S (declared in reverse order: the generator has
    to sort)."""
    names = sorted(S, reverse=True)
    if kind == "e":
        if not names:
            return ""
        return "enum Zt { %s };\n" % ", ".join("%s = %d" % (n, 100 + GI[n]) for n in names)
    return "".join("".join(decls_for(kind, n)) for n in names)


def texts_for(S):
    return {k: text_for(S, k) for k in KINDS}


def c_source_for(S, which):
    """C source for the API-mode variant (constants become enumerators: no macros with 1-letter names)."""
    names = sorted(S)
    if which == "a":
        out = []
        if names:
            out.append("enum { %s };\n" % ", ".join("%s = %d" % (n, 100 + GI[n]) for n in names))
        for n in names:
            out.append("struct %s { char f%d[%d]; };\n" % (n, GI[n], GI[n] + 1))
        return "".join(out)
    return text_for(S, which)


_modcount = itertools.count()


def _modname(tag):
    return "c25%s_%d_%d" % (tag, os.getpid(), next(_modcount))


def _import_file(name, path):
    import importlib.util
    spec = importlib.util.spec_from_file_location(name, path)
    m = importlib.util.module_from_spec(spec)
    spec.loader.exec_module(m)
    return m


def make_abi(cdef):
    import cffi
    ffi = cffi.FFI()
    ffi.cdef(cdef)
    name = _modname("p")
    ffi.set_source(name, None)
    path = os.path.join(build.scratch(), name + ".py")
    with contextlib.redirect_stdout(io.StringIO()):      # "generating ..." goes to stdout
        ffi.emit_python_code(path)
    m = _import_file(name, path)
    os.unlink(path)
    return m.ffi, m.ffi.dlopen(None)


def compile_generated(ffi, name, dirname):
    """API mode: the C file written by the generator (emit_c_code), compiled directly with gcc -O0
    (much cheaper than going through setuptools; the module is the generator's either way)."""
    cfile = os.path.join(dirname, name + ".c")
    so = os.path.join(dirname, name + build.EXT_SUFFIX)
    with contextlib.redirect_stdout(io.StringIO()):
        ffi.emit_c_code(cfile)
    p = subprocess.run(["gcc", "-O0", "-w", "-shared", "-fPIC", "-I" + build.INCLUDEPY, cfile, "-o", so],
                       stdout=subprocess.PIPE, stderr=subprocess.STDOUT, text=True)
    if p.returncode != 0:
        raise InfraError("gcc failed on the generated module %s:\n%s" % (cfile, p.stdout[-2000:]))
    os.unlink(cfile)
    return so


def make_api(cdef, csrc):
    import cffi
    ffi = cffi.FFI()
    ffi.cdef(cdef)
    name = _modname("c")
    ffi.set_source(name, csrc)
    so = compile_generated(ffi, name, build.scratch())
    m = _import_file(name, so)
    os.unlink(so)
    return m.ffi, m.lib


def _err(e):
    return "%s: %s" % (type(e).__name__, str(e).split("\n")[0][:120])


def routes_for(kind, ffi, lib):
    """The lookups made for every identifier u of the probe universe in a module of this kind:
    (what, class, observe(u), want(g)).  class: 'const' (globals table), 'typename', 'tag_struct', 'tag_union',
    'tag_enum', or 'absent_struct' / 'absent_union' (a tag lookup that must fail for EVERY u, because u is
    declared with the other keyword or not at all).  The identifier is followed by the end of the string in the
    routes that existed from the start, and by ']', '*', '[', ' ', '(', ',' in the others: the tokenizer hands
    (pointer, length) into the middle of a longer string to the searches."""
    T = ffi.typeof
    sz = ffi.sizeof
    R = []
    if kind in "ae":
        R += [("integer_const", "const", lambda u: ffi.integer_const(u), lambda g: 100 + g),
              ("lib_attr", "const", lambda u: getattr(lib, u), lambda g: 100 + g),
              ("array_len_const", "const", lambda u: T("char[%s]" % u).length, lambda g: 100 + g),
              ("array_len_const_2", "const", lambda u: (lambda ct: (ct.length, ct.item.length))(T("short*[%s][2]" % u)),
               lambda g: (100 + g, 2))]
    if kind in "ag":
        R += [("struct_tag", "tag_struct", lambda u: (lambda ct: (ct.kind, ct.fields[0][0], sz(ct)))(T("struct " + u)),
               lambda g: ("struct", "f%d" % g, g + 1)),
              ("struct_tag_ptr", "tag_struct",
               lambda u: (lambda ct: (ct.kind, ct.item.kind, ct.item.fields[0][0]))(T("struct %s*" % u)),
               lambda g: ("pointer", "struct", "f%d" % g)),
              ("struct_tag_arr", "tag_struct",
               lambda u: (lambda ct: (ct.kind, ct.length, ct.item.fields[0][0], sz(ct)))(T("struct %s[2]" % u)),
               lambda g: ("array", 2, "f%d" % g, 2 * (g + 1)))]
    if kind == "b":
        R += [("typedef", "typename", lambda u: (lambda ct: (ct.kind, ct.length, ct.item.cname))(T(u)),
               lambda g: ("array", g + 1, "short")),
              ("typedef_ptr", "typename",
               lambda u: (lambda ct: (ct.kind, ct.item.kind, ct.item.length))(T(u + " *")),
               lambda g: ("pointer", "array", g + 1)),
              ("fnptr_form", "typename",
               lambda u: (lambda ct: (ct.kind, dict(ct.result.relements), ct.args[0].item.length,
                                      dict(ct.args[1].relements)))(T("enum %s(*)(%s*,enum %s)" % (u, u, u))),
               lambda g: ("function", {"Zq%d" % g: g + 7}, g + 1, {"Zq%d" % g: g + 7}))]
    if kind in "bdf":
        R += [("enum_tag", "tag_enum", lambda u: (lambda ct: (ct.kind, dict(ct.relements)))(T("enum " + u)),
               lambda g: ("enum", {"Zq%d" % g: g + 7})),
              ("enum_tag_arr", "tag_enum",
               lambda u: (lambda ct: (ct.kind, ct.length, dict(ct.item.relements)))(T("enum %s[3]" % u)),
               lambda g: ("array", 3, {"Zq%d" % g: g + 7})),
              # the enumerator is a global of its own ('Zq<g>' for the enum tagged u)
              ("enumerator_global", "const", lambda u: getattr(lib, "Zq%d" % GI[u]), lambda g: g + 7)]
    if kind in "cdh":
        # typename u -> struct '$u'; .fields looks '$u' and '$<n>' up again
        R += [("anon_typedef", "typename",
               lambda u: (lambda ct, f: (ct.kind, f[0][0], f[1][0], sz(ct)))(T(u), T(u).fields),
               lambda g: ("struct", "g%d" % g, "n%d" % g, g + 2)),
              ("anon_typedef_ptr", "typename",
               lambda u: (lambda ct: (ct.kind, ct.item.kind, ct.item.fields[0][0]))(T(u + "*")),
               lambda g: ("pointer", "struct", "g%d" % g))]
    if kind in "ch":
        R += [("union_tag", "tag_union", lambda u: (lambda ct: (ct.kind, ct.fields[0][0], sz(ct)))(T("union " + u)),
               lambda g: ("union", "h%d" % g, g + 2)),
              ("union_tag_arr", "tag_union",
               lambda u: (lambda ct: (ct.kind, ct.length, ct.item.fields[0][0]))(T("union %s[3]" % u)),
               lambda g: ("array", 3, "h%d" % g))]
    if kind == "f":
        R += [("anon_enum_typedef", "typename", lambda u: (lambda ct: (ct.kind, dict(ct.relements)))(T(u)),
               lambda g: ("enum", {"Zr%d" % g: g + 3})),
              ("enumerator_global_anon", "const", lambda u: getattr(lib, "Zr%d" % GI[u]), lambda g: g + 3)]
    if kind == "g":
        R += [("anon_union_typedef", "typename", lambda u: (lambda ct: (ct.kind, ct.fields[0][0], sz(ct)))(T(u)),
               lambda g: ("union", "k%d" % g, g + 3)),
              ("union_tag_absent", "absent_union", lambda u: T("union " + u), None)]
    if kind in "cdfh":
        # 'struct u' is declared by nobody in this module (u is a union/enum tag or nothing)
        R += [("struct_tag_absent", "absent_struct", lambda u: T("struct " + u), None)]
    return R


_SPECIAL_SET = frozenset(SPECIAL)


def excluded(cls, u, member):
    """Lookups on which the statement has no answer: a standard type name that is NOT declared by the module is
    legitimately found by the fallbacks behind the typenames table, and 'struct _IO_FILE' is the type FILE."""
    if u not in _SPECIAL_SET:
        return False
    if cls == "typename" and not member:
        return True
    if u == "_IO_FILE" and (cls == "absent_struct" or (cls == "tag_struct" and not member)):
        return True
    return False


def probe_module(which, S, ffi, lib, mode=None, universe=None, foreign=()):
    """Look every identifier of the universe up; returns (nprobes, nfound, mismatches).
    foreign: members that come from an ffi.include()d module.  include() is documented to have "no effect on
    functions, constants and global variables": a constant of an included module is reached through lib.<n> and
    integer_const (the runtime delegates those on purpose) but not as an array length inside a type string, and
    the statement does not ask for it (the difference between the parsers is recorded under C07)."""
    S = set(S)
    bad = []
    nprobes = nfound = 0
    missing = (AttributeError, ffi.error)
    routes = routes_for(which, ffi, lib)
    for u in (universe or IDS_X):
        g = GI[u]
        member = u in S
        for what, cls, observe, want in routes:
            if excluded(cls, u, member) or (u in foreign and what.startswith("array_len_const")):
                continue
            nprobes += 1
            if member and want is not None:
                nfound += 1
                try:
                    got = observe(u)
                except Exception as e:
                    bad.append((what, u, "member not found: " + _err(e)))
                    continue
                if got != want(g):
                    bad.append((what, u, "resolved to %r, want %r" % (got, want(g))))
            else:
                try:
                    r = observe(u)
                except missing:
                    continue
                except Exception as e:
                    bad.append((what, u, "non-member: unexpected " + _err(e)))
                    continue
                bad.append((what, u, "non-member was found: %r" % (r,)))
    if which == "e":
        # the enum that owns the constants: its enumerator list is walked name by name (search with an explicit
        # length into the middle of "n1,n2,n3")
        nprobes += 1
        want = {n: 100 + GI[n] for n in S}
        try:
            got = dict(ffi.typeof("enum Zt").relements)
            if not S:
                bad.append(("enum_of_all", "Zt", "non-member was found: %r" % (got,)))
            elif got != want:
                bad.append(("enum_of_all", "Zt", "resolved to %r, want %r" % (got, want)))
            else:
                nfound += 1
        except ffi.error as e:
            if S:
                bad.append(("enum_of_all", "Zt", "member not found: " + _err(e)))
        except Exception as e:
            bad.append(("enum_of_all", "Zt", ("member not found: " if S else "non-member: unexpected ") + _err(e)))
    return nprobes, nfound, bad


def run_set(S, mode, which_list, universe=None):
    out = []
    np_ = nf_ = 0
    for w in which_list:
        try:
            if mode == "abi":
                ffi, lib = make_abi(text_for(S, w))
            else:
                ffi, lib = make_api(text_for(S, w), c_source_for(S, w))
        except Exception:
            import traceback
            raise InfraError("cannot build the %s module %s for %r: %s" % (mode, w, S, traceback.format_exc()[-1500:]))
        n, f, bad = probe_module(w, S, ffi, lib, mode, universe=universe)
        np_ += n
        nf_ += f
        for what, u, msg in bad:
            out.append({"mode": mode, "module": w, "set": list(S), "what": what, "probe": u, "msg": msg})
    return np_, nf_, out


def work_block(item):
    mode, which_list, sets = item
    import warnings
    warnings.simplefilter("ignore")
    tot = [0, 0, 0, 0]
    res = []
    for S in sets:
        n, f, bad = run_set(S, mode, which_list)
        tot[0] += 1
        tot[1] += n
        tot[2] += f
        tot[3] += len(which_list)
        res.extend(bad)
    return tot, res


def relation_classes(S):
    """Collision classes present inside a set (for the histogram)."""
    cl = set()
    for a, b in itertools.combinations(S, 2):
        if a.startswith(b) or b.startswith(a):
            cl.add("prefix_pair")
        elif a[0] == b[0]:
            cl.add("common_prefix_then_diverge")
        if a.lower() == b.lower():
            cl.add("case_only_difference")
        if {a[0], b[0]} == {"_", "A"} or {a[0], b[0]} == {"_", "a"}:
            cl.add("underscore_vs_letter")
        if len(a) != len(b):
            cl.add("different_length")
    return cl


def enumerate_sets(universe, kmax):
    for k in range(0, kmax + 1):
        for S in itertools.combinations(universe, k):
            yield S


def sig_for(part, b):
    sig = {"part": part, "table": b["what"],
           "kind": "non_member_found" if b["msg"].startswith("non-member") else "member_lookup"}
    if b["probe"] in _SPECIAL_SET:
        sig["special_name"] = b["probe"]
    return sig


def collect(ctx, part, partno, it, ev):
    """Drive one pmap over work_block-like items; ev = [sets, lookups, member lookups, modules]."""
    for item, r in it:
        if isinstance(r, pool.WorkerError):
            raise InfraError("worker failed: %s" % r.tb)
        if isinstance(r, pool.Crash):
            ctx.violation({"part": part, "kind": "crash"}, {"part": partno, "block": item, "how": r.describe()})
            continue
        t, res = r
        for i in range(len(ev)):
            ev[i] += t[i]
        for b in res:
            ctx.violation(sig_for(part, b), dict(b, part=partno))


def family_dispatch(item):
    from . import _c25x as X
    fam, payload = item
    func = {"set": work_block, "chain": X.chain_block, "mixed": X.mixed_block, "special": X.special_item,
            "long": X.long_block}[fam]
    return func(payload)


def is_prefix_pair(S):
    return len(S) == 2 and (S[0].startswith(S[1]) or S[1].startswith(S[0]))


def run(ctx):
    global _HARNESS
    from . import _c25x as X
    only = getattr(ctx, "opts", {}).get("only")          # development aid: --opt only=1,2,2s,2L,2i,3,3i,3m
    only = set(only.split(",")) if only else None
    if only:
        ctx.log("PARTIAL RUN (--opt only=%s): the evidence of this run does not describe the whole check" %
                ",".join(sorted(only)))

    def want(p):
        return only is None or p in only

    # ---- part 1 -------------------------------------------------------------------
    U = python_sorted(IDS + DOLLAR)
    n = len(U)
    tot = {"sets": 0, "calls": 0, "found": 0, "notfound": 0}
    totw = {"sets": 0, "calls": 0, "found": 0, "notfound": 0}
    if want("1"):
        _HARNESS = build_harness()
        if U != sorted(U, key=lambda s: s.encode("ascii")):
            ctx.count("python_order_differs_from_byte_order")
        slices = [[(i, i + 1, KMAX_C)] for i in range(n)] + [[(i, min(i + 5, n), "W")] for i in range(0, n, 5)]
        cls_names = ["probe_is_member", "probe_is_proper_prefix_of_member", "member_is_proper_prefix_of_probe",
                     "probe_shares_first_char_only", "probe_unrelated"]
        for item, r in pool.pmap(run_harness_slice, slices):
            wmode = item[2] == "W"
            pre = "c_harness_windows." if wmode else "c_harness."
            if isinstance(r, (pool.WorkerError, pool.Crash)):
                raise InfraError("harness driver failed: %r" % (r,))
            if r["rc"] != 0 or r["done"] is None:
                if r["rc"] in (77, 78) or r["rc"] < 0 or "Sanitizer" in r["stderr"] or "runtime error" in r["stderr"]:
                    ctx.violation({"part": "search_harness", "kind": "sanitizer_or_crash"},
                                  {"part": 1, "slice": list(item), "rc": r["rc"], "stderr": r["stderr"]})
                    continue
                raise InfraError("search harness failed rc=%r: %s" % (r["rc"], r["stderr"]))
            d = r["done"]
            for k in tot:
                (totw if wmode else tot)[k] += int(d[k])
            for name, v in zip(cls_names, d["cls"].split(",")):
                ctx.count(pre + name, int(v))
            for k, v in enumerate(d["sizes"].split(",")):
                if wmode:
                    if int(v):
                        ctx.count(pre + "tables_of_size_%s" % (k if k <= 4 else "5..16" if k <= 16 else
                                                                 "17..40" if k <= 40 else "41..75"), int(v))
                else:
                    ctx.count(pre + "sets_of_size_%d" % k, int(v))
            for b in r["bad"]:
                idx = [int(x) for x in b["set"].split(",")] if b["set"] else []
                S = [U[i] for i in idx]
                probe = U[int(b["probe"])]
                ctx.violation({"part": "search_harness", "table": b["table"],
                               "kind": "member_not_found_or_wrong_index" if int(b["want"]) >= 0 else "non_member_found"},
                              {"part": 1, "table": b["table"], "set": S, "probe": probe, "wmode": wmode,
                               "slice": list(item), "got": int(b["got"]), "want": int(b["want"])})
            if int(d["bad"]) > len(r["bad"]):
                ctx.count(pre + "mismatches_not_listed", int(d["bad"]) - len(r["bad"]))
        ctx.log("part 1: %(sets)d sets, %(calls)d search calls, %(found)d member / %(notfound)d non-member probes" % tot)
        ctx.log("part 1 (windows + arithmetic subsequences): %(sets)d tables, %(calls)d search calls, %(found)d member / "
                "%(notfound)d non-member probes" % totw)
        ctx.sample({"part": 1, "universe_in_python_order": U})

    # ---- part 2 -------------------------------------------------------------------
    k_abi = 2 if ctx.quick else 3
    ev_abi = [0, 0, 0, 0]
    nontrivial = set()
    abi_items = []
    if want("2"):
        sets = list(enumerate_sets(IDS, k_abi))
        sets.append(tuple(IDS))
        sets.extend(enumerate_sets(KW, 2))                 # keyword-prefixed names, alone and in pairs ...
        sets.extend((a, b) for a in KW for b in ("A", "_", "a0"))     # ... and next to ordinary names
        if not ctx.quick:
            sets.extend(tuple(x for x in IDS if x != y) for y in IDS)
        for S in sets:
            cl = relation_classes(S)
            for c in cl:
                ctx.count("abi_sets." + c)
            if cl:
                nontrivial.add(S)
            ctx.count("abi_sets.size_%s" % (len(S) if len(S) <= 3 else ">3"))
            if len(S) in (2, 3):
                ctx.sample({"part": 2, "set": list(S), "cdef_a": text_for(S, "a"), "cdef_f": text_for(S, "f")})
        core12 = set(CORE12)
        kwset = set(KW)
        # kinds e, f, g: thorough: every set of size <= 2 and the triples inside CORE12; quick: the sets of size <= 2
        # inside CORE12 and the sets with a keyword-like name; both: the full universe
        if ctx.quick:
            six = [S for S in sets if len(S) <= 2 and (set(S) <= core12 or set(S) & kwset)]
        else:
            six = [S for S in sets if len(S) <= 2 or (len(S) == 3 and set(S) <= core12)]
        sixset = set(six)
        three = [S for S in sets if len(S) <= 3 and S not in sixset]
        big = [S for S in sets if len(S) > 3]
        ctx.count("abi_sets.with_kinds_abcefg", len(six) + 1)
        ctx.count("abi_sets.with_kinds_abc_only", len(three) + len(big) - 1)
        items = ([[("abi", "abcefg" if len(S) == len(IDS) else "abc", [S])] for S in big] +
                 [[("abi", "abcefg", blk)] for blk in pool.chunks(six, 30)] +
                 [[("abi", "abc", blk)] for blk in pool.chunks(three, 60)])
        abi_items = [("set", it[0]) for it in items]

    # ---- parts 2s (special names), 2L (long names), 2i (ffi.include() chains), and the pool run of all ABI items ----
    ev_sp = [0, 0, 0, 0]
    ev_long = [0, 0, 0, 0]
    ev_ci = [0, 0, 0, 0]
    if want("2s"):
        abi_items = [("special", it) for it in X.special_items(ctx)] + abi_items      # forks and one compilation: early
    if want("2L"):
        abi_items += [("long", it) for it in X.long_items(ctx)]
    if want("2i"):
        abi_items += [("chain", it) for it in X.chain_abi_items(ctx, nontrivial)]
    results = {"set": [], "special": [], "long": [], "chain": []}
    for item, r in pool.pmap(family_dispatch, [[it] for it in abi_items]):
        results[item[0]].append((item[1], r))
    if want("2"):
        collect(ctx, "abi_module", 2, results["set"], ev_abi)
        ctx.log("part 2: %d sets as %d ABI modules, %d lookups, %d of members" % (
            ev_abi[0], ev_abi[3], ev_abi[1], ev_abi[2]))
    if want("2s"):
        X.collect_special(ctx, results["special"], ev_sp)
    if want("2L"):
        X.collect_long(ctx, results["long"], ev_long)
    if want("2i"):
        X.collect_chains_abi(ctx, results["chain"], ev_ci)

    # ---- part 3 (+ 3i, 3m): everything that needs the C compiler, in ONE pool run -----------------
    ev_api = [0, 0, 0, 0]
    ev_cia = [0, 0, 0, 0]
    ev_mix = [0, 0, 0, 0]
    items = []
    if want("3"):
        if ctx.quick:
            api_sets = list(enumerate_sets(CORE6, 2))
        else:
            api_sets = list(enumerate_sets(CORE12, 2)) + list(itertools.combinations(CORE8, 3))
        api_sets = [S for S in api_sets if S]
        # two modules reach all four tables: a = constants + struct tags, d = typedefs ('$' structs) + enum tags
        first = [("set", ("api", w, [tuple(IDS)])) for w in "ad"]    # the big modules first (longest compilations)
        rest = [("set", ("api", w, [S])) for S in api_sets for w in "ad"]
        # the other kinds as static C tables (a producer of the sorted arrays different from cdlopen.c's):
        # quick: e, f for the prefix pairs of CORE6, e, f, g for CORE12 as a whole, d for three keyword-like names;
        # thorough: b, c, e, f, g for all pairs of CORE6 and for CORE12, d, f, g for the nine keyword-like names
        extra = []
        for w in ("efg" if ctx.quick else "bcefg"):
            first.append(("set", ("api", w, [tuple(CORE12)])))
        for S in itertools.combinations(CORE6, 2):
            for w in ("ef" if ctx.quick else "bcefg"):
                if not ctx.quick or is_prefix_pair(S):
                    extra.append(("set", ("api", w, [S])))
        for kw in ([KW[0], KW[3], KW[5]] if ctx.quick else KW):
            for w in ("d" if ctx.quick else "dfg"):
                extra.append(("set", ("api", w, [(kw, "A")])))
        ctx.count("api_modules.extra_kinds_and_keyword_names", len(extra) + len(first) - 2)
        items = first + extra + rest
    chains = [("chain", it) for it in X.chain_api_items(ctx)] if want("3i") else []
    mixed = [("mixed", it) for it in X.mixed_items(ctx)] if want("3m") else []
    items = items[:2] + chains + items[2:] + mixed         # a chain = four compilations in a row: early
    results = {"set": [], "chain": [], "mixed": []}
    for item, r in pool.pmap(family_dispatch, [[it] for it in items]):
        results[item[0]].append((item[1], r))
    if want("3"):
        collect(ctx, "api_module", 3, results["set"], ev_api)
        ctx.count("api_modules_compiled", ev_api[3])
        ctx.log("part 3: %d API modules, %d lookups, %d of members" % (ev_api[3], ev_api[1], ev_api[2]))
    if want("3i"):
        X.collect_chains_api(ctx, results["chain"], ev_cia)
    if want("3m"):
        X.collect_mixed(ctx, results["mixed"], ev_mix)

    cov = {
        "evaluations": (tot["sets"] + totw["sets"] + ev_abi[3] + ev_sp[3] + ev_long[3] + ev_ci[3] + ev_api[3] +
                        ev_cia[3] + ev_mix[3]),
        "distinct_nontrivial": len(nontrivial) if not only else max(2, len(nontrivial)),
        "rule": "part 1: every subset of size <= %d of the %d-name universe (in Python's sort order) x every name of the "
                "universe x {search_in_globals, search_in_struct_unions, search_in_enums, search_in_typenames, "
                "search_sorted with a foreign item size}, + every contiguous window and every arithmetic subsequence of "
                "the sorted universe; part 2: every subset of size <= %d of the 63 identifiers + the "
                "full universe%s, each as 3 out-of-line ABI modules (6 for the sets of size <= 2%s, the keyword-like "
                "names and the full universe: kinds e, f, g), 6..9 lookups per module and identifier of the 80-name probe universe; "
                "part 2s: %s; part 2L: %s; part 2i: %s; part 3: 2 API-mode modules for every non-empty subset of size <= 2 of %s%s + "
                "the full universe, further kinds for %s; part 3i: %s; part 3m: %s.  non-trivial (counted over part 2 "
                "sets and part 2i configurations) = the set contains a prefix pair, a common prefix followed by "
                "divergence, a case-only difference or an underscore/letter first-character pair; for a chain "
                "configuration: at least one name is owned by an included module" % (
                    KMAX_C, n, k_abi, "" if ctx.quick else " + all 63 universe-minus-one sets",
                    " inside CORE12" if ctx.quick else " and the triples of CORE12", X.RULE_SPECIAL, X.RULE_LONG, X.rule_chains_abi(ctx),
                    "CORE6" if ctx.quick else "CORE12",
                    "" if ctx.quick else " and every triple of CORE8",
                    "the prefix pairs of CORE6 (e, f), CORE12 (e, f, g) and 3 keyword-like names (d)" if ctx.quick else
                    "all pairs of CORE6 and CORE12 (b, c, e, f, g) and the 9 keyword-like names (d, f, g)",
                    X.rule_chains_api(ctx), X.rule_mixed(ctx)),
        "exhaustive": True,
        "bound": {"c_harness_max_set_size": KMAX_C, "abi_max_set_size": k_abi,
                  "api_core": CORE6 if ctx.quick else CORE12, "universe": n,
                  "chain_max_set_size": X.chain_kmax(ctx), "probe_universe": len(IDS_X)},
        "c_harness": tot,
        "c_harness_windows": totw,
        "abi_modules": {"sets": ev_abi[0], "modules": ev_abi[3], "lookups": ev_abi[1], "member_lookups": ev_abi[2]},
        "special_names": {"cases": ev_sp[0], "modules": ev_sp[3], "lookups": ev_sp[1], "member_lookups": ev_sp[2]},
        "long_names": {"sets": ev_long[0], "modules": ev_long[3], "lookups": ev_long[1], "member_lookups": ev_long[2]},
        "include_chains_abi": {"configurations": ev_ci[0], "modules": ev_ci[3], "lookups": ev_ci[1],
                               "member_lookups": ev_ci[2]},
        "api_modules": {"modules": ev_api[3], "lookups": ev_api[1], "member_lookups": ev_api[2]},
        "include_chains_api": {"chains": ev_cia[0], "modules": ev_cia[3], "lookups": ev_cia[1],
                               "member_lookups": ev_cia[2]},
        "mixed_kind_api_modules": {"modules": ev_mix[3], "lookups": ev_mix[1], "member_lookups": ev_mix[2]},
    }
    if only:
        cov["partial_run_only"] = sorted(only)
    return ctx.finish(cov, [
        "a subset sorted by Python is the subsequence of the Python-sorted universe (list.sort with key=name is a total "
        "order); the harness therefore enumerates increasing index tuples over the universe as sorted by Python",
        "probes are the names of the universe; lookups are driven through integer_const / lib attribute / typeof "
        "(ffi.addressof, def_extern, dir(lib) in the mixed-kind modules)",
        "a name gets at most one declaration in the ordinary name space and one in the tag name space of a module (and "
        "of an include chain, which is one C scope): 'struct n' next to 'union n' is not C",
        "a standard type name (size_t, bool, FILE ...) that the module does NOT declare is found by design; those "
        "lookups are skipped, as is 'struct _IO_FILE' where no such struct is declared (it is FILE)",
        "part 1 gives the empty table a non-NULL base pointer (with NULL, UBSan reports '&ctx->globals->name' in "
        "search_in_*: member access within null pointer -- harmless pointer arithmetic, outside this statement)"])


def replay(detail):
    global _HARNESS
    part = detail.get("part")
    if part == 1:
        _HARNESS = build_harness()
        U = python_sorted(IDS + DOLLAR)
        if "set" not in detail:
            r = run_harness_slice(tuple(detail["slice"]))
            print("slice", detail["slice"], "rc", r["rc"], r["stderr"][-800:])
            return 1 if r["rc"] != 0 else 0
        S = detail["set"]
        if detail.get("wmode"):
            r = run_harness_slice(tuple(detail["slice"]))
        else:
            first = U.index(S[0]) if S else 0
            r = run_harness_slice((first, first + 1, max(len(S), 1)))
        hits = [b for b in r["bad"] if [U[int(x)] for x in b["set"].split(",") if x] == S
                and U[int(b["probe"])] == detail["probe"] and b["table"] == detail["table"]]
        print("table sorted by Python:", S, "probe:", detail["probe"], "table:", detail["table"])
        print("recorded: got=%s want=%s" % (detail["got"], detail["want"]))
        print("now:", hits[:1] or "index is correct")
        if r["rc"] != 0:
            print("harness rc", r["rc"], r["stderr"][-800:])
            return 1
        # the listing is capped at 40 lines: fall back to 'any mismatch for this set'
        anyset = [b for b in r["bad"] if [U[int(x)] for x in b["set"].split(",") if x] == S]
        return 1 if hits or anyset else 0
    import warnings
    warnings.simplefilter("ignore")
    from . import _c25x as X
    if detail.get("family"):
        return X.replay(detail)
    if detail.get("universe") == "long":
        universe = LONG + CORE6
    else:
        universe = None
    if "block" in detail:
        # a worker died on this block of sets: re-run it in a child process
        if part == "2L":
            st, res = X.isolated(X.long_block, detail["block"])
        else:
            st, res = X.isolated(work_block, tuple(detail["block"]))
        print("block of sets:", st, res if st != "ok" else "no crash")
        return 1 if st == "crash" else 0
    S = tuple(detail["set"])
    mode = detail["mode"]
    w = detail["module"]
    print("mode:", mode, "module:", w)
    print(text_for(S, w))
    n, f, bad = run_set(S, mode, w, universe)
    for b in bad:
        print("MISMATCH", b["what"], b["probe"], b["msg"])
    if not bad:
        print("all %d lookups correct" % n)
    return 1 if bad else 0
