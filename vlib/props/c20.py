"""C20 -- ffi.new zero-fills and initializes exactly like assignment.

E1: every struct/union whose field sequence has length <= 2 (thorough 3) over an
11-kind alphabet (char, short, int, double, pointer, char[3], int[2], nested
struct, nested union, bitfield, anonymous union), structs again with a trailing
flexible array (int[], char[], nested struct ending in char[]), plus T[3] and
T[] of every fixed-size aggregate; x initializers generated FROM the type
(every list/tuple prefix incl. one too long, dicts over all field subsets of
size <= 2 in both orders, bytes for char arrays, cdata of the same type, an int
length for the flexible array, alternatives of every field nested one level,
values that must be refused).
Oracle, three ways: bytes(buffer(new(T, init))) == bytes after p = new(T);
p[0] = init == bytes after storing every leaf the initializer denotes one by
one (p.f.g = v / p.a[i] = v) into zeroed memory; no initializer => all zero;
flexible array: requested allocation >= header + n*item, nothing written
outside it, sizeof(p[0]) == that size.

Families added after the audit round (all enumerated, same oracles):
 * tail kinds: wchar_t[], char16_t[], _Bool[], unsigned char[], double[], int *[], struct N[], int[][2] and
   a flexible struct nested two levels, each behind 0 or 1 header field; str initializers (one item per
   UTF-32 / UTF-16 unit + terminator), bytes for every 1-byte item type; lengths given as True, an
   __index__ object, a float (refused); tail lengths around the trailing padding (pad-1, pad, pad+1);
 * top-level forms of non-aggregates: T *, T[3], T[], T[2][2], T[][2] for 15 primitive kinds;
 * initializer object kinds: list / tuple / dict subclasses (namedtuple, OrderedDict, defaultdict), str-subclass
   and bytes dict keys, dicts over all fields, cdata leaves (short cdata for int, int[2] / void * / char * for
   int *), and objects whose acceptance the statement does not fix (range, bytearray, cdata array of another
   length): there only "both refuse or both give the same bytes" is demanded;
 * field kinds: anonymous struct, anonymous struct holding an anonymous union, 1-bit signed / unsigned / _Bool
   bitfields, a 64-bit bitfield, _Bool, unsigned / signed char, float, long long, enum, function pointer,
   wchar_t, struct N[2], int[2][2], int *[2], wchar_t[2], unsigned char[3];
 * front ends: out-of-line ABI module, cdef(packed=True) and cdef(pack=2), ctype object instead of type string,
   the default ffi.new_allocator(); poison() allocates with malloc (a non-clearing allocator) so that the chunks
   glibc caches per thread are dirty too.
Left out on purpose: long double / _Complex fields (the padding bytes of a long double are indeterminate, so two
correct stores need not give equal images), a Python-level C function as function-pointer leaf, memoryview /
array.array / generators as initializers (range and bytearray stand for the "not a list, tuple, dict or bytes"
class), unions with a flexible member.
"""
import itertools
import json
import os
import struct

from .. import pool
from ..build import InfraError

ID = "C20"
LEVEL = "exploration"
META = dict(
    engine="E1-enum", level="exploration",
    technique="exhaustive enumeration of small aggregate types x initializers derived from the type; ffi.new compared "
              "with assignment and with leaf-by-leaf stores",
    text="All structs and unions of <= 2 fields (thorough 3) over an 11-kind field alphabet, with and without a "
         "flexible tail, and arrays T[3] / T[] of them, are initialized with every initializer shape the type admits "
         "(list and tuple prefixes, one-too-long lists, dicts over all field subsets of size <= 2 in both insertion "
         "orders, bytes, same-type cdata, explicit lengths, nested alternatives, refused values).  The bytes of "
         "ffi.new(T, init) are compared with new(T) followed by p[0] = init and with an independent interpretation of "
         "the initializer as a list of leaf stores executed through field/index assignment on zeroed memory.  The heap "
         "is poisoned before every allocation so that missing zero-fill shows; a recording allocator with canaries "
         "shows the size really requested for flexible arrays and any write outside it.  Added families, same "
         "oracles: 9 further tail kinds (wchar_t[], char16_t[], _Bool[], unsigned char[], double[], int *[], "
         "struct N[], int[][2], a flexible struct nested two levels) behind 0 or 1 header fields with str / bytes / "
         "True / __index__ / float lengths and tail lengths on both sides of the trailing padding; the top-level "
         "forms T *, T[3], T[], T[2][2], T[][2] of 15 primitive kinds (char types get the extra null); list, tuple "
         "and dict subclasses, str-subclass and bytes keys, dicts over all fields, cdata leaves, and objects whose "
         "acceptance is not fixed by the statement (range, bytearray, cdata array of another length: both paths must "
         "refuse or give the same bytes); 17 further field kinds (anonymous structs, 1-bit and 64-bit bitfields, "
         "_Bool, float, long long, enum, function pointer, wide chars, arrays of structs / arrays / pointers) alone, "
         "paired with old kinds and with each other; every case additionally through the default "
         "ffi.new_allocator() and, on every second case, with a ctype object instead of the type string; the "
         "flexible types again through an out-of-line ABI module and under cdef(packed=True) / cdef(pack=2); "
         "zero-fill of large top-level arrays around the malloc thresholds (_large.py).  quick about 60 s on the "
         "loaded machine (dominated by the C compiler runs of the API-mode blocks), thorough about 3 min.",
    note="the leaf stores p.f = v / p.a[i] = v and ffi.offsetof are trusted (decided by C01-C03); for flexible-array "
         "types the reference object is allocated with the same array length before p[0] = init; wide-character "
         "strings are interpreted by the check itself (UTF-32 / UTF-16 units written as raw bytes)")

NAMED = """
struct N { char c; int i; };
union UU { int a; char b[5]; };
struct V { short h; char t[]; };
struct W { int x; struct V v; };
typedef int (*fp_t)(int);
enum E { EA, EB = 5, EC = -3 };
"""
API_PRELUDE = "#include <stddef.h>\n#include <uchar.h>\n"


def M(name):
    """a leaf value that only exists per FFI (resolved by Gen.leaf)"""
    return ("@", name)


# prim key -> (C type, bitfield width, valid values (first = primary), values that must be refused)
PRIMS = {
    "c": ("char", None, [b"A", b"\xff"], [b"AB", 65]),
    "h": ("short", None, [0x1234, -2], [70000, "x"]),
    "i": ("int", None, [0x12345678, -1, M("CAST_SHORT")], [1 << 31]),
    "d": ("double", None, [1.5, -0.0], ["x"]),
    "p": ("int *", None, [M("PTR"), M("NULL"), M("ARR"), M("VOIDP")], [5, M("CHARP")]),
    "b3": ("int", 3, [3, -4], [4]),
    # kinds added after the audit round
    "w": ("wchar_t", None, ["x", "€"], ["xy", b"x"]),
    "c16": ("char16_t", None, ["x", "€"], ["\U00010000", "xy"]),
    "c32": ("char32_t", None, ["x", "\U00010000"], ["xy"]),
    "B": ("_Bool", None, [1, True], [2]),
    "uc": ("unsigned char", None, [0xC8, 1], [256, -1]),
    "sc": ("signed char", None, [-3, 0x7f], [128]),
    "f": ("float", None, [0.1, -2.5], ["x"]),
    "q": ("long long", None, [0x123456789abcdef0, -2], [1 << 63]),
    "e": ("enum E", None, [5, -3], ["EB"]),
    "fp": ("fp_t", None, [M("FPTR"), M("NULL")], [5]),
    "u1": ("unsigned", 1, [1], [2, -1]),
    "s1": ("int", 1, [-1, 1], [2, -2]),
    "B1": ("_Bool", 1, [1], [2]),
    "q64": ("unsigned long long", 64, [0xfedcba9876543210], [1 << 64, -1]),
}
BYTE_ITEM = ("c", "uc", "sc", "B")          # arrays of these accept a bytes initializer
WIDE_ITEM = {"w": 4, "c16": 2, "c32": 4}    # arrays of these accept a str initializer; value = unit size


def P(k):
    return ("prim", k)


def ARR(e, n):
    return ("arr", e, n)


D_N = ("agg", "struct", "N", (("c", P("c"), True), ("i", P("i"), True)))
D_UU = ("agg", "union", "UU", (("a", P("i"), True), ("b", ARR(P("c"), 5), False)))
D_V = ("agg", "struct", "V", (("h", P("h"), True), ("t", ARR(P("c"), None), True)))
D_W = ("agg", "struct", "W", (("x", P("i"), True), ("v", D_V, True)))

KINDS = ["c", "h", "i", "d", "p", "c3", "i2", "N", "U", "b3", "AU"]
FLEXES = [None, "fi", "fc", "fV"]
# --- added families
NEWKINDS = ["AS", "ASU", "u1", "s1", "B1", "q64", "B", "uc", "f", "q", "e", "fp", "w", "N2", "i22", "p2", "w2", "uc3"]
BITKINDS = ["u1", "s1", "B1", "b3", "q64"]
NEWFLEXES = ["fw", "f16", "fB", "fu", "fd", "fpp", "fN", "f2", "fW"]
TOP_PRIMS = ["c", "h", "i", "d", "p", "w", "c16", "c32", "B", "uc", "sc", "f", "q", "e", "fp"]
FORMS_AGG = ("ptr", "arr3", "open")
FORMS_PRIM = ("ptr", "arr3", "open", "arr2x2", "openx2")
ANON_KINDS = ("AU", "AS", "ASU")     # out-of-line modules list the members of anonymous aggregates as plain fields
FLEX_ITEM = {"fi": "i", "fc": "c", "fw": "w", "f16": "c16", "fB": "B", "fu": "uc", "fd": "d", "fpp": "p"}


def kind_fields(kind, n):
    """[(field name, descriptor, takes part in positional init, C text)]"""
    if kind in ("c", "h", "i", "d", "B", "uc", "f", "q", "e", "fp", "w"):
        return [(n, P(kind), True, "%s %s;" % (PRIMS[kind][0], n))]
    if kind == "p":
        return [(n, P("p"), True, "int *%s;" % n)]
    if kind in ("b3", "u1", "s1", "B1", "q64"):
        return [(n, P(kind), True, "%s %s:%d;" % (PRIMS[kind][0], n, PRIMS[kind][1]))]
    if kind == "c3":
        return [(n, ARR(P("c"), 3), True, "char %s[3];" % n)]
    if kind == "i2":
        return [(n, ARR(P("i"), 2), True, "int %s[2];" % n)]
    if kind == "uc3":
        return [(n, ARR(P("uc"), 3), True, "unsigned char %s[3];" % n)]
    if kind == "w2":
        return [(n, ARR(P("w"), 2), True, "wchar_t %s[2];" % n)]
    if kind == "p2":
        return [(n, ARR(P("p"), 2), True, "int *%s[2];" % n)]
    if kind == "i22":
        return [(n, ARR(ARR(P("i"), 2), 2), True, "int %s[2][2];" % n)]
    if kind == "N2":
        return [(n, ARR(D_N, 2), True, "struct N %s[2];" % n)]
    if kind == "N":
        return [(n, D_N, True, "struct N %s;" % n)]
    if kind == "U":
        return [(n, D_UU, True, "union UU %s;" % n)]
    if kind == "AU":
        return [(n + "a", P("h"), True, "union { short %sa; char %sb; };" % (n, n)), (n + "b", P("c"), False, "")]
    if kind == "AS":
        # anonymous struct: all its members count in a positional initializer
        return [(n + "a", P("h"), True, "struct { short %sa; char %sb; };" % (n, n)), (n + "b", P("c"), True, "")]
    if kind == "ASU":
        return [(n + "a", P("c"), True, "struct { char %sa; union { short %sb; char %sc; }; };" % (n, n, n)),
                (n + "b", P("h"), True, ""), (n + "c", P("c"), False, "")]
    if kind in FLEX_ITEM:
        return [(n, ARR(P(FLEX_ITEM[kind]), None), True, "%s %s[];" % (PRIMS[FLEX_ITEM[kind]][0].rstrip(), n))]
    if kind == "fN":
        return [(n, ARR(D_N, None), True, "struct N %s[];" % n)]
    if kind == "f2":
        return [(n, ARR(ARR(P("i"), 2), None), True, "int %s[][2];" % n)]
    if kind == "fV":
        return [(n, D_V, True, "struct V %s;" % n)]
    if kind == "fW":
        return [(n, D_W, True, "struct W %s;" % n)]
    raise InfraError("unknown kind %r" % (kind,))


def build_type(spec, tag):
    """spec = (su, kinds, flex) -> (descriptor, C text); su == 'prim': the primitive kinds[0] itself"""
    su, kinds, flex = spec
    if su == "prim":
        return P(kinds[0]), ""
    fields = []
    text = []
    for j, k in enumerate(kinds):
        for fn, d, inctor, ctext in kind_fields(k, "f%d" % j):
            # union: only the first member is set by a sequence; if that member is an anonymous aggregate its own
            # members keep their flags (b_complete_struct_or_union: cfsrc->cf_flags | fflags)
            if su == "union" and j > 0:
                inctor = False
            fields.append((fn, d, inctor))
            if ctext:
                text.append("  " + ctext)
    if flex:
        for fn, d, inctor, ctext in kind_fields(flex, "tail"):
            fields.append((fn, d, inctor))
            text.append("  " + ctext)
    return ("agg", su, tag, tuple(fields)), "%s %s {\n%s\n};\n" % (su, tag, "\n".join(text))


def has_var(d):
    if d[0] == "arr":
        return d[2] is None
    if d[0] == "agg":
        return bool(d[3]) and has_var(d[3][-1][1])
    return False


def decl(d, inner=""):
    """C type string of descriptor d around the declarator text 'inner' ('' / ' *' / '(*)')."""
    if d[0] == "arr":
        return decl(d[1], "%s[%s]" % (inner, "" if d[2] is None else d[2]))
    if d[0] == "prim":
        return PRIMS[d[1]][0] + inner
    return "%s %s%s" % (d[1], d[2], inner)


def ctype_name(d):
    return decl(d)


array_decl = decl


def form_top(d, form):
    if form == "ptr":
        return d
    if form == "arr3":
        return ARR(d, 3)
    if form == "open":
        return ARR(d, None)
    if form == "arr2x2":
        return ARR(ARR(d, 2), 2)
    if form == "openx2":
        return ARR(ARR(d, 2), None)
    raise InfraError("unknown form %r" % (form,))


# ---------------------------------------------------------------------------- initializers

class IndexObj(object):
    def __init__(self, n):
        self.n = n

    def __index__(self):
        return self.n

    def __repr__(self):
        return "IndexObj(%d)" % self.n


class ListSub(list):
    pass


class StrSub(str):
    pass


def _listsub(xs):
    return ListSub(xs)


def _ntuple(xs):
    import collections
    return collections.namedtuple("NT", ["x%d" % i for i in range(len(xs))])(*xs)


_listsub.__name__ = "listsub"
_ntuple.__name__ = "namedtuple"


class Cand(object):
    __slots__ = ("obj", "writes", "bad", "var", "shape", "free")

    def __init__(self, obj, writes, bad=False, var=None, shape="", free=False):
        self.obj = obj          # the initializer object
        self.writes = writes    # [(path, leaf value | ("raw", bytes))] in order
        self.bad = bad          # must be refused on both paths
        self.var = var          # sizing of the flexible part: int (items) for an array, dict for a struct, or None
        self.shape = shape
        self.free = free        # the statement does not say whether this object is an initializer at all:
        #                         only "all paths refuse, or all accept and leave the same bytes" is demanded


class Gen(object):
    def __init__(self, ffi):
        self.ffi = ffi
        self.keep = []
        self.ptr = ffi.cast("int *", 0x1122334455667788)
        self.arr2 = ffi.new("int[2]")
        fptr = ffi.cast("fp_t", 0x11223344)
        # marker -> (initializer object, value for the leaf store)
        self.marks = {
            "PTR": (self.ptr, self.ptr),
            "NULL": (ffi.NULL, ffi.NULL),
            "ARR": (self.arr2, ffi.cast("int *", self.arr2)),              # array cdata for a pointer leaf
            "VOIDP": (ffi.cast("void *", 0x1020304050607080), ffi.cast("int *", 0x1020304050607080)),
            "CHARP": (ffi.cast("char *", 0x1020), None),                   # refused for 'int *'
            "CAST_SHORT": (ffi.cast("short", -2), -2),                      # integer cdata for an int leaf
            "FPTR": (fptr, fptr),
        }
        self.dflt = ffi.new_allocator()
        self.raw = ffi.new_allocator(should_clear_after_alloc=False)      # malloc without memset, for poison()

    def leaf(self, v):
        if isinstance(v, tuple) and len(v) == 2 and v[0] == "@":
            return self.marks[v[1]]
        return v, v

    def primary(self, d):
        return self.alts(d, -1)[0]

    def alts(self, d, depth):
        """Initializer candidates for a value of type d.  depth < 0: only the primary one;
        depth == 0: all shapes with primary values inside; depth == 1: additionally every
        alternative of every member."""
        if d[0] == "prim":
            ctype, bw, good, bad = PRIMS[d[1]]
            out = []
            for v in good:
                o, st = self.leaf(v)
                out.append(Cand(o, [((), st)], shape="leaf"))
            if depth < 0:
                return out[:1]
            return out + [Cand(self.leaf(v)[0], None, bad=True, shape="bad-leaf") for v in bad]
        if d[0] == "arr":
            return self.arr_alts(d, depth)
        return self.agg_alts(d, depth)

    # ---- pieces of array initializers
    def lst(self, d, k, conv=list, bad=False):
        pe = self.primary(d[1])
        w = []
        for i in range(k):
            w += [((i,) + p, v) for p, v in pe.writes]
        return Cand(conv([pe.obj] * k), None if bad else w, bad=bad, var=k if d[2] is None else None,
                    shape="%s[%d]" % (conv.__name__, k) + ("-too-long" if bad else ""))

    def bytes_cand(self, d, s):
        """bytes for an array of 1-byte items: one item per byte, a terminator if there is room"""
        L = d[2]
        ek = d[1][1]
        if L is not None and len(s) > L:
            return Cand(s, None, bad=True, shape="bytes-too-long")
        w = [((i,), s[i:i + 1] if ek == "c" else s[i]) for i in range(len(s))]
        if L is None or len(s) < L:
            w.append(((len(s),), b"\x00" if ek == "c" else 0))
        if L is None:
            return Cand(s, w, var=len(s) + 1, shape="bytes")
        return Cand(s, w, shape="bytes-exact" if len(s) == L else "bytes-shorter")

    def str_cand(self, d, s):
        """str for an array of wide characters: one item per UTF-32 (4-byte items) or UTF-16 (2-byte items)
        unit, a terminator if there is room; written as raw bytes by the leaf oracle"""
        L = d[2]
        wide = WIDE_ITEM[d[1][1]]
        units = []
        for ch in s:
            o = ord(ch)
            if wide == 2 and o > 0xffff:
                o -= 0x10000
                units += [0xd800 | (o >> 10), 0xdc00 | (o & 0x3ff)]
            else:
                units.append(o)
        fmt = "<H" if wide == 2 else "<I"
        if L is not None and len(units) > L:
            return Cand(s, None, bad=True, shape="str-too-long")
        w = [((i,), ("raw", struct.pack(fmt, u))) for i, u in enumerate(units)]
        if L is None or len(units) < L:
            w.append(((len(units),), ("raw", struct.pack(fmt, 0))))
        if L is None:
            return Cand(s, w, var=len(units) + 1, shape="str")
        return Cand(s, w, shape="str-exact" if len(units) == L else "str-shorter")

    @staticmethod
    def bytes_pattern(ek):
        return b"\x01\x00\x01\x01\x01\x00\x01\x01\x01\x01\x01\x01" if ek == "B" else b"xyzvwutsrqpo"

    STRS = ["", "a", "a€", "a€z", "a€zq", "\U00010000", "a\U00010000", "z\U00010000€",
            "\U00010000\U00010001"]

    def arr_alts(self, d, depth):
        ffi = self.ffi
        e, L = d[1], d[2]
        ek = e[1] if e[0] == "prim" else None
        bytes_ok = ek in BYTE_ITEM
        wide = ek in WIDE_ITEM
        out = []

        def lst(k, conv=list, bad=False):
            return self.lst(d, k, conv, bad)
        if L is None:
            # flexible / open array: its own length comes from the initializer
            out.append(lst(2))
            if depth < 0:
                return out[:1]
            out += [lst(0), lst(1), lst(3, tuple), lst(2, _listsub)]
            for n in (0, 2):
                out.append(Cand(n, [], var=n, shape="int-length"))
            out.append(Cand(True, [], var=1, shape="int-length-bool"))
            out.append(Cand(IndexObj(2), [], var=2, shape="int-length-index"))
            out.append(Cand(2.0, None, bad=True, shape="float-length"))
            if bytes_ok:
                pat = self.bytes_pattern(ek)
                for k in (0, 2):
                    out.append(self.bytes_cand(d, pat[:k]))
                out.append(Cand(bytearray(b"\x01"), None, free=True, shape="free-bytearray"))
                if ek == "B":
                    out.append(Cand(b"\x01\x02", None, bad=True, shape="bytes-bool-out-of-range"))
                out.append(Cand("ab", None, bad=True, shape="str-for-non-wide"))
            elif wide:
                for s in ("", "a€", "a\U00010000"):
                    out.append(self.str_cand(d, s))
                out.append(Cand(b"ab", None, bad=True, shape="bytes-for-non-char"))
            out.append(Cand(-1, None, bad=True, shape="negative-length"))
            out.append(Cand(range(1), None, free=True, shape="free-range"))
            if depth >= 1 and e[0] != "prim":
                for a in self.alts(e, depth - 1)[1:]:
                    if a.var is None and not a.free:
                        out.append(Cand([a.obj], None if a.bad else [((0,) + p, v) for p, v in a.writes], bad=a.bad,
                                        var=1, shape="list[%s]" % a.shape))
            return out
        out.append(lst(L))
        if depth < 0:
            return out[:1]
        for k in range(L):
            out.append(lst(k))
        out.append(lst(L, tuple))
        out.append(lst(L, _listsub))
        out.append(lst(L, _ntuple))
        out.append(lst(L + 1, bad=True))
        if bytes_ok:
            pat = self.bytes_pattern(ek)
            for k in range(L + 2):
                out.append(self.bytes_cand(d, pat[:k]))
            out.append(Cand(bytearray(b"\x01"), None, free=True, shape="free-bytearray"))
            if ek == "B":
                out.append(Cand(b"\x02", None, bad=True, shape="bytes-bool-out-of-range"))
            out.append(Cand("ab", None, bad=True, shape="str-for-non-wide"))
        else:
            out.append(Cand(b"xy", None, bad=True, shape="bytes-for-non-char"))
        if wide:
            for s in self.STRS:
                out.append(self.str_cand(d, s))
        out.append(Cand(range(1), None, free=True, shape="free-range"))
        nbytes = ffi.sizeof(decl(d))
        blk = ffi.new("char[]", nbytes)
        src = ffi.cast(decl(d, "(*)"), blk)[0]
        store_leaves(ffi, src, decl(d), lst(L).writes)
        self.keep.append(blk)
        out.append(Cand(src, [((), ("raw", bytes(ffi.buffer(blk))))], shape="cdata-same-type"))
        other = ffi.new(decl(ARR(e, L + 1)))
        self.keep.append(other)
        out.append(Cand(other, None, free=True, shape="free-cdata-other-length"))
        if depth >= 1 and e[0] != "prim":
            for a in self.alts(e, depth - 1)[1:]:
                if a.var is not None or a.free:
                    continue
                out.append(Cand([a.obj], None if a.bad else [((0,) + p, v) for p, v in a.writes], bad=a.bad,
                                shape="list[%s]" % a.shape))
        return out

    def pad_cands(self, d):
        """extra initializers for a directly contained flexible array: item counts on both sides of the trailing
        padding of the enclosing struct (the sizing pass starts from sizeof = offset of the tail + padding)"""
        ffi = self.ffi
        fn, fd, _ = d[3][-1]
        if not (fd[0] == "arr" and fd[2] is None):
            return []
        tn = ctype_name(d)
        isz = ffi.sizeof(decl(fd[1]))
        pad = ffi.sizeof(tn) - ffi.offsetof(tn, fn)
        if pad <= 0:
            return []
        ek = fd[1][1] if fd[1][0] == "prim" else None
        top = -(-pad // isz)
        out = []
        for k in sorted(set([max(top - 1, 0), top, top + 1])):
            if k > 3:
                out.append(self.lst(fd, k))
            if k not in (0, 2):
                c = Cand(k, [], var=k, shape="int-length")
                out.append(c)
            if k >= 1 and k - 1 not in (0, 2):
                if ek in BYTE_ITEM:
                    out.append(self.bytes_cand(fd, self.bytes_pattern(ek)[:k - 1]))
                elif ek in WIDE_ITEM:
                    out.append(self.str_cand(fd, "abcdefghijkl"[:k - 1]))
        for c in out:
            c.shape = "pad:" + c.shape
        return out

    def agg_alts(self, d, depth):
        import collections
        ffi = self.ffi
        su, tag, fields = d[1], d[2], d[3]
        ctor = [f for f in fields if f[2]]
        prim = {f[0]: self.primary(f[1]) for f in fields}
        lastname = fields[-1][0]
        out = []

        def pref(fn, c):
            return [((fn,) + p, v) for p, v in c.writes]

        def var_of(names, cands):
            for fn, c in zip(names, cands):
                if fn == lastname and c.var is not None:
                    return {fn: c.var}
            return None

        def seq(k, conv=list):
            names = [f[0] for f in ctor[:k]]
            cs = [prim[n] for n in names]
            w = []
            for n, c in zip(names, cs):
                w += pref(n, c)
            return Cand(conv([c.obj for c in cs]), w, var=var_of(names, cs), shape="%s-prefix-%d" % (conv.__name__, k))

        def dct(names_, conv=dict, shape=None, key=None):
            cs = [prim[n] for n in names_]
            w = []
            for n, c in zip(names_, cs):
                w += pref(n, c)
            return Cand(conv([((key(n) if key else n), c.obj) for n, c in zip(names_, cs)]), w,
                        var=var_of(names_, cs), shape=shape or "dict-%d" % len(names_))
        out.append(seq(len(ctor)))
        if depth < 0:
            return out[:1]
        for k in range(len(ctor)):
            out.append(seq(k))
        out.append(seq(len(ctor), tuple))
        out.append(seq(len(ctor), _listsub))
        out.append(seq(len(ctor), _ntuple))
        out.append(Cand([c.obj for c in (prim[f[0]] for f in ctor)] + [0], None, bad=True, shape="list-too-long"))
        names = [f[0] for f in fields]
        out.append(Cand({}, [], shape="dict-0"))
        for n in names:
            out.append(dct([n]))
        for a, b in itertools.permutations(names, 2):
            out.append(dct([a, b]))
        if len(names) > 2:
            out.append(dct(names, shape="dict-all"))
            out.append(dct(names[::-1], shape="dict-all-reversed"))
        out.append(dct(names[:1], collections.OrderedDict, "ordereddict-1"))
        out.append(dct(names[-1:], lambda kv: collections.defaultdict(int, kv), "defaultdict-1"))
        out.append(dct(names[:1], shape="dict-strsub-key", key=StrSub))
        out.append(Cand({names[0].encode(): prim[names[0]].obj}, None, bad=True, shape="dict-bytes-key"))
        out.append(Cand({"nosuchfield": 1}, None, bad=True, shape="dict-unknown-key"))
        out.append(Cand(5, None, bad=True, shape="int-for-aggregate"))
        out.append(Cand(range(1), None, free=True, shape="free-range"))
        # a cdata of the same type
        full = seq(len(ctor))
        fixed = ffi.sizeof(ctype_name(d))
        blk = ffi.new("char[]", max(fixed, needed_size(ffi, d, full.var)))
        srcp = ffi.cast(ctype_name(d) + " *", blk)
        store_leaves(ffi, srcp, ctype_name(d), full.writes)     # built without any initializer machinery
        self.keep.append(blk)
        out.append(Cand(srcp[0], [((), ("raw", bytes(ffi.buffer(blk))[:fixed]))], shape="cdata-same-type"))
        if depth >= 1:
            extra = self.pad_cands(d)
            for pos, f in enumerate(fields):
                fn = f[0]
                more = extra if pos == len(fields) - 1 else []
                for a in self.alts(f[1], depth - 1)[1:] + more:
                    v = var_of([fn], [a])
                    out.append(Cand({fn: a.obj}, None if (a.bad or a.free) else pref(fn, a), bad=a.bad, var=v,
                                    free=a.free, shape="dict{%s}" % a.shape))
                    if f[2]:
                        k = ctor.index(f)
                        before = [prim[g[0]] for g in ctor[:k]]
                        w = []
                        for g, c in zip(ctor[:k], before):
                            w += pref(g[0], c)
                        out.append(Cand([c.obj for c in before] + [a.obj],
                                        None if (a.bad or a.free) else w + pref(fn, a),
                                        bad=a.bad, var=v, free=a.free, shape="list[..,%s]" % a.shape))
        return out


# ---------------------------------------------------------------------------- execution

def describe(ffi, o):
    """repr() without addresses (deterministic, usable to find the case again in replay)."""
    if isinstance(o, ffi.CData):
        return "<cdata '%s'>" % ffi.typeof(o).cname
    if isinstance(o, list):
        return "[%s]" % ", ".join(describe(ffi, x) for x in o)
    if isinstance(o, tuple):
        return "(%s)" % ", ".join(describe(ffi, x) for x in o)
    if isinstance(o, dict):
        return "{%s}" % ", ".join("%r: %s" % (k, describe(ffi, v)) for k, v in o.items())
    return repr(o)


def needed_size(ffi, d, var):
    """Bytes the flexible part needs: header + n * item (recursively for a nested struct)."""
    if var is None:
        return 0
    tn = ctype_name(d)
    fn, fd, _ = d[3][-1]
    off = ffi.offsetof(tn, fn)
    v = var[fn]
    if fd[0] == "arr":
        return off + v * ffi.sizeof(decl(fd[1]))
    return off + max(ffi.sizeof(ctype_name(fd)), needed_size(ffi, fd, v))


_CHAR_ARRAY = {}


def poison(ffi, nbytes, alloc=None):
    """Leave dirty free chunks of about the size the next allocation will ask for.  'alloc': a non-clearing
    allocator (malloc): unlike calloc it takes the chunks cached per thread by glibc, so that chunks which were
    clean when they were cached are made dirty as well (otherwise what a malloc without memset returns depends
    on the history of the process)."""
    blocks = []
    new = alloc or ffi.new
    ct = _CHAR_ARRAY.get(id(ffi))
    if ct is None:
        _CHAR_ARRAY.clear()
        ct = _CHAR_ARRAY[id(ffi)] = (ffi, ffi.typeof("char[]"))     # (the ffi is kept alive with its id)
    ct = ct[1]
    buf = ffi.buffer
    for d in (-16, 0, 16, 32):
        n = nbytes + d
        if n <= 0:
            continue
        ff = b"\xff" * n
        for _ in range(9):
            b = new(ct, n)
            buf(b)[:] = ff
            blocks.append(b)
    del blocks


def store_leaves(ffi, root, toptype, writes):
    base = ffi.cast("char *", root)
    for path, v in writes:
        if isinstance(v, tuple) and v and v[0] == "raw":
            off = ffi.offsetof(toptype, *path) if path else 0
            ffi.buffer(base + off, len(v[1]))[:] = v[1]
            continue
        if not path:            # a primitive behind a pointer
            root[0] = v
            continue
        obj = root
        for step in path[:-1]:
            obj = getattr(obj, step) if isinstance(step, str) else obj[step]
        last = path[-1]
        if isinstance(last, str):
            setattr(obj, last, v)
        else:
            obj[last] = v


def attempt(fn):
    try:
        return ("ok", fn())
    except Exception as e:
        return ("exc", "%s: %s" % (type(e).__name__, e))


class Recorder(object):
    """An allocator that records the size asked for and surrounds it with canaries."""
    GUARD = 32

    def __init__(self, ffi):
        self.ffi = ffi
        self.last = None
        self.new = ffi.new_allocator(alloc=self.alloc, free=None, should_clear_after_alloc=True)

    def alloc(self, size):
        ffi = self.ffi
        blk = ffi.new("char[]", size + 2 * self.GUARD)
        ffi.buffer(blk)[:] = b"\xee" * (size + 2 * self.GUARD)
        self.last = (blk, size)
        return blk + self.GUARD

    def result(self):
        blk, size = self.last
        raw = bytes(self.ffi.buffer(blk))
        g = self.GUARD
        return size, raw[g:g + size], raw[:g] == b"\xee" * g and raw[g + size:] == b"\xee" * g


def shape_class(shape):
    return shape.split("[")[0].split("{")[0]


def run_type(ffi, gen, rec, d, form, counts):
    """form: 'ptr' (new('T *', init)), 'arr3' (new('T[3]', init)), 'open' (new('T[]', init)), 'arr2x2'
    (new('T[2][2]', init)), 'openx2' (new('T[][2]', init)).  Returns list of (sig, detail-without-type)."""
    probs = []
    tn = ctype_name(d)
    isvar = has_var(d)
    isagg = d[0] == "agg"
    isopen = form.startswith("open")
    ncases = 0

    def count(k):
        counts[k] = counts.get(k, 0) + 1

    top = form_top(d, form)
    if form == "ptr":
        newtype = decl(d, " *")
        fixed = ffi.sizeof(tn)
    else:
        newtype = decl(top)
        fixed = None if isopen else ffi.sizeof(newtype)
    cands = gen.alts(top, 1)
    ctobj = ffi.typeof(newtype)

    # no initializer: all zero
    if not isopen:
        poison(ffi, fixed, gen.raw)
        a = ffi.new(newtype)
        img = bytes(ffi.buffer(a))
        count("no_init")
        ncases += 1
        if img != bytes(fixed):
            probs.append(({"kind": "not_zero_without_initializer", "form": form}, {"shape": "no-init", "init": "<none>", "form": form, "image": img}))
        b = gen.dflt(newtype)
        img = bytes(ffi.buffer(b))
        if img != bytes(fixed):
            probs.append(({"kind": "not_zero_without_initializer", "form": form, "allocator": "default"},
                          {"shape": "no-init", "init": "<none>", "form": form, "image": img}))

    for ci, c in enumerate(cands):
        ncases += 1
        count("init_" + ("free" if c.free else "refused" if c.bad else "accepted"))
        count("shape:" + shape_class(c.shape))
        if c.shape.startswith(("dict{", "list[")) and c.shape[-1] in "}]":
            count("member_shape:" + shape_class(c.shape[5:-1].replace("..,", "")))
        det = {"shape": c.shape, "init": describe(ffi, c.obj), "form": form}
        # --- sizes
        if isopen:
            n = c.var if c.var is not None else 0
            sized = ARR(top[1], n)
            fixed_c = n * ffi.sizeof(decl(top[1]))
            reftype = decl(sized, "(*)")
            toptype = decl(sized)
            need = fixed_c
        elif form == "ptr":
            fixed_c = fixed
            reftype = newtype
            toptype = tn
            need = max(fixed, needed_size(ffi, d, c.var)) if isvar else fixed
        else:
            fixed_c = fixed
            reftype = decl(top, "(*)")
            toptype = newtype
            need = fixed
        # --- path 1: ffi.new with the initializer (heap poisoned first); every second case with the ctype object
        newarg = ctobj if ci % 2 else newtype
        if ci % 2:
            count("new_with_ctype_object")
        poison(ffi, need, gen.raw)
        r1 = attempt(lambda: ffi.new(newarg, c.obj))
        # --- path 1b: the same through a recording allocator
        rec.last = None
        r1b = attempt(lambda: rec.new(newtype, c.obj))
        # --- path 1c: the same through the default allocator object
        r1c = attempt(lambda: gen.dflt(newarg, c.obj))
        # --- path 2: allocate (same flexible length), zero, assign
        G = 32
        room = need + (256 if (c.bad or c.free) else 0)

        def ref_object():
            blk = ffi.new("char[]", room + 2 * G)
            ffi.buffer(blk)[:] = b"\xee" * G + bytes(room) + b"\xee" * G
            return blk, ffi.cast(reftype, blk + G)

        def ref_image(blk):
            raw = bytes(ffi.buffer(blk))
            return raw[G:G + room], raw[:G] == b"\xee" * G and raw[G + room:] == b"\xee" * G
        blk2, p2 = ref_object()

        def assign():
            if not (isopen and c.shape.startswith("int-length")):    # 'p[0] = 3' is not an array initializer
                p2[0] = c.obj
            return p2
        r2 = attempt(assign)
        named = (("new", r1), ("assignment", r2), ("new_allocator", r1b), ("default_allocator", r1c))
        if c.bad:
            acc = [n for n, r in named if r[0] == "ok"]
            if acc:
                probs.append(({"kind": "refused_value_accepted", "by": acc, "shape": shape_class(c.shape)},
                              dict(det, outcomes=[r[0] for _, r in named])))
            continue
        if c.free and all(r[0] == "exc" for _, r in named):
            count("free_refused_by_all_paths")
            continue
        if any(r[0] != "ok" for _, r in named):
            sig = {"kind": "paths_disagree_on_acceptance", "new": r1[0], "assignment": r2[0], "new_allocator": r1b[0]}
            if r1c[0] != r1[0]:
                sig["default_allocator"] = r1c[0]
            if c.free:
                sig["free_form"] = shape_class(c.shape)
            if isvar and c.shape == "cdata-same-type" and r1[0] == "exc" and r2[0] == "ok":
                sig = {"kind": "paths_disagree_on_acceptance",
                       "cause": "cdata_initializer_for_struct_with_flexible_array"}
            probs.append((sig, dict(det, **{n: (r[1] if r[0] == "exc" else "ok") for n, r in named})))
            continue
        a = r1[1]
        img1 = bytes(ffi.buffer(a))
        img1c = bytes(ffi.buffer(r1c[1]))
        img2, intact2 = ref_image(blk2)
        if not intact2:
            probs.append(({"kind": "write_outside_object", "path": "assignment", "form": form, "var": isvar},
                          dict(det, size=need)))
        if c.free:
            # accepted by every path: the bytes must agree (no leaf interpretation is claimed for these objects)
            count("free_accepted_by_all_paths")
            rsize, rimg, intact = rec.result()
            if not (img1 == img1c == img2[:len(img1)]) or rimg[:len(img1)] != img1 or not intact:
                probs.append(({"kind": "image_mismatch", "which": "free-form initializer", "form": form, "var": isvar,
                               "shape": shape_class(c.shape)}, dict(det, new=img1, assign=img2, new_allocator=rimg)))
            continue
        # --- path 3: leaf stores into zeroed memory
        blk3, p3 = ref_object()
        r3 = attempt(lambda: store_leaves(ffi, p3[0] if form != "ptr" else p3, toptype, c.writes))
        img3, intact3 = ref_image(blk3)
        if r3[0] != "ok" or not intact3:
            raise InfraError("leaf stores failed for %s %s: %s" % (newtype, det["init"], r3[1]))
        if isopen and len(a) != n:
            probs.append(({"kind": "open_array_length", "form": form}, dict(det, got=len(a), want=n)))
            continue
        if not (img1 == img2 == img3):
            which = "new!=assign" if img1 != img2 else "assign!=leaves"
            if img1 != img2 and img2 == img3:
                which = "new differs"
            elif img1 == img3 and img1 != img2:
                which = "assignment differs"
            elif img1 == img2:
                which = "new and assignment differ from the leaf stores"
            probs.append(({"kind": "image_mismatch", "which": which, "form": form, "var": isvar,
                           "shape": shape_class(c.shape)},
                          dict(det, new=img1, assign=img2, leaves=img3)))
        if img1c != img1:
            probs.append(({"kind": "image_mismatch", "which": "default new_allocator differs", "form": form,
                           "var": isvar, "shape": shape_class(c.shape)}, dict(det, new=img1, default_allocator=img1c)))
        # --- the recording allocator: size asked for, canaries, content
        rsize, rimg, intact = rec.result()
        if not intact:
            probs.append(({"kind": "write_outside_allocation", "form": form, "var": isvar}, dict(det, requested=rsize)))
        if rsize < need:
            probs.append(({"kind": "allocation_too_small", "form": form, "var": isvar},
                          dict(det, requested=rsize, needed=need)))
        elif rimg[:len(img2)] != img2 or any(rimg[len(img2):]):
            probs.append(({"kind": "image_mismatch", "which": "new_allocator differs", "form": form, "var": isvar,
                           "shape": shape_class(c.shape)}, dict(det, new_allocator=rimg, assign=img2)))
        if not isagg and rsize > need:
            count("extra_null_item_after_char_pointer")
        if form == "ptr" and isagg:
            s = ffi.sizeof(a[0])
            if isvar:
                count("flex_init_with_length" if c.var is not None else "flex_init_without_length")
                count("flex_size_exact" if s == need else "flex_size_larger")
                if need > fixed:
                    count("flex_grows_allocation")
                if c.shape.startswith(("dict{pad:", "list[..,pad:")):
                    count("flex_tail_ends_%s_padding" % ("inside" if need <= fixed else "beyond"))
            if s != len(img1) or s < need:
                probs.append(({"kind": "sizeof_disagrees_with_allocation", "var": isvar},
                              dict(det, sizeof=s, buffer=len(img1), needed=need)))
    return probs, ncases, len(cands)


def make_ffi(mode, pairs):
    """One FFI declaring NAMED and the types of pairs = [(idx, spec)].  mode: 'INL' in-line; 'PACK' in-line
    with cdef(packed=True); 'PACK2' with cdef(pack=2); 'API' the ffi of a compiled API-mode module declaring the same types (struct types
    are realised lazily from the generated tables); 'ABI' the ffi of an out-of-line ABI-mode module."""
    import cffi
    ffi = cffi.FFI()
    built = []
    text = [NAMED]
    for idx, spec in pairs:
        d, t = build_type(spec, "a%d" % idx)
        built.append((idx, spec, d))
        text.append(t)
    if mode == "PACK":
        ffi.cdef("".join(text), packed=True)
    elif mode == "PACK2":
        ffi.cdef("".join(text), pack=2)
    else:
        ffi.cdef("".join(text))
    if mode in ("API", "ABI"):
        import importlib.util
        from .. import build as _b
        name = "_c20%s_%d_%d" % (mode.lower(), os.getpid(), pairs[0][0])
        d_ = os.path.join(_b.scratch(), name)
        os.makedirs(d_, exist_ok=True)
        if mode == "API":
            ffi.set_source(name, API_PRELUDE + "".join(text), extra_compile_args=["-O0", "-g0", "-w"])
            path = ffi.compile(tmpdir=d_, verbose=False)
        else:
            import contextlib
            import io
            ffi.set_source(name, None)
            path = os.path.join(d_, name + ".py")
            with contextlib.redirect_stdout(io.StringIO()):     # recompile() prints "generating ..."
                ffi.emit_python_code(path)
        spec_ = importlib.util.spec_from_file_location(name, path)
        mod = importlib.util.module_from_spec(spec_)
        spec_.loader.exec_module(mod)
        ffi = mod.ffi
    return ffi, built


def work(block):
    """block: [mode, (index, spec, forms), ...].  One FFI for the whole block (see make_ffi)."""
    mode = block[0]
    items = block[1:]
    ffi, built = make_ffi(mode, [(idx, spec) for idx, spec, _ in items])
    gen = Gen(ffi)
    rec = Recorder(ffi)
    counts = {}
    bad = []
    ncases = 0
    nontriv = 0
    for (idx, spec, d), (_, _, forms) in zip(built, items):
        for form in forms:
            probs, n, ninit = run_type(ffi, gen, rec, d, form, counts)
            ncases += n
            nontriv += ninit
            k = "type_" + form + ("_flex" if has_var(d) else "") + "_" + spec[0]
            counts[k] = counts.get(k, 0) + 1
            for sig, det in probs:
                if mode != "INL":
                    sig = dict(sig, mode=mode)
                det = dict(det, spec=spec, idx=idx, mode=mode)
                bad.append((sig, det))
        gen.keep = []
    # keep the reply small
    agg = {}
    for sig, det in bad:
        key = json.dumps(sig, sort_keys=True)
        ent = agg.setdefault(key, [sig, 0, []])
        ent[1] += 1
        if len(ent[2]) < 3:
            ent[2].append(det)
    return len(built), ncases, nontriv, counts, list(agg.values())


def enumerate_specs(quick):
    depth = 2 if quick else 3
    out = []
    for su in ("struct", "union"):
        for n in range(1, depth + 1):
            for kinds in itertools.product(KINDS, repeat=n):
                for flex in (FLEXES if su == "struct" else [None]):
                    if flex and n > 2:
                        continue
                    out.append((su, kinds, flex))
    return out


def spec_forms(spec, quick):
    su, kinds, flex = spec
    if su == "prim":
        return FORMS_PRIM
    if flex:
        return ("ptr",)
    return FORMS_AGG


def enumerate_extra(quick):
    """The families added after the audit round: [(family, spec, forms)]."""
    out = []
    seen = set(enumerate_specs(quick))

    def add(fam, spec, forms=None):
        if spec in seen:
            return
        seen.add(spec)
        out.append((fam, spec, forms or spec_forms(spec, quick)))
    # 1. item kinds of the flexible tail, behind 0 or 1 header fields (thorough: also 2 headers over 4 kinds)
    for flex in FLEXES[1:] + NEWFLEXES:
        add("tail_kinds", ("struct", (), flex))
    for flex in NEWFLEXES:
        for k in KINDS:
            add("tail_kinds", ("struct", (k,), flex))
        if not quick:
            for ks in itertools.product(("c", "i", "d", "b3"), repeat=2):
                add("tail_kinds", ("struct", ks, flex))
    # 2. top-level forms of primitive kinds
    for k in TOP_PRIMS:
        add("toplevel_prim", ("prim", (k,), None))
    # 4. further field kinds: alone, paired with every old kind in both orders (unions: with 4 old kinds), before
    #    the old flexible tails, the bitfield kinds with each other; thorough: also in every position of 3 fields
    for k in NEWKINDS:
        for su in ("struct", "union"):
            add("field_kinds", (su, (k,), None))
        for o in KINDS:
            add("field_kinds", ("struct", (k, o), None))
            add("field_kinds", ("struct", (o, k), None))
        for o in ("c", "i", "d", "b3"):
            add("field_kinds", ("union", (k, o), None))
            add("field_kinds", ("union", (o, k), None))
        for flex in FLEXES[1:]:
            add("field_kinds", ("struct", (k,), flex))
        if not quick:
            for o1, o2 in itertools.product(("c", "d", "b3"), repeat=2):
                for ks in ((k, o1, o2), (o1, k, o2), (o1, o2, k)):
                    add("field_kinds", ("struct", ks, None))
    for a, b in itertools.product(BITKINDS, repeat=2):
        add("field_kinds", ("struct", (a, b), None))
        add("field_kinds", ("struct", (a, b, "c"), None))     # two bitfields and a char in one word
    return out


def run(ctx):
    from . import _large
    _large.c20(ctx)           # lengths on both sides of 2**8, 2**12, 2**16; zero-fill of large arrays (see _large.py)
    base = enumerate_specs(ctx.quick)
    items = [(i, s, spec_forms(s, ctx.quick)) for i, s in enumerate(base)]
    extra = enumerate_extra(ctx.quick)
    for fam, s, forms in extra:
        ctx.count("family_%s_types" % fam)
        items.append((len(items), s, forms))
    specs = [(i, s) for i, s, _ in items]
    nblk = 64 if ctx.quick else 160
    blocks = [["INL"] + items[i::nblk] for i in range(nblk) if items[i::nblk]]
    ntypes = ncases = nontriv = 0
    allbad = {}

    def flexible(it):
        return bool(it[1][2])

    def no_anon(it):
        return not any(k in ANON_KINDS for k in it[1][1])
    # the types with a flexible part (and, thorough, all of them) again through a compiled API-mode module
    # (not the anonymous-union / anonymous-struct kinds: a compiled module lists the members of an anonymous
    #  aggregate as plain fields of the enclosing struct, so positional initializers count them one by one there,
    #  while the in-line FFI skips all but the first member of a union -- the statement does not say which reading
    #  applies)
    # (nor the structs made of a flexible array only: gcc rejects that declaration -- counted)
    api_items = [it for it in items if no_anon(it) and it[1][0] != "prim" and (ctx.quick is False or flexible(it))]
    ctx.count("flexible_array_only_structs_not_in_api_mode_gcc_rejects", sum(1 for it in api_items if not it[1][1]))
    api_items = [it for it in api_items if it[1][1]]
    nb = 8 if ctx.quick else 32
    # (first in the list: these blocks run a C compiler and take longest; quick: 8 of them so that the other half
    #  of the workers goes on with the in-line blocks meanwhile)
    blocks = [["API"] + api_items[i::nb] for i in range(nb) if api_items[i::nb]] + blocks
    ctx.count("types_also_in_api_mode", len(api_items))
    # ... and through an out-of-line ABI-mode module (struct layout computed at import from the emitted tables);
    # quick: the flexible types
    abi_items = [it for it in items if no_anon(it) and it[1][0] != "prim" and (ctx.quick is False or flexible(it))]
    nb = 8 if ctx.quick else 32
    blocks += [["ABI"] + abi_items[i::nb] for i in range(nb) if abi_items[i::nb]]
    ctx.count("types_also_in_abi_mode", len(abi_items))
    # ... and the flexible types with at most one header field under cdef(packed=True) (no bitfields: the layout
    # of packed bitfields is refused or differs from gcc's, see C01)
    pack_items = [it for it in items if flexible(it) and len(it[1][1]) <= 1 and
                  not any(k in BITKINDS for k in it[1][1])]
    nb = 4 if ctx.quick else 8
    blocks += [["PACK"] + pack_items[i::nb] for i in range(nb) if pack_items[i::nb]]
    blocks += [["PACK2"] + pack_items[i::nb] for i in range(nb) if pack_items[i::nb]]
    ctx.count("types_also_packed_and_pack2", len(pack_items))
    for block, r in pool.pmap(work, [[b] for b in blocks], item_timeout=1800):
        if isinstance(r, pool.WorkerError):
            raise InfraError(r.tb)
        if isinstance(r, pool.Crash):
            ctx.violation({"kind": "crash", "api_mode": block[0] == "API", "mode": block[0]},
                          {"block": [list(it) for it in block[1:]][:400], "mode": block[0], "how": r.describe()})
            continue
        nt, nc, nn, counts, bad = r
        ntypes += nt
        ncases += nc
        nontriv += nn
        for k, v in counts.items():
            ctx.count(k, v)
        for sig, cnt, details in bad:
            ent = allbad.setdefault(json.dumps(sig, sort_keys=True), [sig, 0, []])
            ent[1] += cnt
            ent[2].extend(details)
    for key in sorted(allbad):
        sig, cnt, details = allbad[key]
        details.sort(key=lambda d: (len(d["spec"][1]), len(d["init"]), json.dumps(d["spec"]), d["form"], d["init"]))
        for i in range(cnt):
            ctx.violation(sig, details[min(i, 2, len(details) - 1)])
    nbase = len(base)
    for i in (5, nbase // 3, nbase // 2, nbase - 7, nbase + 5, len(specs) - 3):
        idx, spec = specs[i]
        ctx.sample({"type": build_type(spec, "a%d" % idx)[1] or PRIMS[spec[1][0]][0], "forms": list(items[i][2])})
    cov = {
        "evaluations": ncases,
        "distinct_nontrivial": nontriv,
        "aggregate_types": ntypes,
        "rule": "every struct and union whose field sequence has length <= %d over the kinds %s; structs of length <= 2 "
                "again with a trailing int[], char[] or struct V {short; char[]}; each fixed-size aggregate also as T[3] "
                "and T[]; x every initializer generated from the type (list/tuple prefixes, one too long, dicts over all "
                "field subsets of size <= 2 in both orders, bytes, same-type cdata, int length, every alternative of every "
                "member one level down, refused values); added families: tails %s behind 0 or 1 header kinds%s; top-level "
                "forms %s of the primitive kinds %s; field kinds %s alone (struct and union), in both orders with every "
                "old kind (struct) and with c, i, d, b3 (union), followed by each old tail%s, and the bitfield kinds %s "
                "pairwise with and without a following char; initializer objects additionally as list subclass, "
                "namedtuple, OrderedDict, defaultdict, str-subclass key, bytes key (refused), dict over all fields, str "
                "for wide arrays, bytes for every 1-byte item kind, lengths True / __index__ / float (refused) / padding-1, "
                "padding, padding+1 items, cdata leaves, and free-form objects (range, bytearray, cdata array of another "
                "length); a case = (type form, initializer), executed through ffi.new (type string or ctype object), a "
                "recording allocator, the default new_allocator(), assignment and leaf stores; flexible types%s repeated "
                "through API-mode and out-of-line ABI-mode FFIs, those with <= 1 header field also under packed=True "
                "and pack=2; non-trivial = a case with an initializer (distinct by construction; counted)"
                % (2 if ctx.quick else 3, KINDS, NEWFLEXES, "" if ctx.quick else " or 2 of (c, i, d, b3)",
                   list(FORMS_PRIM), TOP_PRIMS, NEWKINDS,
                   "" if ctx.quick else ", in every position of 3 fields with two of (c, d, b3)", BITKINDS,
                   "" if ctx.quick else " (thorough: all types)"),
        "exhaustive": True,
        "bound": {"max_fields": 2 if ctx.quick else 3, "nesting_of_initializer_alternatives": 1},
    }
    return ctx.finish(cov, ["leaf stores (p.f = v, p.a[i] = v) and ffi.offsetof are correct (C01-C03)",
                            "the heap is poisoned with 0xFF blocks before each ffi.new so that missing zero-fill is "
                            "visible with glibc malloc"])


def replay(detail):
    if detail.get("large"):
        from . import _large

        class _C(object):
            n = 0

            def count(self, *a):
                pass

            def violation(self, sig, d):
                _C.n += 1
                print("VIOLATED", sig, d)
        _large.c20(_C())
        return 1 if _C.n else 0
    if "block" in detail:
        # a worker died on this block: run the block again in a forked child and report how it ends
        import sys
        items = [(it[0], (it[1][0], tuple(it[1][1]), it[1][2]), tuple(it[2])) for it in detail["block"]]
        sys.stdout.flush()
        pid = os.fork()
        if pid == 0:
            try:
                work([detail.get("mode", "INL")] + items)
            except BaseException as e:
                print("exception instead of a crash: %s: %s" % (type(e).__name__, e))
                sys.stdout.flush()
                os._exit(3)
            os._exit(0)
        st = os.waitpid(pid, 0)[1]
        if os.WIFSIGNALED(st):
            print("the block of %d types (mode %s) kills the process with signal %d"
                  % (len(items), detail.get("mode", "INL"), os.WTERMSIG(st)))
            return 1
        print("the block of %d types ran to the end (exit status %d)" % (len(items), os.WEXITSTATUS(st)))
        return 0
    spec = detail["spec"]
    spec = (spec[0], tuple(spec[1]), spec[2])
    idx = detail.get("idx", 0)
    mode = detail.get("mode", "INL")
    print("mode %s" % mode)
    print(build_type(spec, "a%d" % idx)[1] or PRIMS[spec[1][0]][0])
    ffi, built = make_ffi(mode, [(idx, spec)])
    d = built[0][2]
    gen = Gen(ffi)
    rec = Recorder(ffi)
    probs = run_type(ffi, gen, rec, d, detail["form"], {})[0]
    hit = [(s, x) for s, x in probs if x.get("shape") == detail["shape"] and x.get("init") == detail["init"]]
    for s, x in hit:
        print("MISMATCH", s)
        for k, v in x.items():
            print("   %s: %s" % (k, v.hex() if isinstance(v, bytes) else v))
    if not hit:
        print("no mismatch for initializer %s" % detail["init"])
    return 1 if hit else 0
