"""C20 -- ffi.new zero-fills and initializes exactly like assignment.

E1: every struct/union whose field sequence has length <= 2 (thorough 3) over an
11-kind alphabet (char, short, int, double, pointer, char[3], int[2], nested
struct, nested union, bitfield, anonymous union), structs again with a trailing
flexible array (int[], char[], nested struct ending in char[]), plus T[3] and
T[] of every fixed-size aggregate; x initializers generated FROM the type
(every list/tuple prefix incl. one too long, dicts over all field subsets of
size <= 2 in both orders, bytes for char arrays, cdata of the same type, an int
length for the flexible array, alternatives of every field nested one level,
values that must be refused).
Oracle, three ways: bytes(buffer(new(T, init))) == bytes after p = new(T);
p[0] = init == bytes after storing every leaf the initializer denotes one by
one (p.f.g = v / p.a[i] = v) into zeroed memory; no initializer => all zero;
flexible array: requested allocation >= header + n*item, nothing written
outside it, sizeof(p[0]) == that size.
"""
import itertools
import json
import os

from .. import pool
from ..build import InfraError

ID = "C20"
LEVEL = "exploration"
META = dict(
    engine="E1-enum", level="exploration",
    technique="exhaustive enumeration of small aggregate types x initializers derived from the type; ffi.new compared "
              "with assignment and with leaf-by-leaf stores",
    text="All structs and unions of <= 2 fields (thorough 3) over an 11-kind field alphabet, with and without a "
         "flexible tail, and arrays T[3] / T[] of them, are initialized with every initializer shape the type admits "
         "(list and tuple prefixes, one-too-long lists, dicts over all field subsets of size <= 2 in both insertion "
         "orders, bytes, same-type cdata, explicit lengths, nested alternatives, refused values).  The bytes of "
         "ffi.new(T, init) are compared with new(T) followed by p[0] = init and with an independent interpretation of "
         "the initializer as a list of leaf stores executed through field/index assignment on zeroed memory.  The heap "
         "is poisoned before every allocation so that missing zero-fill shows; a recording allocator with canaries "
         "shows the size really requested for flexible arrays and any write outside it.",
    note="the leaf stores p.f = v / p.a[i] = v and ffi.offsetof are trusted (decided by C01-C03); for flexible-array "
         "types the reference object is allocated with the same array length before p[0] = init")

NAMED = """
struct N { char c; int i; };
union UU { int a; char b[5]; };
struct V { short h; char t[]; };
"""

# prim key -> (C type, bitfield width, valid values (first = primary), values that must be refused)
PRIMS = {
    "c": ("char", None, [b"A", b"\xff"], [b"AB", 65]),
    "h": ("short", None, [0x1234, -2], [70000, "x"]),
    "i": ("int", None, [0x12345678, -1], [1 << 31]),
    "d": ("double", None, [1.5, -0.0], ["x"]),
    "p": ("int *", None, ["PTR", "NULL"], [5]),
    "b3": ("int", 3, [3, -4], [4]),
}


def P(k):
    return ("prim", k)


def ARR(e, n):
    return ("arr", e, n)


D_N = ("agg", "struct", "N", (("c", P("c"), True), ("i", P("i"), True)))
D_UU = ("agg", "union", "UU", (("a", P("i"), True), ("b", ARR(P("c"), 5), False)))
D_V = ("agg", "struct", "V", (("h", P("h"), True), ("t", ARR(P("c"), None), True)))

KINDS = ["c", "h", "i", "d", "p", "c3", "i2", "N", "U", "b3", "AU"]
FLEXES = [None, "fi", "fc", "fV"]


def kind_fields(kind, n):
    """[(field name, descriptor, takes part in positional init, C text)]"""
    if kind in ("c", "h", "i", "d"):
        return [(n, P(kind), True, "%s %s;" % (PRIMS[kind][0], n))]
    if kind == "p":
        return [(n, P("p"), True, "int *%s;" % n)]
    if kind == "b3":
        return [(n, P("b3"), True, "int %s:3;" % n)]
    if kind == "c3":
        return [(n, ARR(P("c"), 3), True, "char %s[3];" % n)]
    if kind == "i2":
        return [(n, ARR(P("i"), 2), True, "int %s[2];" % n)]
    if kind == "N":
        return [(n, D_N, True, "struct N %s;" % n)]
    if kind == "U":
        return [(n, D_UU, True, "union UU %s;" % n)]
    if kind == "AU":
        return [(n + "a", P("h"), True, "union { short %sa; char %sb; };" % (n, n)), (n + "b", P("c"), False, "")]
    if kind == "fi":
        return [(n, ARR(P("i"), None), True, "int %s[];" % n)]
    if kind == "fc":
        return [(n, ARR(P("c"), None), True, "char %s[];" % n)]
    if kind == "fV":
        return [(n, D_V, True, "struct V %s;" % n)]
    raise InfraError("unknown kind %r" % (kind,))


def build_type(spec, tag):
    """spec = (su, kinds, flex) -> (descriptor, C text)"""
    su, kinds, flex = spec
    fields = []
    text = []
    for j, k in enumerate(kinds):
        for idx, (fn, d, inctor, ctext) in enumerate(kind_fields(k, "f%d" % j)):
            if su == "union" and (j > 0 or idx > 0):
                inctor = False
            fields.append((fn, d, inctor))
            if ctext:
                text.append("  " + ctext)
    if flex:
        for fn, d, inctor, ctext in kind_fields(flex, "tail"):
            fields.append((fn, d, inctor))
            text.append("  " + ctext)
    return ("agg", su, tag, tuple(fields)), "%s %s {\n%s\n};\n" % (su, tag, "\n".join(text))


def has_var(d):
    if d[0] == "arr":
        return d[2] is None
    if d[0] == "agg":
        return bool(d[3]) and has_var(d[3][-1][1])
    return False


def ctype_name(d):
    if d[0] == "prim":
        return PRIMS[d[1]][0]
    if d[0] == "agg":
        return "%s %s" % (d[1], d[2])
    raise InfraError("no plain name for %r" % (d,))


def array_decl(d, inner=""):
    """C type string of descriptor d (arrays of arrays are not generated)."""
    if d[0] == "arr":
        return "%s%s[%s]" % (ctype_name(d[1]), inner, "" if d[2] is None else d[2])
    return ctype_name(d) + inner


# ---------------------------------------------------------------------------- initializers

class Cand(object):
    __slots__ = ("obj", "writes", "bad", "var", "shape")

    def __init__(self, obj, writes, bad=False, var=None, shape=""):
        self.obj = obj          # the initializer object
        self.writes = writes    # [(path, leaf value | ("raw", bytes))] in order
        self.bad = bad          # must be refused on both paths
        self.var = var          # sizing of the flexible part: int (items) for an array, dict for a struct, or None
        self.shape = shape


class Gen(object):
    def __init__(self, ffi):
        self.ffi = ffi
        self.keep = []
        self.ptr = ffi.cast("int *", 0x1122334455667788)

    def leaf(self, v):
        if v == "PTR":
            return self.ptr
        if v == "NULL":
            return self.ffi.NULL
        return v

    def primary(self, d):
        return self.alts(d, -1)[0]

    def alts(self, d, depth):
        """Initializer candidates for a value of type d.  depth < 0: only the primary one;
        depth == 0: all shapes with primary values inside; depth == 1: additionally every
        alternative of every member."""
        if d[0] == "prim":
            ctype, bw, good, bad = PRIMS[d[1]]
            out = [Cand(self.leaf(v), [((), self.leaf(v))], shape="leaf") for v in good]
            if depth < 0:
                return out[:1]
            return out + [Cand(v, None, bad=True, shape="bad-leaf") for v in bad]
        if d[0] == "arr":
            return self.arr_alts(d, depth)
        return self.agg_alts(d, depth)

    def arr_alts(self, d, depth):
        ffi = self.ffi
        e, L = d[1], d[2]
        pe = self.primary(e)
        ischar = e == P("c")
        out = []

        def lst(k, conv=list, bad=False):
            w = []
            for i in range(k):
                w += [((i,) + p, v) for p, v in pe.writes]
            return Cand(conv([pe.obj] * k), None if bad else w, bad=bad, var=k if L is None else None,
                        shape="%s[%d]" % (conv.__name__, k) + ("-too-long" if bad else ""))
        if L is None:
            # flexible / open array: its own length comes from the initializer
            out.append(lst(2))
            if depth < 0:
                return out[:1]
            out += [lst(0), lst(1), lst(3, tuple)]
            for n in (0, 2):
                out.append(Cand(n, [], var=n, shape="int-length"))
            if ischar:
                for s in (b"", b"ab"):
                    w = [((i,), s[i:i + 1]) for i in range(len(s))] + [((len(s),), b"\x00")]
                    out.append(Cand(s, w, var=len(s) + 1, shape="bytes"))
            out.append(Cand(-1, None, bad=True, shape="negative-length"))
            if depth >= 1 and e[0] != "prim":
                for a in self.alts(e, depth - 1)[1:]:
                    if a.var is None:
                        out.append(Cand([a.obj], None if a.bad else [((0,) + p, v) for p, v in a.writes], bad=a.bad,
                                        var=1, shape="list[%s]" % a.shape))
            return out
        out.append(lst(L))
        if depth < 0:
            return out[:1]
        for k in range(L):
            out.append(lst(k))
        out.append(lst(L, tuple))
        out.append(lst(L + 1, bad=True))
        if ischar:
            pat = b"xyzvw"
            for k in range(L + 2):
                s = pat[:k]
                if k > L:
                    out.append(Cand(s, None, bad=True, shape="bytes-too-long"))
                    continue
                w = [((i,), s[i:i + 1]) for i in range(k)]
                if k < L:
                    w.append(((k,), b"\x00"))
                out.append(Cand(s, w, shape="bytes-exact" if k == L else "bytes-shorter"))
        else:
            out.append(Cand(b"xy", None, bad=True, shape="bytes-for-non-char"))
        nbytes = ffi.sizeof(array_decl(d))
        blk = ffi.new("char[]", nbytes)
        src = ffi.cast("%s(*)[%d]" % (ctype_name(e), L), blk)[0]
        store_leaves(ffi, src, array_decl(d), lst(L).writes)
        self.keep.append(blk)
        out.append(Cand(src, [((), ("raw", bytes(ffi.buffer(blk))))], shape="cdata-same-type"))
        if depth >= 1 and e[0] != "prim":
            for a in self.alts(e, depth - 1)[1:]:
                if a.var is not None:
                    continue
                out.append(Cand([a.obj], None if a.bad else [((0,) + p, v) for p, v in a.writes], bad=a.bad,
                                shape="list[%s]" % a.shape))
        return out

    def agg_alts(self, d, depth):
        ffi = self.ffi
        su, tag, fields = d[1], d[2], d[3]
        ctor = [f for f in fields if f[2]]
        prim = {f[0]: self.primary(f[1]) for f in fields}
        lastname = fields[-1][0]
        out = []

        def pref(fn, c):
            return [((fn,) + p, v) for p, v in c.writes]

        def var_of(names, cands):
            for fn, c in zip(names, cands):
                if fn == lastname and c.var is not None:
                    return {fn: c.var}
            return None

        def seq(k, conv=list):
            names = [f[0] for f in ctor[:k]]
            cs = [prim[n] for n in names]
            w = []
            for n, c in zip(names, cs):
                w += pref(n, c)
            return Cand(conv([c.obj for c in cs]), w, var=var_of(names, cs), shape="%s-prefix-%d" % (conv.__name__, k))
        out.append(seq(len(ctor)))
        if depth < 0:
            return out[:1]
        for k in range(len(ctor)):
            out.append(seq(k))
        out.append(seq(len(ctor), tuple))
        out.append(Cand([c.obj for c in (prim[f[0]] for f in ctor)] + [0], None, bad=True, shape="list-too-long"))
        names = [f[0] for f in fields]
        out.append(Cand({}, [], shape="dict-0"))
        for n in names:
            out.append(Cand({n: prim[n].obj}, pref(n, prim[n]), var=var_of([n], [prim[n]]), shape="dict-1"))
        for a, b in itertools.permutations(names, 2):
            out.append(Cand({a: prim[a].obj, b: prim[b].obj}, pref(a, prim[a]) + pref(b, prim[b]),
                            var=var_of([a, b], [prim[a], prim[b]]), shape="dict-2"))
        out.append(Cand({"nosuchfield": 1}, None, bad=True, shape="dict-unknown-key"))
        out.append(Cand(5, None, bad=True, shape="int-for-aggregate"))
        # a cdata of the same type
        full = seq(len(ctor))
        fixed = ffi.sizeof(ctype_name(d))
        blk = ffi.new("char[]", max(fixed, needed_size(ffi, d, full.var)))
        srcp = ffi.cast(ctype_name(d) + " *", blk)
        store_leaves(ffi, srcp, ctype_name(d), full.writes)     # built without any initializer machinery
        self.keep.append(blk)
        out.append(Cand(srcp[0], [((), ("raw", bytes(ffi.buffer(blk))[:fixed]))], shape="cdata-same-type"))
        if depth >= 1:
            for pos, f in enumerate(fields):
                fn = f[0]
                for a in self.alts(f[1], depth - 1)[1:]:
                    v = var_of([fn], [a])
                    out.append(Cand({fn: a.obj}, None if a.bad else pref(fn, a), bad=a.bad, var=v,
                                    shape="dict{%s}" % a.shape))
                    if f[2]:
                        k = ctor.index(f)
                        before = [prim[g[0]] for g in ctor[:k]]
                        w = []
                        for g, c in zip(ctor[:k], before):
                            w += pref(g[0], c)
                        out.append(Cand([c.obj for c in before] + [a.obj], None if a.bad else w + pref(fn, a),
                                        bad=a.bad, var=v, shape="list[..,%s]" % a.shape))
        return out


# ---------------------------------------------------------------------------- execution

def describe(ffi, o):
    """repr() without addresses (deterministic, usable to find the case again in replay)."""
    if isinstance(o, ffi.CData):
        return "<cdata '%s'>" % ffi.typeof(o).cname
    if isinstance(o, list):
        return "[%s]" % ", ".join(describe(ffi, x) for x in o)
    if isinstance(o, tuple):
        return "(%s)" % ", ".join(describe(ffi, x) for x in o)
    if isinstance(o, dict):
        return "{%s}" % ", ".join("%r: %s" % (k, describe(ffi, v)) for k, v in o.items())
    return repr(o)


def needed_size(ffi, d, var):
    """Bytes the flexible part needs: header + n * item (recursively for a nested struct)."""
    if var is None:
        return 0
    tn = ctype_name(d)
    fn, fd, _ = d[3][-1]
    off = ffi.offsetof(tn, fn)
    v = var[fn]
    if fd[0] == "arr":
        return off + v * ffi.sizeof(ctype_name(fd[1]))
    return off + max(ffi.sizeof(ctype_name(fd)), needed_size(ffi, fd, v))


def poison(ffi, nbytes):
    """Leave dirty free chunks of about the size the next allocation will ask for."""
    blocks = []
    for d in (-16, 0, 16, 32):
        n = nbytes + d
        if n <= 0:
            continue
        for _ in range(9):
            b = ffi.new("char[]", n)
            ffi.buffer(b)[:] = b"\xff" * n
            blocks.append(b)
    del blocks


def store_leaves(ffi, root, toptype, writes):
    base = ffi.cast("char *", root)
    for path, v in writes:
        if isinstance(v, tuple) and v and v[0] == "raw":
            off = ffi.offsetof(toptype, *path) if path else 0
            ffi.buffer(base + off, len(v[1]))[:] = v[1]
            continue
        obj = root
        for step in path[:-1]:
            obj = getattr(obj, step) if isinstance(step, str) else obj[step]
        last = path[-1]
        if isinstance(last, str):
            setattr(obj, last, v)
        else:
            obj[last] = v


def attempt(fn):
    try:
        return ("ok", fn())
    except Exception as e:
        return ("exc", "%s: %s" % (type(e).__name__, e))


class Recorder(object):
    """An allocator that records the size asked for and surrounds it with canaries."""
    GUARD = 32

    def __init__(self, ffi):
        self.ffi = ffi
        self.last = None
        self.new = ffi.new_allocator(alloc=self.alloc, free=None, should_clear_after_alloc=True)

    def alloc(self, size):
        ffi = self.ffi
        blk = ffi.new("char[]", size + 2 * self.GUARD)
        ffi.buffer(blk)[:] = b"\xee" * (size + 2 * self.GUARD)
        self.last = (blk, size)
        return blk + self.GUARD

    def result(self):
        blk, size = self.last
        raw = bytes(self.ffi.buffer(blk))
        g = self.GUARD
        return size, raw[g:g + size], raw[:g] == b"\xee" * g and raw[g + size:] == b"\xee" * g


def run_type(ffi, gen, rec, d, form, counts):
    """form: 'ptr' (new('T *', init)), 'arr3' (new('T[3]', init)), 'open' (new('T[]', init)).
    Returns list of (sig, detail-without-type)."""
    probs = []
    tn = ctype_name(d)
    isvar = has_var(d)
    ncases = 0

    def count(k):
        counts[k] = counts.get(k, 0) + 1

    if form == "ptr":
        top = d
        newtype = tn + " *"
        fixed = ffi.sizeof(tn)
        cands = gen.alts(d, 1)
    elif form == "arr3":
        top = ARR(d, 3)
        newtype = tn + "[3]"
        fixed = 3 * ffi.sizeof(tn)
        cands = gen.alts(top, 1)
    else:
        top = ARR(d, None)
        newtype = tn + "[]"
        fixed = None
        cands = gen.alts(top, 1)

    # no initializer: all zero
    if form != "open":
        poison(ffi, fixed)
        a = ffi.new(newtype)
        img = bytes(ffi.buffer(a))
        count("no_init")
        ncases += 1
        if img != bytes(fixed):
            probs.append(({"kind": "not_zero_without_initializer", "form": form}, {"shape": "no-init", "init": "<none>", "form": form, "image": img}))

    for c in cands:
        ncases += 1
        count("init_" + ("refused" if c.bad else "accepted"))
        count("shape:" + c.shape.split("[")[0].split("{")[0])
        det = {"shape": c.shape, "init": describe(ffi, c.obj), "form": form}
        # --- sizes
        if form == "open":
            n = c.var if c.var is not None else 0
            fixed_c = n * ffi.sizeof(tn)
            reftype = "%s(*)[%d]" % (tn, n)
            toptype = "%s[%d]" % (tn, n)
            need = fixed_c
        elif form == "arr3":
            fixed_c = fixed
            reftype = "%s(*)[3]" % tn
            toptype = newtype
            need = fixed
        else:
            fixed_c = fixed
            reftype = newtype
            toptype = tn
            need = max(fixed, needed_size(ffi, d, c.var)) if isvar else fixed
        # --- path 1: ffi.new with the initializer (heap poisoned first)
        poison(ffi, need)
        r1 = attempt(lambda: ffi.new(newtype, c.obj))
        # --- path 1b: the same through a recording allocator
        rec.last = None
        r1b = attempt(lambda: rec.new(newtype, c.obj))
        # --- path 2: allocate (same flexible length), zero, assign
        G = 32
        room = need + (256 if c.bad else 0)

        def ref_object():
            blk = ffi.new("char[]", room + 2 * G)
            ffi.buffer(blk)[:] = b"\xee" * G + bytes(room) + b"\xee" * G
            return blk, ffi.cast(reftype, blk + G)

        def ref_image(blk):
            raw = bytes(ffi.buffer(blk))
            return raw[G:G + room], raw[:G] == b"\xee" * G and raw[G + room:] == b"\xee" * G
        blk2, p2 = ref_object()

        def assign():
            if not (form == "open" and c.shape == "int-length"):    # 'p[0] = 3' is not an array initializer
                p2[0] = c.obj
            return p2
        r2 = attempt(assign)
        if c.bad:
            acc = [n for n, r in (("new", r1), ("assignment", r2), ("new_allocator", r1b)) if r[0] == "ok"]
            if acc:
                probs.append(({"kind": "refused_value_accepted", "by": acc, "shape": c.shape.split("[")[0]},
                              dict(det, outcomes=[r1[0], r2[0], r1b[0]])))
            continue
        if r1[0] != "ok" or r2[0] != "ok" or r1b[0] != "ok":
            sig = {"kind": "paths_disagree_on_acceptance", "new": r1[0], "assignment": r2[0], "new_allocator": r1b[0]}
            if isvar and c.shape == "cdata-same-type" and r1[0] == "exc" and r2[0] == "ok":
                sig = {"kind": "paths_disagree_on_acceptance",
                       "cause": "cdata_initializer_for_struct_with_flexible_array"}
            probs.append((sig, dict(det, new=r1[1] if r1[0] == "exc" else "ok",
                                    assignment=r2[1] if r2[0] == "exc" else "ok",
                                    new_allocator=r1b[1] if r1b[0] == "exc" else "ok")))
            continue
        a = r1[1]
        img1 = bytes(ffi.buffer(a))
        img2, intact2 = ref_image(blk2)
        if not intact2:
            probs.append(({"kind": "write_outside_object", "path": "assignment", "form": form, "var": isvar},
                          dict(det, size=need)))
        # --- path 3: leaf stores into zeroed memory
        blk3, p3 = ref_object()
        r3 = attempt(lambda: store_leaves(ffi, p3[0] if form != "ptr" else p3, toptype, c.writes))
        img3, intact3 = ref_image(blk3)
        if r3[0] != "ok" or not intact3:
            raise InfraError("leaf stores failed for %s %s: %s" % (newtype, det["init"], r3[1]))
        if form == "open" and len(a) != n:
            probs.append(({"kind": "open_array_length", "form": form}, dict(det, got=len(a), want=n)))
            continue
        if not (img1 == img2 == img3):
            which = "new!=assign" if img1 != img2 else "assign!=leaves"
            if img1 != img2 and img2 == img3:
                which = "new differs"
            elif img1 == img3 and img1 != img2:
                which = "assignment differs"
            elif img1 == img2:
                which = "new and assignment differ from the leaf stores"
            probs.append(({"kind": "image_mismatch", "which": which, "form": form, "var": isvar,
                           "shape": c.shape.split("[")[0].split("{")[0]},
                          dict(det, new=img1, assign=img2, leaves=img3)))
        # --- the recording allocator: size asked for, canaries, content
        rsize, rimg, intact = rec.result()
        if not intact:
            probs.append(({"kind": "write_outside_allocation", "form": form, "var": isvar}, dict(det, requested=rsize)))
        if rsize < need:
            probs.append(({"kind": "allocation_too_small", "form": form, "var": isvar},
                          dict(det, requested=rsize, needed=need)))
        elif rimg[:len(img2)] != img2 or any(rimg[len(img2):]):
            probs.append(({"kind": "image_mismatch", "which": "new_allocator differs", "form": form, "var": isvar,
                           "shape": c.shape.split("[")[0].split("{")[0]}, dict(det, new_allocator=rimg, assign=img2)))
        if form == "ptr":
            s = ffi.sizeof(a[0])
            if isvar:
                count("flex_init_with_length" if c.var is not None else "flex_init_without_length")
                count("flex_size_exact" if s == need else "flex_size_larger")
                if need > fixed:
                    count("flex_grows_allocation")
            if s != len(img1) or s < need:
                probs.append(({"kind": "sizeof_disagrees_with_allocation", "var": isvar},
                              dict(det, sizeof=s, buffer=len(img1), needed=need)))
    return probs, ncases, len(cands)


def work(block):
    """block: list of (index, spec), optionally preceded by the marker "API".  One FFI for the whole
    block: in-line, or (marker) the ffi of a compiled API-mode module declaring the same types, where
    struct types are realised lazily from the generated tables."""
    import cffi
    api = bool(block) and block[0] == "API"
    if api:
        block = block[1:]
    ffi = cffi.FFI()
    built = []
    text = [NAMED]
    for idx, spec in block:
        d, t = build_type(spec, "a%d" % idx)
        built.append((idx, spec, d))
        text.append(t)
    ffi.cdef("".join(text))
    if api:
        import importlib.util
        import os
        from .. import build as _b
        name = "_c20api_%d_%d" % (os.getpid(), block[0][0])
        d_ = os.path.join(_b.scratch(), name)
        os.makedirs(d_, exist_ok=True)
        ffi.set_source(name, "".join(text), extra_compile_args=["-O0", "-g0", "-w"])
        so = ffi.compile(tmpdir=d_, verbose=False)
        spec_ = importlib.util.spec_from_file_location(name, so)
        mod = importlib.util.module_from_spec(spec_)
        spec_.loader.exec_module(mod)
        ffi = mod.ffi
    gen = Gen(ffi)
    rec = Recorder(ffi)
    counts = {}
    bad = []
    ncases = 0
    nontriv = 0
    for idx, spec, d in built:
        forms = ["ptr"] if has_var(d) else ["ptr", "arr3", "open"]
        for form in forms:
            probs, n, ninit = run_type(ffi, gen, rec, d, form, counts)
            ncases += n
            nontriv += ninit
            k = "type_" + form + ("_flex" if has_var(d) else "") + "_" + spec[0]
            counts[k] = counts.get(k, 0) + 1
            for sig, det in probs:
                det = dict(det, spec=spec, idx=idx)
                bad.append((sig, det))
        gen.keep = []
    # keep the reply small
    agg = {}
    for sig, det in bad:
        key = json.dumps(sig, sort_keys=True)
        ent = agg.setdefault(key, [sig, 0, []])
        ent[1] += 1
        if len(ent[2]) < 3:
            ent[2].append(det)
    return len(built), ncases, nontriv, counts, list(agg.values())


def enumerate_specs(quick):
    depth = 2 if quick else 3
    out = []
    for su in ("struct", "union"):
        for n in range(1, depth + 1):
            for kinds in itertools.product(KINDS, repeat=n):
                for flex in (FLEXES if su == "struct" else [None]):
                    if flex and n > 2:
                        continue
                    out.append((su, kinds, flex))
    return out


def run(ctx):
    from . import _large
    _large.c20(ctx)           # lengths on both sides of 2**8, 2**12, 2**16 (see _large.py)
    specs = list(enumerate(enumerate_specs(ctx.quick)))
    nblk = 64 if ctx.quick else 160
    blocks = [specs[i::nblk] for i in range(nblk)]
    ntypes = ncases = nontriv = 0
    allbad = {}
    # the types with a flexible part (and, thorough, all of them) again through a compiled API-mode module
    # (not the anonymous-union kind: a compiled module lists the members of an anonymous union as plain
    #  fields of the enclosing struct, so positional initializers count them one by one there, while the
    #  in-line FFI skips all but the first -- the statement does not say which reading applies)
    api_specs = [s_ for s_ in specs if "AU" not in s_[1][1]
                 and (ctx.quick is False or has_var(build_type(s_[1], "a%d" % s_[0])[0]))]
    nb = 8 if ctx.quick else 32
    api_blocks = [["API"] + api_specs[i::nb] for i in range(nb) if api_specs[i::nb]]
    ctx.count("types_also_in_api_mode", len(api_specs))
    for block, r in pool.pmap(work, [[b] for b in blocks if b] + [[b] for b in api_blocks], item_timeout=1800):
        if isinstance(r, pool.WorkerError):
            raise InfraError(r.tb)
        if isinstance(r, pool.Crash):
            ctx.violation({"kind": "crash", "api_mode": block[0] == "API"},
                          {"block": [s for s in block if s != "API"][:50], "how": r.describe()})
            continue
        nt, nc, nn, counts, bad = r
        ntypes += nt
        ncases += nc
        nontriv += nn
        for k, v in counts.items():
            ctx.count(k, v)
        for sig, cnt, details in bad:
            ent = allbad.setdefault(json.dumps(sig, sort_keys=True), [sig, 0, []])
            ent[1] += cnt
            ent[2].extend(details)
    for key in sorted(allbad):
        sig, cnt, details = allbad[key]
        details.sort(key=lambda d: (len(d["spec"][1]), len(d["init"]), json.dumps(d["spec"]), d["form"], d["init"]))
        for i in range(cnt):
            ctx.violation(sig, details[min(i, 2, len(details) - 1)])
    for i in (5, len(specs) // 3, len(specs) // 2, len(specs) - 7):
        idx, spec = specs[i]
        ctx.sample({"type": build_type(spec, "a%d" % idx)[1], "forms": ["T *", "T[3]", "T[]"] if not spec[2] else ["T *"]})
    cov = {
        "evaluations": ncases,
        "distinct_nontrivial": nontriv,
        "aggregate_types": ntypes,
        "rule": "every struct and union whose field sequence has length <= %d over the kinds %s; structs of length <= 2 "
                "again with a trailing int[], char[] or struct V {short; char[]}; each fixed-size aggregate also as T[3] "
                "and T[]; x every initializer generated from the type (list/tuple prefixes, one too long, dicts over all "
                "field subsets of size <= 2 in both orders, bytes, same-type cdata, int length, every alternative of every "
                "member one level down, refused values); a case = (type form, initializer), executed through ffi.new, a "
                "recording allocator, assignment and leaf stores; non-trivial = a case with an initializer (distinct by "
                "construction; counted)" % (2 if ctx.quick else 3, KINDS),
        "exhaustive": True,
        "bound": {"max_fields": 2 if ctx.quick else 3, "nesting_of_initializer_alternatives": 1},
    }
    return ctx.finish(cov, ["leaf stores (p.f = v, p.a[i] = v) and ffi.offsetof are correct (C01-C03)",
                            "the heap is poisoned with 0xFF blocks before each ffi.new so that missing zero-fill is "
                            "visible with glibc malloc"])


def replay(detail):
    if detail.get("large"):
        from . import _large

        class _C(object):
            n = 0

            def count(self, *a):
                pass

            def violation(self, sig, d):
                _C.n += 1
                print("VIOLATED", sig, d)
        _large.c20(_C())
        return 1 if _C.n else 0
    import cffi
    spec = detail["spec"]
    spec = (spec[0], tuple(spec[1]), spec[2])
    ffi = cffi.FFI()
    d, text = build_type(spec, "a%d" % detail.get("idx", 0))
    ffi.cdef(NAMED + text)
    print(text)
    gen = Gen(ffi)
    rec = Recorder(ffi)
    probs = run_type(ffi, gen, rec, d, detail["form"], {})[0]
    hit = [(s, x) for s, x in probs if x.get("shape") == detail["shape"] and x.get("init") == detail["init"]]
    for s, x in hit:
        print("MISMATCH", s)
        for k, v in x.items():
            print("   %s: %s" % (k, v.hex() if isinstance(v, bytes) else v))
    if not hit:
        print("no mismatch for initializer %s" % detail["init"])
    return 1 if hit else 0
