"""C37 -- a dlopen()ed library that was closed with ffi.dlclose() refuses further
symbol access.

Engine E2 (vlib/hist.py): every history up to a depth over

    getf f|g     fetch the function attribute lib.<name>            (the object is kept, never called after close)
    call f       lib.f(3)                                           (only while the library is open)
    rd v|w       read the global variable lib.<name>
    wr v|w       write it
    addr v|f     ffi.addressof(lib, name)
    close        ffi.dlclose(lib)                                   (first, second, third ... time)
    dir          dir(lib)

in both ABI modes: in-line (cffi.FFI().dlopen, pure Python FFILibrary over
_cffi_backend.CLibrary) and out-of-line (module produced by emit_python_code,
_cffi_backend.FFI.dlopen, lib_obj.c / cdlopen.c).  Each history opens a
*private copy* of harness/c37_testlib.c's shared object, so the first dlclose
really unmaps the code and data (checked with dlopen(RTLD_NOLOAD)).

Model: open/closed, the set of functions fetched while the library was open,
the set of variable addresses taken while it was open, the variables' values.
After the first close: every variable read/write must raise; fetching (lib.f or
addressof(lib, 'f')) a function not fetched before the close must raise;
taking the address of a variable whose address was not taken before must raise
(that needs a fresh dlsym on the closed handle); every further close must be
silent; nothing may kill the process.  A worker that dies IS a violation.
Calling a function object obtained before the close is outside the statement
and is never done.

A configuration is (mode,) or (mode, variant[, "full"]).  Modes: how the library
object is obtained -- inline / ool (ffi.dlopen(path)), inline-handle / ool-handle
(ffi.dlopen(<void * handle that was dlopen()ed by C code, here _ctypes>): cffi only
borrows the handle, l_auto_close / dl_auto_close == 0), inline-none / ool-none
(ffi.dlopen(None): the global scope, into which a renamed copy of the test library
was loaded with RTLD_GLOBAL; nothing is ever unmapped there, so a missing
closed-check is silent and only the must-raise oracle can see it).  Variants
(families added after the audit of the alphabet, each again enumerated
exhaustively with the same oracle):

    vars        one more operation, vars(lib) (= lib.__dict__): out-of-line it fetches and caches every
                function and variable at once; on a closed library it must not hand out a symbol that
                was not fetched before the close
    k-<kind>    the letters v and f are bound to other *kinds* of symbols: array, struct, pointer,
                function pointer, array of unknown length; plain / variadic function; plus a function and
                a variable that are declared but absent from the library (dlsym fails before the close,
                must still raise after it), an integer #define (never touches the handle; must not kill
                the process) and, out-of-line, a non-integer constant (fetched from the library on the
                first access: fresh after the close it must raise)
    twin        a second library object (in-line: of a second FFI) on the same file, loader reference
                count 2: closing the first one any number of times must leave the file mapped and the
                twin's function callable (the count is decremented exactly once), also when the closed
                library object is finally deallocated
    cdef-more   in-line, one FFI per history: ffi.cdef() is extended after the dlopen, before or after
                the close; the names declared late follow the same rules
    flags-*     ffi.dlopen(path, RTLD_LAZY | RTLD_GLOBAL) and ffi.dlopen(path, RTLD_NOW | RTLD_NODELETE)
                (with NODELETE the loader keeps the file mapped: as for dlopen(None), only the oracle sees
                a missing closed-check)

"full" selects the larger alphabet of a variant (thorough tier).
"""
import os
import shutil

from .. import build, hist, pool
from ..build import InfraError

ID = "C37"
LEVEL = "model_checking"
META = dict(
    engine="E2-hist", level="model_checking",
    technique="explicit-state search over all histories of attribute fetch / call / variable read / write / addressof / "
              "dlclose / dir / vars on a really-unloaded private copy of a test library, both ABI modes, path / borrowed "
              "handle / dlopen(None), crash-contained",
    text="All histories up to depth 5 over 11 operations on a library with two functions and two globals, in-line and "
         "out-of-line ABI mode, opened by path or through a borrowed void* handle (quick: merging by model state + "
         "visible caches beyond depth 2, the out-of-line borrowed handle to depth 4; thorough: no merging up to depth 5, "
         "plus depth 8 with merging beyond 3); each history dlopen()s its own copy of the shared object so the first "
         "dlclose unmaps it (verified with RTLD_NOLOAD).  After the close every variable access and every fetch of a "
         "symbol not fetched before must raise, repeated closes (explicit, and the implicit one when the library "
         "object is freed: probed at the end of every history up to depth 3, thorough: of every distinct state up to "
         "depth 5 of the merged pass) must be harmless, and the process must "
         "survive; a dead worker is reported as a violation with the journalled history.  Further families, each "
         "enumerated exhaustively with the same oracle (quick depth 3-4, thorough depth 3-6; the evidence lists the "
         "configurations, depth and alphabet of every pass): vars(lib) / lib.__dict__ "
         "as a fetch-everything operation; five other kinds of global (array, struct, pointer, function pointer, "
         "array of unknown length) with plain / variadic functions, symbols declared but absent from the library, an "
         "integer #define and an out-of-line non-integer constant; a twin library object on the same file (reference "
         "count 2: closing one of them n times must neither unmap the file nor disturb the twin); ffi.cdef() extended "
         "after the dlopen / after the close (in-line); ffi.dlopen(None); RTLD_LAZY|RTLD_GLOBAL and RTLD_NODELETE.",
    note="calling a function object that was fetched before the close is outside the statement and is not done; what "
         "lib.f / addressof return for symbols already fetched before the close is not compared; whether an integer "
         "constant is still readable after the close is not compared (only that the process survives)")

CDEF = "int c37_v; long c37_w; int c37_f(int); long c37_g(long);"
CDEF_KINDS = CDEF + (" long c37_arr[4]; struct c37_s { int a; long b; }; struct c37_s c37_st; int *c37_p; "
                     "int (*c37_fp)(int); long c37_ua[]; int c37_va(int, ...); "
                     "int c37_missing(int); int c37_missvar;\n#define C37_IC 42\n")
CDEF_KINDS_OOL = CDEF_KINDS + "const double c37_k;"      # in-line mode cannot read non-integer constants at all
CDEF_MORE = "int c37_x; int c37_h(int);"

MODES = ("inline", "ool", "inline-handle", "ool-handle", "inline-none", "ool-none")
#   inline-handle / ool-handle: ffi.dlopen(<void * handle from a C-level dlopen>)
BASE_MODES = ("inline", "ool", "inline-handle")           # the modes of the original depth-5 pass
FUNC_LETTERS = frozenset(("f", "g", "h", "m"))
VAR_LETTERS = frozenset(("v", "w", "x", "mv"))
INIT = {"v": 10, "w": 20, "x": 30}
WVAL = {"v": 1234, "w": -77, "x": 555}
#   variant -> (variable bound to v, its kind, function bound to f, its kind, the extra op of the quick alphabet)
KINDS = {
    "k-arr": ("c37_arr", "arr", "c37_va", "variadic", ("getf", "m")),
    "k-struct": ("c37_st", "struct", "c37_f", "plain", ("rdi",)),
    "k-ptr": ("c37_p", "ptr", "c37_va", "variadic", ("rdc",)),          # in-line: ("addr", "mv") instead
    "k-fnptr": ("c37_fp", "fnptr", "c37_f", "plain", ("rd", "mv")),
    "k-uarr": ("c37_ua", "uarr", "c37_va", "variadic", ("addr", "f")),
}
VARIANTS = ("base", "vars", "twin", "cdef-more", "flags-lg", "flags-nodelete") + tuple(sorted(KINDS))
PROBE_DEPTH = 3          # default: histories up to this length get the dealloc-after-close probe (see Sys.close)
_PROBE = [PROBE_DEPTH]

OPS_OPEN = [("getf", "f"), ("getf", "g"), ("call", "f"), ("rd", "v"), ("rd", "w"), ("wr", "v"), ("wr", "w"),
            ("addr", "v"), ("addr", "f"), ("close",), ("dir",)]
OPS_CLOSED = [op for op in OPS_OPEN if op[0] != "call"]
_CORE = [("getf", "f"), ("call", "f"), ("rd", "v"), ("wr", "v"), ("addr", "v"), ("close",)]

_state = {}


def _norm(cfg):
    """(mode,) | (mode, variant) | (mode, variant, 'full')  ->  (mode, variant, full)"""
    cfg = tuple(cfg)
    mode = cfg[0]
    variant = cfg[1] if len(cfg) > 1 else "base"
    full = len(cfg) > 2 and cfg[2] == "full"
    if mode not in MODES or variant not in VARIANTS:
        raise InfraError("unknown configuration %r" % (cfg,))
    return mode, variant, full


def _syms(mode, variant):
    """letter of the alphabet -> (C name, kind)"""
    pfx = "c37n_" if mode.endswith("-none") else "c37_"
    if variant in KINDS:
        vn, vk, fn, fk, _ = KINDS[variant]
        return {"v": (vn, vk), "f": (fn, fk), "m": ("c37_missing", "missing"), "mv": ("c37_missvar", "missing")}
    s = {"f": (pfx + "f", "plain"), "g": (pfx + "g", "plain"), "v": (pfx + "v", "int"), "w": (pfx + "w", "long")}
    if variant == "cdef-more":
        s["x"] = ("c37_x", "int")
        s["h"] = ("c37_h", "plain")
    return s


def _alphabet(mode, variant, full):
    ool = mode.startswith("ool")
    if variant == "base":
        return list(OPS_OPEN)
    if variant == "vars":
        if full:
            return OPS_OPEN + [("vars",)]
        return [("getf", "f"), ("getf", "g"), ("rd", "v"), ("wr", "v"), ("addr", "v"), ("addr", "f"), ("close",),
                ("vars",)]
    if variant in KINDS:
        if full:
            return _CORE + [("addr", "f"), ("getf", "m"), ("rd", "mv"), ("addr", "mv"), ("rdi",)] + \
                ([("rdc",)] if ool else []) + [("dir",)]
        x = KINDS[variant][4]
        if x == ("rdc",) and not ool:
            x = ("addr", "mv")
        return _CORE + [x]
    if variant == "twin":
        return list(OPS_OPEN) if full else list(_CORE)
    if variant == "cdef-more":
        ops = [("cdef",), ("getf", "f"), ("rd", "v"), ("close",), ("dir",),
               ("rd", "x"), ("wr", "x"), ("addr", "x"), ("getf", "h")]
        if full:
            ops += [("call", "f"), ("wr", "v"), ("addr", "h")]
        return ops
    if variant.startswith("flags-"):
        return list(OPS_OPEN) if full else list(_CORE)
    raise InfraError("no alphabet for %r" % (variant,))


def _emit_ool(name, cdef):
    import contextlib
    import importlib.util
    import sys
    import cffi
    g = cffi.FFI()
    g.cdef(cdef)
    g.set_source(name, None)
    path = os.path.join(build.scratch_shared(), name + ".py")
    with contextlib.redirect_stdout(sys.stderr):
        g.emit_python_code(path)
    spec = importlib.util.spec_from_file_location(name, path)
    m = importlib.util.module_from_spec(spec)
    spec.loader.exec_module(m)
    return m.ffi


def _setup():
    """Driver, before forking: compile the test library once and prepare the FFI front ends."""
    if _state:
        return
    src = open(os.path.join(build.HARNESS, "c37_testlib.c")).read()
    so = os.path.join(build.scratch_shared(), "c37_testlib.so")
    # a small object (no libc, two load segments): each history maps and unmaps its own copy, and on this
    # machine dlopen+dlclose of a default-linked 15 kB library costs ~2 ms of mostly kernel time
    # -Bsymbolic: the library's own references (c37_f -> c37_v) are bound inside the library, whatever else
    # is in the global scope (the RTLD_GLOBAL family, the global copy for dlopen(None))
    flags = ["-O1", "-nostdlib", "-Wl,-Bsymbolic", "-Wl,-z,noseparate-code", "-Wl,-z,norelro", "-Wl,--build-id=none",
             "-s"]
    build.cc(src, so, flags=flags)
    with open(so, "rb") as f:
        _state["so_bytes"] = f.read()
    # the same library under other symbol names, loaded once into the global scope: what ffi.dlopen(None) sees.
    # (Other names, so that the private copies of the other modes never resolve their own references to it.)
    gso = os.path.join(build.scratch_shared(), "c37n_global.so")
    build.cc(src.replace("c37_", "c37n_"), gso, flags=flags)
    import ctypes
    g = ctypes.CDLL(gso, mode=os.RTLD_NOW | os.RTLD_GLOBAL)
    _state["global"] = g
    _state["gvars"] = {"v": ctypes.c_int.in_dll(g, "c37n_v"), "w": ctypes.c_long.in_dll(g, "c37n_w")}
    # where the private copies are written (each is unlinked right after dlopen): memory-backed if possible
    d = None
    if os.path.isdir("/dev/shm") and os.access("/dev/shm", os.W_OK):
        import tempfile
        d = tempfile.mkdtemp(prefix="verif-c37-", dir="/dev/shm")
        _state["rmdir"] = (os.getpid(), d)       # removed by _teardown() (vlib.main leaves through os._exit)
    _state["copydir"] = d or build.scratch_shared()
    import warnings
    import cffi
    pid = os.getpid()
    with warnings.catch_warnings():
        warnings.simplefilter("ignore")         # "global variable without extern" style warning of cdef()
        for key, cdef in (("inline", CDEF), ("inline2", CDEF), ("inline-k", CDEF_KINDS),
                          ("inline-n", CDEF.replace("c37_", "c37n_"))):
            f = cffi.FFI()
            f.cdef(cdef)
            _state[key] = f
        _state["ool"] = _emit_ool("_c37_ool_%d" % pid, CDEF)
        _state["ool-k"] = _emit_ool("_c37_oolk_%d" % pid, CDEF_KINDS_OOL)
        _state["ool-n"] = _emit_ool("_c37_ooln_%d" % pid, CDEF.replace("c37_", "c37n_"))
    _state["names"] = {
        "base": frozenset(("c37_v", "c37_w", "c37_f", "c37_g")),
        "more": frozenset(("c37_v", "c37_w", "c37_f", "c37_g", "c37_x", "c37_h")),
        "none": frozenset(("c37n_v", "c37n_w", "c37n_f", "c37n_g")),
        "kinds": frozenset(("c37_v", "c37_w", "c37_f", "c37_g", "c37_arr", "c37_st", "c37_p", "c37_fp", "c37_ua",
                            "c37_va", "c37_missing", "c37_missvar", "C37_IC", "c37_k")),
    }
    _state["n"] = 0


def _teardown():
    pid, d = _state.get("rmdir", (None, None))
    if d and pid == os.getpid():
        _flush()
        shutil.rmtree(d, ignore_errors=True)
        _state.clear()


def _private_copy():
    """A fresh file with a name never used before in this run: the loader identifies libraries by name and by
    inode, so every history gets its own mapping."""
    _state["n"] += 1
    path = os.path.join(_state["copydir"], "c37-%d-%d.so" % (os.getpid(), _state["n"]))
    with open(path, "wb") as f:
        f.write(_state["so_bytes"])
    return path


def _still_loaded(path):
    """True iff the dynamic loader still has `path` mapped (dlopen with RTLD_NOLOAD; no cffi involved)."""
    import _ctypes
    try:
        h = _ctypes.dlopen(path, os.RTLD_NOLOAD | os.RTLD_NOW)
    except OSError:
        return False
    _ctypes.dlclose(h)
    return True


# ---- what a read of each kind of variable shows, as a plain integer comparable with the model's value -------

def _obs(ffi, kind, r, val, init):
    if kind in ("int", "long"):
        return r
    if kind in ("arr", "uarr"):
        return r[0]
    if kind == "struct":
        return r.a
    if kind == "ptr":                  # initially it points to a cell holding `init`; written: a fake address
        return r[0] if val == init else int(ffi.cast("intptr_t", r))
    if kind == "fnptr":                # initially &c37_f (x -> x + c37_v, c37_v untouched in this variant)
        return r(3) - 3 if val == init else int(ffi.cast("intptr_t", r))
    raise InfraError("kind %r" % (kind,))


def _obs_addr(ffi, kind, r, val, init):
    if kind in ("int", "long"):
        return r[0]
    if kind in ("arr", "uarr"):        # in-line: the array itself (long[4] / long *); out-of-line: a pointer to it
        x = r[0]
        return x if isinstance(x, int) else x[0]
    if kind == "struct":
        return r.a
    return _obs(ffi, kind, r[0], val, init)


def _wrval(ffi, kind, n):
    if kind in ("int", "long"):
        return n
    if kind == "arr":
        return [n, 1, 2, 3]
    if kind == "uarr":
        return [n, 1, 2]
    if kind == "struct":
        return {"a": n, "b": 5}
    if kind == "ptr":
        return ffi.cast("int *", n)
    if kind == "fnptr":
        return ffi.cast("int(*)(int)", n)
    raise InfraError("kind %r" % (kind,))


_COUNTS = {}
_CUR = [None]


def _flush():
    s = _CUR[0]
    if s is not None:
        if s.last_class is not None:
            k = s.tag + s.last_class
            _COUNTS[k] = _COUNTS.get(k, 0) + 1
        s.dispose()
    _CUR[0] = None


def _count(k, n=1):
    _COUNTS[k] = _COUNTS.get(k, 0) + n


def _prune(ffi, lib):
    """The in-line FFI keeps every library it ever opened in two private lists; remove ours so that 10^5
    histories do not accumulate 10^5 mapped libraries."""
    try:
        ffi._libraries.remove(lib)
    except ValueError:
        pass
    for k, c in enumerate(ffi._function_caches):
        if c is lib.__dict__:
            del ffi._function_caches[k]
            break


class Sys(object):
    def __init__(self, cfg):
        _flush()
        _CUR[0] = self
        self.last_class = None
        self.cfg = tuple(cfg)
        self.mode, self.variant, self.full = mode, variant, full = _norm(cfg)
        self.inline = mode.startswith("inline")
        fam = "inline" if self.inline else "ool"
        self.how = "handle" if mode.endswith("-handle") else ("none" if mode.endswith("-none") else "path")
        # histogram prefix: the original three configurations keep the bare class names
        self.tag = "" if (variant == "base" and mode in BASE_MODES) else \
            ("%s: " % (mode if variant == "base" else variant))
        self.syms = _syms(mode, variant)
        self.ops = _alphabet(mode, variant, full)
        if variant in KINDS:
            self.ffi = ffi = _state[fam + "-k"]
            self.allnames = _state["names"]["kinds"]
        elif self.how == "none":
            self.ffi = ffi = _state[fam + "-n"]
            self.allnames = _state["names"]["none"]
        elif variant == "cdef-more":
            if not self.inline:
                raise InfraError("cdef-more is an in-line family")
            import warnings
            import cffi
            with warnings.catch_warnings():
                warnings.simplefilter("ignore")
                self.ffi = ffi = cffi.FFI()      # one FFI per history: the history changes its declarations
                ffi.cdef(CDEF)
            self.allnames = _state["names"]["more"]
        else:
            self.ffi = ffi = _state[fam]
            self.allnames = _state["names"]["base"]
        self.ffi2 = _state["inline2"] if self.inline else ffi
        self.flags = 0
        if variant == "flags-lg":
            self.flags = ffi.RTLD_LAZY | ffi.RTLD_GLOBAL
        elif variant == "flags-nodelete":
            self.flags = ffi.RTLD_NOW | ffi.RTLD_NODELETE
        self.raw_handle = self.raw_handle2 = None
        self.lib = self.twin = None
        self.twin_closed = False
        # model
        self.closed = False
        self.nclose = 0
        self.fetched = set()         # functions fetched while open
        self.addr = set()            # variables whose address was taken while open
        self.val = dict(INIT)
        self.nops = 0
        self.touched = set()         # variables read or written so far (their accessor / address is cached)
        self.dir_done = False        # dir(lib) or any attribute access happened (in-line: accessor table built)
        self.kfetched = False        # the non-integer constant was read while open (its value is cached)
        self.extended = None         # cdef-more: None | "open" | "closed" (when the cdef was extended)
        self.frozen = None           # (fetched, addr, touched, kfetched) at the time of the first close
        self.held = {}               # function objects / pointers obtained while open: kept alive, never used after close
        if self.how == "none":
            self.path = None
            for k, c in _state["gvars"].items():
                c.value = INIT[k]        # the global copy is never reloaded: reset it (through ctypes, not cffi)
            self.lib = ffi.dlopen(None)
        else:
            self.path = path = _private_copy()
            try:
                if self.how == "handle":
                    import _ctypes
                    # the library is opened by "C code" (here _ctypes); cffi only borrows the handle and must
                    # not close it, but ffi.dlclose(lib) must still make the lib object refuse accesses
                    self.raw_handle = _ctypes.dlopen(path, os.RTLD_NOW)
                    self.lib = ffi.dlopen(ffi.cast("void *", self.raw_handle))
                    if variant == "twin":
                        self.raw_handle2 = _ctypes.dlopen(path, os.RTLD_NOW)      # loader reference count 2
                        self.twin = self.ffi2.dlopen(self.ffi2.cast("void *", self.raw_handle2))
                else:
                    self.lib = ffi.dlopen(path, self.flags) if self.flags else ffi.dlopen(path)
                    if variant == "twin":
                        self.twin = self.ffi2.dlopen(path)
            finally:
                os.unlink(path)          # the mapping stays; nothing accumulates in the scratch directory

    # ---- life cycle ------------------------------------------------------------------------------------

    def _drop_lib(self):
        lib = self.lib
        self.lib = None
        self.held = None
        if self.raw_handle is not None:
            import _ctypes
            # an explicit ffi.dlclose(lib) closes the handle even when cffi only borrowed it (that is the
            # documented effect of dlclose()); otherwise the owner -- this harness -- closes it
            if not self.closed:
                try:
                    _ctypes.dlclose(self.raw_handle)
                except OSError:
                    pass
            self.raw_handle = None
        if self.inline and lib is not None and self.variant != "cdef-more":
            _prune(self.ffi, lib)

    def _drop_twin(self):
        twin = self.twin
        self.twin = None
        if self.raw_handle2 is not None:
            import _ctypes
            if not self.twin_closed:
                try:
                    _ctypes.dlclose(self.raw_handle2)
                except OSError:
                    pass
            self.raw_handle2 = None
        if self.inline and twin is not None:
            _prune(self.ffi2, twin)

    def dispose(self):
        """End of this history: drop the library (and its twin)."""
        self._drop_lib()
        self._drop_twin()

    def enabled(self):
        ops = self.ops
        if self.closed:
            ops = [op for op in ops if op[0] != "call"]
        if self.variant == "cdef-more":
            if self.extended:
                ops = [op for op in ops if op[0] != "cdef"]
            else:
                ops = [op for op in ops if len(op) < 2 or op[1] not in ("x", "h")]
        return ops

    def key(self):
        # model state + what can be seen of the implementation's caches without disturbing them
        lib = self.lib
        if self.inline:
            names = self.allnames
            impl = (tuple(sorted(lib.__dict__)), tuple(sorted(k for k in type(lib).__dict__ if k in names)))
        else:
            impl = ()        # _cffi_backend.Lib does not expose its cache; the model's sets mirror it
        return (self.cfg, self.closed, min(self.nclose, 2), tuple(sorted(self.fetched)), tuple(sorted(self.addr)),
                tuple(sorted(self.val.items())), self.dir_done, tuple(sorted(self.touched)), self.kfetched,
                self.extended, impl)

    def _bad(self, kind, **kw):
        d = {"kind": kind, "mode": self.mode, "variant": self.variant, "closed": self.closed,
             "fetched_before_close": sorted(self.frozen[0]) if self.frozen else None}
        d.update(kw)
        return d

    def apply(self, op):
        self.nops += 1
        if op[0] != "close" and not (op[0] in ("vars", "cdef") and self.inline):
            self.dir_done = True       # (in-line vars(lib) is the plain instance dict: no accessor is built)
        if op[0] in ("rd", "wr") and self.syms[op[1]][1] != "missing":
            self.touched.add(op[1])
        info = self._apply(op)
        if info is not None:
            info["op"] = list(op)
            info["cfg"] = list(self.cfg)
            if len(op) > 1:
                info["sym"] = self.syms[op[1]][1]
        return info

    def _vbase(self):
        """the value of the C variable c37_v, which the functions add to their argument"""
        return self.val["v"] if self.syms["v"][1] == "int" else 10

    def _twin_check(self, when):
        """The twin library object holds its own reference on the same file: whatever was done to the first
        object, the file is still mapped and the twin still works."""
        if self.twin is None or self.twin_closed:
            return None
        if not _still_loaded(self.path):
            return self._bad("close-unmapped-library-held-by-twin", when=when, nclose=self.nclose)
        try:
            r = self.twin.c37_f(3)
        except Exception as e:
            return self._bad("close-disturbed-twin", when=when, nclose=self.nclose, error=repr(e))
        if r != 3 + self.val["v"]:
            return self._bad("close-disturbed-twin", when=when, nclose=self.nclose,
                             what="twin.f(3) = %r, model %r" % (r, 3 + self.val["v"]))
        _count(self.tag + "twin-alive-after/" + when)
        return None

    def _declared(self):
        names = set(c for c, k in self.syms.values())
        if self.variant == "cdef-more" and not self.extended:
            names -= set(("c37_x", "c37_h"))
        return names

    def _apply(self, op):
        ffi, lib = self.ffi, self.lib
        name = op[0]
        L = op[1] if len(op) > 1 else None
        cname, kind = self.syms[L] if L is not None else (None, None)
        if not self.closed:
            # ---- library open: ordinary semantics.  The statement is about the closed library, but every history
            # ---- opens a fresh private copy, so an operation that fails here can only be the after-effect of an
            # ---- earlier close in this process (e.g. a handle closed twice takes a later library with it):
            # ---- reported under its own kind.
            self.last_class = "open/" + name
            if kind == "missing":
                # declared in the cdef, absent from the library: dlsym fails; nothing is cached
                self.last_class = "open/%s/missing-symbol" % name
                try:
                    if name == "getf" or name == "rd":
                        r = getattr(lib, cname)
                    elif name == "addr":
                        r = ffi.addressof(lib, cname)
                    else:
                        raise InfraError("op %r on a missing symbol" % (op,))
                except InfraError:
                    raise
                except Exception:
                    return None
                return self._bad("open-library-op-failed", what="absent symbol %s resolved to %r" % (cname, r))
            try:
                if name == "getf":
                    r = getattr(lib, cname)
                    self.held[("f", L, len(self.held))] = r
                    self.fetched.add(L)
                elif name == "call":
                    if kind == "variadic":
                        r = getattr(lib, cname)(3, ffi.cast("int", 4))
                        exp = 3 + 4 + self._vbase()
                    else:
                        r = getattr(lib, cname)(3)
                        exp = 3 + self._vbase()
                    self.fetched.add(L)
                    if r != exp:
                        return self._bad("open-library-op-failed", what="f(3) = %r, model %r" % (r, exp))
                elif name == "rd":
                    r = getattr(lib, cname)
                    if kind not in ("int", "long"):
                        self.held[("r", L, len(self.held))] = r      # a cdata that points into the library
                    o = _obs(ffi, kind, r, self.val[L], INIT[L])
                    if o != self.val[L]:
                        return self._bad("open-library-op-failed",
                                         what="%s reads %r, model %r" % (L, o, self.val[L]))
                elif name == "wr":
                    setattr(lib, cname, _wrval(ffi, kind, WVAL[L]))
                    self.val[L] = WVAL[L]
                elif name == "addr":
                    r = ffi.addressof(lib, cname)
                    self.held[("a", L, len(self.held))] = r
                    if L in VAR_LETTERS:
                        o = _obs_addr(ffi, kind, r, self.val[L], INIT[L])
                        if o != self.val[L]:
                            return self._bad("open-library-op-failed", what="*addressof(%s) = %r" % (L, o))
                        self.addr.add(L)
                    else:
                        self.fetched.add(L)
                elif name == "dir":
                    r = dir(lib)
                    if not self._declared() <= set(r):
                        return self._bad("open-library-op-failed", what="dir(lib) = %r" % (r,))
                elif name == "vars":
                    r = vars(lib)
                    if not self.inline:
                        # lib_obj.c _lib_dict: every global is fetched (dlsym) and cached now
                        if not self._declared() <= set(r):
                            return self._bad("open-library-op-failed", what="vars(lib) = %r" % (sorted(r),))
                        self.held[("d", len(self.held))] = r
                        self.fetched |= set(k for k in self.syms if k in FUNC_LETTERS)
                        self.touched |= set(k for k in self.syms if k in VAR_LETTERS)
                elif name == "rdi":
                    r = lib.C37_IC
                    if r != 42:
                        return self._bad("open-library-op-failed", what="C37_IC = %r" % (r,))
                elif name == "rdc":
                    r = lib.c37_k
                    if r != 2.5:
                        return self._bad("open-library-op-failed", what="c37_k = %r" % (r,))
                    self.kfetched = True
                elif name == "cdef":
                    self._cdef_more()
                elif name == "close":
                    try:
                        ffi.dlclose(lib)
                    except Exception as e:
                        return self._bad("first-close-raises", error=repr(e))
                    self.closed = True
                    self.nclose = 1
                    self.frozen = (frozenset(self.fetched), frozenset(self.addr), frozenset(self.touched),
                                   self.kfetched)
                    if self.how == "none":
                        self.last_class = "close/first/global-scope"
                    else:
                        mapped = _still_loaded(self.path)
                        if self.twin is not None:
                            self.last_class = "close/first/" + ("held-by-twin" if mapped else "unmapped-despite-twin")
                        elif self.variant == "flags-nodelete":
                            self.last_class = "close/first/" + ("nodelete-kept" if mapped else "nodelete-unmapped")
                        else:
                            self.last_class = "close/first/" + ("unmapped" if not mapped else "still-mapped")
                    return self._twin_check("first-close")
                else:
                    raise InfraError("unknown op %r" % (op,))
            except InfraError:
                raise
            except Exception as e:
                return self._bad("open-library-op-failed", error=repr(e),
                                 note="the library of this history is a fresh private copy; the cause may be a close "
                                      "performed by an earlier history of the same worker process")
            return None

        # ---- library closed ----------------------------------------------------------------------------
        fetched, addr, touched, kfetched = self.frozen
        late = ""
        if L in ("x", "h"):
            late = "/declared-%s-the-close" % ("before" if self.extended == "open" else "after")
        try:
            if name == "getf":
                must_raise = L not in fetched
                self.last_class = "closed/getf/" + ("absent-symbol" if kind == "missing" else
                                                    "fresh" if must_raise else "fetched-before") + late
                r = getattr(lib, cname)
            elif name == "rd":
                must_raise = True
                self.last_class = "closed/rd/" + ("absent-symbol" if kind == "missing" else
                                                  "addr-taken-before" if L in addr else "plain") + late
                r = getattr(lib, cname)
            elif name == "wr":
                must_raise = True
                self.last_class = "closed/wr/" + ("addr-taken-before" if L in addr else "plain") + late
                r = None
                setattr(lib, cname, _wrval(ffi, kind, WVAL[L] + 1))
            elif name == "addr":
                if L in VAR_LETTERS:
                    must_raise = L not in addr
                else:
                    must_raise = L not in fetched
                self.last_class = "closed/addr-%s/%s" % ("var" if L in VAR_LETTERS else "func",
                                                         "absent-symbol" if kind == "missing" else
                                                         "fresh" if must_raise else "taken-before") + late
                r = ffi.addressof(lib, cname)
            elif name == "dir":
                must_raise = False
                self.last_class = "closed/dir"
                r = None
                dir(lib)
            elif name == "vars":
                # vars(lib) may raise or return a dict; what it returns must not contain a symbol that was never
                # resolved while the library was open (that would be a fetch from the unloaded library)
                fresh = sorted(c for k, (c, _) in self.syms.items()
                               if (k in FUNC_LETTERS and k not in fetched) or
                                  (k in VAR_LETTERS and k not in addr and k not in touched))
                self.last_class = "closed/vars/" + ("some-symbol-fresh" if fresh else "all-resolved-before")
                d = vars(lib)
                got = sorted(c for c in fresh if c in d)
                if got:
                    return self._bad("closed-library-access-not-refused", result="vars(lib) contains %r" % (got,))
                return None
            elif name == "rdi":
                must_raise = False         # an integer constant never needs the library; not compared
                self.last_class = "closed/int-constant"
                r = lib.C37_IC
                _count(self.tag + "closed/int-constant/still-readable")
                r = None
            elif name == "rdc":
                must_raise = not kfetched
                self.last_class = "closed/float-constant/" + ("fresh" if must_raise else "read-before")
                r = lib.c37_k
            elif name == "cdef":
                must_raise = False
                self.last_class = "closed/cdef-more"
                r = None
                self._cdef_more()
            elif name == "close":
                self.nclose += 1
                self.last_class = "close/again"
                try:
                    ffi.dlclose(lib)
                except Exception as e:
                    return self._bad("second-close-raises", error=repr(e), nclose=self.nclose)
                return self._twin_check("close-again")
            else:
                raise InfraError("unknown op %r" % (op,))
        except InfraError:
            raise
        except Exception:
            return None                 # an error: always an acceptable answer from a closed library
        if must_raise:
            return self._bad("closed-library-access-not-refused", result=repr(r))
        if r is not None:
            self.held[("z", len(self.held))] = r
        return None

    def _cdef_more(self):
        import warnings
        self.extended = "closed" if self.closed else "open"      # the model: the names exist from now on
        with warnings.catch_warnings():
            warnings.simplefilter("ignore")
            self.ffi.cdef(CDEF_MORE)

    def close(self):
        """End of a history.  (1) short histories only (it costs a garbage collection and one more dlopen): the
        library object is dropped *after* it was closed explicitly; its deallocation is one more implicit close and
        must be as harmless as an explicit one.  A probe library opened in between (through _ctypes, not cffi) must
        survive, and so must the twin.  (2) twin configurations: the twin is closed as well; the file goes away."""
        if not self.closed or self.lib is None:
            return None
        if self.nops <= _PROBE[0] and self.how != "none":
            import _ctypes
            import gc
            probe = _private_copy()
            try:
                h = _ctypes.dlopen(probe, os.RTLD_NOW)
            finally:
                os.unlink(probe)
            self._drop_lib()
            gc.collect()
            alive = _still_loaded(probe)
            _count(self.tag + "dealloc-after-close/probe-" + ("alive" if alive else "gone"))
            if not alive:
                return {"kind": "dealloc-after-close-unloaded-another-library", "mode": self.mode,
                        "variant": self.variant, "cfg": list(self.cfg)}
            _ctypes.dlclose(h)
            info = self._twin_check("dealloc")
            if info is not None:
                info["cfg"] = list(self.cfg)
                return info
        if self.twin is not None and not self.twin_closed:
            try:
                self.ffi2.dlclose(self.twin)
            except Exception as e:
                info = self._bad("twin-close-raises", error=repr(e))
                info["cfg"] = list(self.cfg)
                return info
            self.twin_closed = True
            # not part of the statement (a close that leaks the mapping refuses accesses just as well): counted only
            _count(self.tag + "twin-closed-too/" + ("unmapped" if not _still_loaded(self.path) else "still-mapped"))
        return None


# ---------------------------------------------------------------------------
# driver (same scheme as c16/c19)

class MemJournal(object):
    """Drop-in for the file hist._note() writes to, backed by a shared file mapping: no system
    call per transition, and the driver can still read the last history after the worker died."""

    SIZE = 8192

    def __init__(self, path):
        import mmap
        with open(path, "wb") as f:
            f.write(b"\0" * self.SIZE)
        self.f = open(path, "r+b")
        self.m = mmap.mmap(self.f.fileno(), self.SIZE)

    def seek(self, pos):
        pass

    def write(self, s):
        b = s.encode()[:self.SIZE - 1]
        self.m[0:len(b) + 1] = b + b"\0"

    def truncate(self):
        pass

    def flush(self):
        pass

    def close(self):
        self.m.close()
        self.f.close()

    @staticmethod
    def read(path):
        try:
            with open(path, "rb") as f:
                return f.read().split(b"\0", 1)[0].decode().strip() or None
        except OSError:
            return None


def _work(item):
    kind, cfg, prefix, depth, d0, probe, pname = item
    _COUNTS.clear()
    _CUR[0] = None
    _PROBE[0] = probe
    if not _state.get("gc-frozen"):
        # everything that exists now (interpreter, cffi, the FFI objects) lives as long as this worker: take it
        # out of the collector's sight, so that the gc.collect() of the dealloc probe only walks young objects
        import gc
        gc.collect()
        gc.freeze()
        _state["gc-frozen"] = True
    hist._journal = MemJournal(hist._journal_path(item))
    try:
        st = hist.explore(Sys, cfg, depth, d0, prefix, True)
    finally:
        hist._journal.close()
        hist._journal = None
    _flush()
    return st, dict(_COUNTS)


def run_contained(jobs):
    """hist.run_parallel for a list of jobs (pass name, cfg, depth, d0, split, probe depth), except that the shallow
    part (histories no longer than `split`) is also executed inside pool workers: for this property a crash at
    depth 1 or 2 must be contained and reported, not kill the driver.  The prefixes are enumerated in the driver
    only for configurations whose shallow part ran cleanly in a worker (the driver then repeats executions that
    are known not to crash).  Returns ({pass name: Stats}, counts, crashes, samples)."""
    per = {}
    counts = {}
    crashes = []
    samples = []

    def drain(items):
        done = {}
        # a few blocks per worker (interleaved): one pipe round trip per block, not per sub-tree
        nb = max(1, min(len(items), pool.NPROC * 4))
        for item, r in pool.pmap(_work, [items[k::nb] for k in range(nb)], item_timeout=3600):
            if isinstance(r, pool.WorkerError):
                raise InfraError(r.tb)
            if isinstance(r, pool.Crash):
                crashes.append((item, r, MemJournal.read(hist._journal_path(item))))
                continue
            st, cnt = r
            per.setdefault(item[6], hist.Stats()).merge(st)
            if st.samples and len(samples) < 64:
                samples.append(st.samples[-1])
            for k, v in cnt.items():
                counts[k] = counts.get(k, 0) + v
            done.setdefault((item[6], item[1]), set()).update(h for h, info in st.violations)
        return done

    shallow = []
    for pname, cfg, depth, d0, split, probe in jobs:
        sd = min(split, depth)
        if sd > 0:
            shallow.append(("shallow", cfg, (), sd, min(d0, sd), probe, pname))
    done = drain(shallow) if shallow else {}
    for pname, cfg, depth, d0, split, probe in jobs:
        if min(split, depth) == 0:
            done[(pname, cfg)] = set()       # split 0: the whole tree of the configuration is one (contained) job
    items = []
    for pname, cfg, depth, d0, split, probe in jobs:
        sd = min(split, depth)
        if depth > sd and (pname, cfg) in done:
            # these executions just ran cleanly in a worker, so replaying them in the driver is safe
            bad = done[(pname, cfg)]
            for p in hist.prefixes(Sys, cfg, sd):
                if not any(p[:k] in bad for k in range(1, len(p) + 1)):
                    items.append(("deep", cfg, p, depth, d0, probe, pname))
    _flush()
    if items:
        # large sub-trees first
        items.sort(key=lambda it: -(it[3] - len(it[2])))
        drain(items)
    return per, counts, crashes, samples


def run(ctx):
    _setup()
    try:
        return _run(ctx)
    finally:
        _teardown()


def _passes(quick):
    """(pass name, configurations, depth, d0, length of the prefixes that become worker jobs, probe depth);
    merging happens inside one job"""
    io = ("inline", "ool")
    hh = ("inline-handle", "ool-handle")
    if quick:
        # split 0: one worker job per configuration (merging over the whole tree of the configuration)
        return [
            ("d5", [(m,) for m in BASE_MODES], 5, 2, 1, 3),
            ("ool-handle-d4", [("ool-handle",)], 4, 2, 0, 3),
            ("vars-d4", [(m, "vars") for m in io], 4, 2, 0, 3),
            ("kinds-d3", [(m, k) for k in sorted(KINDS) for m in io], 3, 2, 0, 3),
            ("twin-d4", [(m, "twin") for m in io], 4, 2, 0, 3),
            ("twin-handle-d3", [(m, "twin") for m in hh], 3, 2, 0, 3),
            ("cdef-more-d4", [("inline", "cdef-more")], 4, 2, 0, 3),
            ("none-d4", [("inline-none",), ("ool-none",)], 4, 2, 0, 0),
            ("flags-d3", [(m, v) for v in ("flags-lg", "flags-nodelete") for m in io], 3, 2, 0, 3),
        ]
    F = "full"
    return [
        ("d5-unmerged", [(m,) for m in BASE_MODES], 5, 5, 2, 3),
        ("ool-handle-d4-unmerged", [("ool-handle",)], 4, 4, 1, 4),
        # the dealloc probe after every distinct state up to depth 5 (here: distinct by key() beyond depth 3)
        ("d8", [(m,) for m in BASE_MODES + ("ool-handle",)], 8, 3, 1, 5),
        ("vars-d5", [(m, "vars", F) for m in io], 5, 2, 1, 4),
        ("vars-handle-d4", [(m, "vars", F) for m in hh], 4, 2, 1, 4),
        ("kinds-d4", [(m, k, F) for k in sorted(KINDS) for m in io], 4, 2, 1, 4),
        ("kinds-handle-d3", [(m, k, F) for k in sorted(KINDS) for m in hh], 3, 3, 1, 3),
        ("twin-d5", [(m, "twin", F) for m in io], 5, 2, 1, 4),
        ("twin-handle-d4", [(m, "twin", F) for m in hh], 4, 2, 1, 4),
        ("cdef-more-d6", [("inline", "cdef-more", F)], 6, 3, 1, 4),
        ("none-d6", [("inline-none",), ("ool-none",)], 6, 4, 1, 0),
        ("flags-lg-d5", [(m, "flags-lg", F) for m in io], 5, 2, 1, 4),
        ("flags-nodelete-d3", [(m, "flags-nodelete", F) for m in io], 3, 3, 1, 3),
    ]


def _run(ctx):
    passes = _passes(ctx.quick)
    only = (getattr(ctx, "opts", None) or {}).get("pass")
    if only:
        passes = [p for p in passes if p[0] in only.split(",")]
        if not passes:
            raise InfraError("no such pass %r" % (only,))
    jobs = [(pname, cfg, depth, d0, split, probe) for pname, cfgs, depth, d0, split, probe in passes for cfg in cfgs]
    per, counts, crashes, samples = run_contained(jobs)
    st = hist.Stats()
    cov_pass = {}
    for pname, cfgs, depth, d0, split, probe in passes:
        st1 = per.get(pname, hist.Stats())
        ncr = sum(1 for item, cr, last in crashes if item[6] == pname)
        ctx.log("pass %s: configurations=%d depth=%d d0=%d states=%d transitions=%d merged=%d violations=%d crashes=%d" % (
            pname, len(cfgs), depth, d0, st1.states, st1.transitions, st1.merged, len(st1.violations), ncr))
        cov_pass[pname] = {"configurations": [list(c) for c in cfgs], "max_depth": depth, "unmerged_depth_d0": d0,
                           "dealloc_probe_depth": probe, "states": st1.states,
                           "transitions": st1.transitions, "merged": st1.merged,
                           "by_depth": {str(k): v for k, v in sorted(st1.by_depth.items())}}
        ctx.count("family/%s/transitions" % pname, st1.transitions)
        st.merge(st1)
        st.violations = st.violations[:200]
    d0 = max(p[3] for p in passes)
    for k, v in sorted(counts.items()):
        ctx.count(k, v)
    if not crashes and not st.violations:
        bad = {k: v for k, v in counts.items()
               if k.endswith(("close/first/still-mapped", "close/first/unmapped-despite-twin",
                              "close/first/nodelete-unmapped"))}
        if bad or (counts.get("close/first/unmapped", 0) == 0 and any(p[0].startswith("d") for p in passes)):
            raise InfraError("the private copy of the test library is not unmapped by dlclose (or a held one is): "
                             "%r" % ({k: v for k, v in counts.items() if "close/first/" in k},))
    for h, info in st.violations:
        ctx.violation(_sig(info), {"history": [list(o) for o in h], "info": info, "cfg": info.get("cfg")})
    for item, cr, last in crashes:
        mode, variant, full = _norm(item[1])
        sig = {"kind": "crash", "mode": mode}
        if variant != "base":
            sig["variant"] = variant
        ctx.violation(sig,
                      {"cfg": list(item[1]), "prefix": [list(o) for o in item[2]], "last_history": last,
                       "how": cr.describe(), "confirmed": cr.confirmed})
    for s in samples:
        ctx.sample({"history": s})
    nontrivial = sum(v for k, v in counts.items()
                     if (": " in k and k.split(": ", 1)[1] or k).startswith(("closed/", "close/again"))
                     and not k.endswith("/still-readable"))
    alphabets = {}
    for pname, cfgs, depth, d0_, split, probe in passes:
        for cfg in cfgs:
            mode, variant, full = _norm(cfg)
            alphabets[" ".join(cfg)] = [" ".join(o) for o in _alphabet(mode, variant, full)]
    cov = {
        "states": st.states,
        "transitions": st.transitions,
        "traces_validated_against_impl": st.transitions,
        "max_depth": st.max_depth,
        "unmerged_depth_d0": d0,
        "passes": cov_pass,
        "exhaustive": True,
        "merged": st.merged,
        "replayed_op_applications": st.replayed,
        "modes": list(MODES),
        "alphabet": [list(o) for o in OPS_OPEN],
        "alphabets": alphabets,
        "by_depth": {str(k): v for k, v in sorted(st.by_depth.items())},
        "ops": dict(sorted(st.op_hist.items())),
        "evaluations": st.transitions,
        "distinct_nontrivial": nontrivial,
        "rule": "for every pass (see `passes`: configurations, depth, d0) every history of length <= depth over the "
                "configuration's alphabet (see `alphabets`; call only while open; the names of a later cdef only after "
                "it), never merged up to d0, beyond d0 a history whose key() = (configuration, model state, visible "
                "cache contents of the library object) was already reached is not extended.  Families: the base "
                "alphabet in the modes inline / ool / inline-handle / ool-handle (borrowed void* handle) / inline-none / "
                "ool-none (dlopen(None)); vars (vars(lib) fetches everything); k-* (other kinds of symbols: array, "
                "struct, pointer, function pointer, open array, variadic function, absent symbols, integer and "
                "non-integer constants); twin (second library object on the same file, reference count 2); cdef-more "
                "(ffi.cdef extended after dlopen / after close); flags-lg / flags-nodelete (dlopen flags); the "
                "transitions of each family are in class_histogram family/<pass>/transitions.  "
                "non-trivial = transitions executed on an already closed library",
    }
    return ctx.finish(cov, [
        "each history dlopen()s a private copy of the test library; the loader reports it unmapped after the first "
        "dlclose (RTLD_NOLOAD probe through _ctypes, counted in class_histogram close/first/unmapped); in the twin "
        "family it must instead still be mapped (close/first/held-by-twin), with RTLD_NODELETE the loader keeps it, "
        "and with dlopen(None) nothing is ever unmapped (there only the must-raise oracle applies)",
        "operations on the still-open library are expected to work; a failure is reported under its own kind "
        "(open-library-op-failed): with a fresh private copy per history it can only be the after-effect of an earlier "
        "close in the same process",
        "after the close, lib.f / addressof(lib, x) for symbols already fetched before the close may return or raise "
        "(not compared); function objects and pointers obtained before the close are kept alive but never used",
        "in in-line mode the FFI object is shared by the histories of one worker process (except in the cdef-more "
        "family: one FFI per history); its private list of opened libraries is pruned at the end of each history",
        "vars(lib) on a closed library may raise or return; what it returns must not contain a function that was not "
        "fetched, or a variable that was not resolved, while the library was open",
        "the statement is silent about integer constants after the close: only process survival is required there",
    ])


def _sig(info):
    s = {"kind": info.get("kind"), "mode": info.get("mode")}
    if info.get("op"):
        s["op"] = info["op"][0]
    if info.get("variant") not in (None, "base"):
        s["variant"] = info["variant"]
        if info.get("sym") and info["sym"] not in ("int", "long", "plain"):
            s["sym"] = info["sym"]
    return s


def replay(detail):
    _setup()
    try:
        return _replay(detail)
    finally:
        _teardown()


def _replay(detail):
    if "history" not in detail or detail.get("cfg") is None:
        last = detail.get("last_history")
        if not last:
            print("crash record without a journalled history:", detail)
            return 1
        import ast
        import subprocess
        import sys
        h = ast.literal_eval(last)
        code = ("import sys; sys.path.insert(0, %r)\n"
                "from vlib.props import c37\n"
                "sys.exit(c37.replay({'cfg': %r, 'history': %r}))\n" % (build.VERIF, list(detail["cfg"]), [list(o) for o in h]))
        p = subprocess.run([sys.executable, "-c", code])
        print("replay of journalled history %r in a child process: exit status %r" % (h, p.returncode))
        return 1 if p.returncode != 0 else 0
    cfg = tuple(detail["cfg"])
    _PROBE[0] = 1 << 30          # a recorded ("<close>",) step is always executed
    s = Sys(cfg)
    print("configuration", cfg)
    for op in detail["history"]:
        op = tuple(op)
        if op == ("<close>",):
            info = s.close()
            print("end of history (drop the library object) ->", "ok" if info is None else info)
            return 1 if info is not None else 0
        if op not in s.enabled():
            print("op", op, "not enabled (diverged)")
            return 0
        info = s.apply(op)
        print("op", op, "->", "ok" if info is None else info)
        if info is not None:
            return 1
    return 0
