"""C37 -- a dlopen()ed library that was closed with ffi.dlclose() refuses further
symbol access.

Engine E2 (vlib/hist.py): every history up to a depth over

    getf f|g     fetch the function attribute lib.<name>            (the object is kept, never called after close)
    call f       lib.f(3)                                           (only while the library is open)
    rd v|w       read the global variable lib.<name>
    wr v|w       write it
    addr v|f     ffi.addressof(lib, name)
    close        ffi.dlclose(lib)                                   (first, second, third ... time)
    dir          dir(lib)

in both ABI modes: in-line (cffi.FFI().dlopen, pure Python FFILibrary over
_cffi_backend.CLibrary) and out-of-line (module produced by emit_python_code,
_cffi_backend.FFI.dlopen, lib_obj.c / cdlopen.c).  Each history opens a
*private copy* of harness/c37_testlib.c's shared object, so the first dlclose
really unmaps the code and data (checked with dlopen(RTLD_NOLOAD)).

Model: open/closed, the set of functions fetched while the library was open,
the set of variable addresses taken while it was open, the variables' values.
After the first close: every variable read/write must raise; fetching (lib.f or
addressof(lib, 'f')) a function not fetched before the close must raise;
taking the address of a variable whose address was not taken before must raise
(that needs a fresh dlsym on the closed handle); every further close must be
silent; nothing may kill the process.  A worker that dies IS a violation.
Calling a function object obtained before the close is outside the statement
and is never done.
"""
import os
import shutil

from .. import build, hist, pool
from ..build import InfraError

ID = "C37"
LEVEL = "model_checking"
META = dict(
    engine="E2-hist", level="model_checking",
    technique="explicit-state search over all histories of attribute fetch / call / variable read / write / addressof / "
              "dlclose / dir on a really-unloaded private copy of a test library, both ABI modes, crash-contained",
    text="All histories up to depth 5 over 11 operations on a library with two functions and two globals, in-line and "
         "out-of-line ABI mode (quick: merging by model state + visible caches beyond depth 2; thorough: no merging up "
         "to depth 5, plus depth 8 with merging beyond 3); each history dlopen()s its own copy of the shared object so "
         "the first dlclose unmaps it (verified with RTLD_NOLOAD).  After the close every variable access and every "
         "fetch of a symbol not fetched before must raise, repeated closes (explicit, and the implicit one when the "
         "library object is freed) must be harmless, and the process must survive; a dead worker is reported as a "
         "violation with the journalled history.",
    note="calling a function object that was fetched before the close is outside the statement and is not done; what "
         "lib.f / addressof return for symbols already fetched before the close is not compared")

FUNCS = ("f", "g")
VARS = ("v", "w")
CNAME = {"f": "c37_f", "g": "c37_g", "v": "c37_v", "w": "c37_w"}
CDEF = "int c37_v; long c37_w; int c37_f(int); long c37_g(long);"
_CN = frozenset(CNAME.values())
MODES = ("inline", "ool", "inline-handle")      # inline-handle: ffi.dlopen(<void * handle from a C-level dlopen>)
WVAL = {"v": 1234, "w": -77}
PROBE_DEPTH = 3          # histories up to this length get the dealloc-after-close probe (see Sys.close)

_state = {}


def _setup():
    """Driver, before forking: compile the test library once and prepare both FFI front ends."""
    if _state:
        return
    src = open(os.path.join(build.HARNESS, "c37_testlib.c")).read()
    so = os.path.join(build.scratch_shared(), "c37_testlib.so")
    # a small object (no libc, two load segments): each history maps and unmaps its own copy, and on this
    # machine dlopen+dlclose of a default-linked 15 kB library costs ~2 ms of mostly kernel time
    build.cc(src, so, flags=["-O1", "-nostdlib", "-Wl,-z,noseparate-code", "-Wl,-z,norelro",
                             "-Wl,--build-id=none", "-s"])
    with open(so, "rb") as f:
        _state["so_bytes"] = f.read()
    # where the private copies are written (each is unlinked right after dlopen): memory-backed if possible
    d = None
    if os.path.isdir("/dev/shm") and os.access("/dev/shm", os.W_OK):
        import tempfile
        d = tempfile.mkdtemp(prefix="verif-c37-", dir="/dev/shm")
        _state["rmdir"] = (os.getpid(), d)       # removed by _teardown() (vlib.main leaves through os._exit)
    _state["copydir"] = d or build.scratch_shared()
    import warnings
    import cffi
    with warnings.catch_warnings():
        warnings.simplefilter("ignore")         # "global variable without extern" style warning of cdef()
        f = cffi.FFI()
        f.cdef(CDEF)
        _state["inline"] = f
        import contextlib
        import importlib.util
        import sys
        name = "_c37_ool_%d" % os.getpid()
        g = cffi.FFI()
        g.cdef(CDEF)
        g.set_source(name, None)
        path = os.path.join(build.scratch_shared(), name + ".py")
        with contextlib.redirect_stdout(sys.stderr):
            g.emit_python_code(path)
    spec = importlib.util.spec_from_file_location(name, path)
    m = importlib.util.module_from_spec(spec)
    spec.loader.exec_module(m)
    _state["ool"] = m.ffi
    _state["n"] = 0


def _teardown():
    pid, d = _state.get("rmdir", (None, None))
    if d and pid == os.getpid():
        _flush()
        shutil.rmtree(d, ignore_errors=True)
        _state.clear()


def _private_copy():
    """A fresh file with a name never used before in this run: the loader identifies libraries by name and by
    inode, so every history gets its own mapping."""
    _state["n"] += 1
    path = os.path.join(_state["copydir"], "c37-%d-%d.so" % (os.getpid(), _state["n"]))
    with open(path, "wb") as f:
        f.write(_state["so_bytes"])
    return path


def _still_loaded(path):
    """True iff the dynamic loader still has `path` mapped (dlopen with RTLD_NOLOAD; no cffi involved)."""
    import _ctypes
    try:
        h = _ctypes.dlopen(path, os.RTLD_NOLOAD | os.RTLD_NOW)
    except OSError:
        return False
    _ctypes.dlclose(h)
    return True


OPS_OPEN = [("getf", "f"), ("getf", "g"), ("call", "f"), ("rd", "v"), ("rd", "w"), ("wr", "v"), ("wr", "w"),
            ("addr", "v"), ("addr", "f"), ("close",), ("dir",)]
OPS_CLOSED = [op for op in OPS_OPEN if op[0] != "call"]

_COUNTS = {}
_CUR = [None]


def _flush():
    s = _CUR[0]
    if s is not None:
        if s.last_class is not None:
            _COUNTS[s.last_class] = _COUNTS.get(s.last_class, 0) + 1
        s.dispose()
    _CUR[0] = None


class Sys(object):
    def __init__(self, cfg):
        _flush()
        _CUR[0] = self
        self.last_class = None
        self.cfg = cfg
        (mode,) = cfg
        self.mode = mode
        self.ffi = ffi = _state["inline" if mode == "inline-handle" else mode]
        self.path = path = _private_copy()
        self.raw_handle = None
        try:
            if mode == "inline-handle":
                import _ctypes
                # the library is opened by "C code" (here _ctypes); cffi only borrows the handle and must
                # not close it, but ffi.dlclose(lib) must still make the lib object refuse accesses
                self.raw_handle = _ctypes.dlopen(path, os.RTLD_NOW)
                self.lib = ffi.dlopen(ffi.cast("void *", self.raw_handle))
            else:
                self.lib = ffi.dlopen(path)
        finally:
            os.unlink(path)          # the mapping stays; nothing accumulates in the scratch directory
        # model
        self.closed = False
        self.nclose = 0
        self.fetched = set()         # functions fetched while open
        self.addr = set()            # variables whose address was taken while open
        self.val = {"v": 10, "w": 20}
        self.nops = 0
        self.touched = set()         # variables read or written so far (their accessor / address is cached)
        self.dir_done = False        # dir(lib) or any attribute access happened (in-line: accessor table built)
        self.frozen = None           # (fetched, addr) at the time of the first close
        self.held = {}               # function objects / pointers obtained while open: kept alive, never used after close

    def dispose(self):
        """End of this history: drop the library.  The in-line FFI keeps every library it ever opened in two
        private lists; remove ours so that 10^5 histories do not accumulate 10^5 mapped libraries."""
        lib = self.lib
        self.lib = None
        self.held = None
        if self.raw_handle is not None:
            import _ctypes
            # an explicit ffi.dlclose(lib) closes the handle even when cffi only borrowed it (that is the
            # documented effect of dlclose()); otherwise the owner -- this harness -- closes it
            if not self.closed:
                try:
                    _ctypes.dlclose(self.raw_handle)
                except OSError:
                    pass
            self.raw_handle = None
        if self.mode.startswith("inline") and lib is not None:
            ffi = self.ffi
            try:
                ffi._libraries.remove(lib)
            except ValueError:
                pass
            for k, c in enumerate(ffi._function_caches):
                if c is lib.__dict__:
                    del ffi._function_caches[k]
                    break

    def enabled(self):
        return OPS_CLOSED if self.closed else OPS_OPEN

    def key(self):
        # model state + what can be seen of the implementation's caches without disturbing them
        lib = self.lib
        if self.mode.startswith("inline"):
            impl = (tuple(sorted(lib.__dict__)), tuple(sorted(k for k in type(lib).__dict__ if k in _CN)))
        else:
            impl = ()        # _cffi_backend.Lib does not expose its cache; the model's sets mirror it
        return (self.mode, self.closed, min(self.nclose, 2), tuple(sorted(self.fetched)), tuple(sorted(self.addr)),
                self.val["v"], self.val["w"], self.dir_done, tuple(sorted(self.touched)), impl)

    def _bad(self, kind, **kw):
        d = {"kind": kind, "mode": self.mode, "closed": self.closed,
             "fetched_before_close": sorted(self.frozen[0]) if self.frozen else None}
        d.update(kw)
        return d

    def apply(self, op):
        self.nops += 1
        if op[0] != "close":
            self.dir_done = True
        if op[0] in ("rd", "wr"):
            self.touched.add(op[1])
        info = self._apply(op)
        if info is not None:
            info["op"] = list(op)
            info["cfg"] = list(self.cfg)
        return info

    def _apply(self, op):
        ffi, lib = self.ffi, self.lib
        name = op[0]
        if not self.closed:
            # ---- library open: ordinary semantics.  The statement is about the closed library, but every history
            # ---- opens a fresh private copy, so an operation that fails here can only be the after-effect of an
            # ---- earlier close in this process (e.g. a handle closed twice takes a later library with it):
            # ---- reported under its own kind.
            self.last_class = "open/" + name
            try:
                if name == "getf":
                    r = getattr(lib, CNAME[op[1]])
                    self.held[("f", op[1], len(self.held))] = r
                    self.fetched.add(op[1])
                elif name == "call":
                    r = lib.c37_f(3)
                    self.fetched.add("f")
                    if r != 3 + self.val["v"]:
                        return self._bad("open-library-op-failed", what="f(3) = %r, model %r" % (r, 3 + self.val["v"]))
                elif name == "rd":
                    r = getattr(lib, CNAME[op[1]])
                    if r != self.val[op[1]]:
                        return self._bad("open-library-op-failed",
                                         what="%s reads %r, model %r" % (op[1], r, self.val[op[1]]))
                elif name == "wr":
                    setattr(lib, CNAME[op[1]], WVAL[op[1]])
                    self.val[op[1]] = WVAL[op[1]]
                elif name == "addr":
                    r = ffi.addressof(lib, CNAME[op[1]])
                    self.held[("a", op[1], len(self.held))] = r
                    if op[1] in VARS:
                        if r[0] != self.val[op[1]]:
                            return self._bad("open-library-op-failed", what="*addressof(%s) = %r" % (op[1], r[0]))
                        self.addr.add(op[1])
                    else:
                        self.fetched.add(op[1])
                elif name == "dir":
                    r = dir(lib)
                    if not set(CNAME.values()) <= set(r):
                        return self._bad("open-library-op-failed", what="dir(lib) = %r" % (r,))
                elif name == "close":
                    try:
                        ffi.dlclose(lib)
                    except Exception as e:
                        return self._bad("first-close-raises", error=repr(e))
                    self.closed = True
                    self.nclose = 1
                    self.frozen = (frozenset(self.fetched), frozenset(self.addr))
                    self.last_class = "close/first/" + ("unmapped" if not _still_loaded(self.path) else "still-mapped")
                else:
                    raise InfraError("unknown op %r" % (op,))
            except InfraError:
                raise
            except Exception as e:
                return self._bad("open-library-op-failed", error=repr(e),
                                 note="the library of this history is a fresh private copy; the cause may be a close "
                                      "performed by an earlier history of the same worker process")
            return None

        # ---- library closed ----------------------------------------------------------------------------
        fetched, addr = self.frozen
        try:
            if name == "getf":
                must_raise = op[1] not in fetched
                self.last_class = "closed/getf/" + ("fresh" if must_raise else "fetched-before")
                r = getattr(lib, CNAME[op[1]])
            elif name == "rd":
                must_raise = True
                self.last_class = "closed/rd/" + ("addr-taken-before" if op[1] in addr else "plain")
                r = getattr(lib, CNAME[op[1]])
            elif name == "wr":
                must_raise = True
                self.last_class = "closed/wr/" + ("addr-taken-before" if op[1] in addr else "plain")
                r = None
                setattr(lib, CNAME[op[1]], WVAL[op[1]] + 1)
            elif name == "addr":
                if op[1] in VARS:
                    must_raise = op[1] not in addr
                else:
                    must_raise = op[1] not in fetched
                self.last_class = "closed/addr-%s/%s" % ("var" if op[1] in VARS else "func",
                                                         "fresh" if must_raise else "taken-before")
                r = ffi.addressof(lib, CNAME[op[1]])
            elif name == "dir":
                must_raise = False
                self.last_class = "closed/dir"
                r = None
                dir(lib)
            elif name == "close":
                self.nclose += 1
                self.last_class = "close/again"
                try:
                    ffi.dlclose(lib)
                except Exception as e:
                    return self._bad("second-close-raises", error=repr(e), nclose=self.nclose)
                return None
            else:
                raise InfraError("unknown op %r" % (op,))
        except InfraError:
            raise
        except Exception:
            return None                 # an error: always an acceptable answer from a closed library
        if must_raise:
            return self._bad("closed-library-access-not-refused", result=repr(r))
        if r is not None:
            self.held[("z", len(self.held))] = r
        return None

    def close(self):
        """End of a history (short histories only, it costs a full garbage collection): the library object is
        dropped *after* it was closed explicitly; its deallocation is one more implicit close and must be as
        harmless as an explicit one.  A probe library opened in between (through _ctypes, not cffi) must survive."""
        if not self.closed or self.nops > PROBE_DEPTH or self.lib is None:
            return None
        import _ctypes
        import gc
        probe = _private_copy()
        try:
            h = _ctypes.dlopen(probe, os.RTLD_NOW)
        finally:
            os.unlink(probe)
        self.dispose()
        gc.collect()
        alive = _still_loaded(probe)
        _COUNTS["dealloc-after-close/probe-" + ("alive" if alive else "gone")] = \
            _COUNTS.get("dealloc-after-close/probe-" + ("alive" if alive else "gone"), 0) + 1
        if not alive:
            return {"kind": "dealloc-after-close-unloaded-another-library", "mode": self.mode, "cfg": list(self.cfg)}
        _ctypes.dlclose(h)
        return None


# ---------------------------------------------------------------------------
# driver (same scheme as c16/c19)

class MemJournal(object):
    """Drop-in for the file hist._note() writes to, backed by a shared file mapping: no system
    call per transition, and the driver can still read the last history after the worker died."""

    SIZE = 8192

    def __init__(self, path):
        import mmap
        with open(path, "wb") as f:
            f.write(b"\0" * self.SIZE)
        self.f = open(path, "r+b")
        self.m = mmap.mmap(self.f.fileno(), self.SIZE)

    def seek(self, pos):
        pass

    def write(self, s):
        b = s.encode()[:self.SIZE - 1]
        self.m[0:len(b) + 1] = b + b"\0"

    def truncate(self):
        pass

    def flush(self):
        pass

    def close(self):
        self.m.close()
        self.f.close()

    @staticmethod
    def read(path):
        try:
            with open(path, "rb") as f:
                return f.read().split(b"\0", 1)[0].decode().strip() or None
        except OSError:
            return None


def _work(item):
    kind, cfg, prefix, depth, d0 = item
    _COUNTS.clear()
    _CUR[0] = None
    hist._journal = MemJournal(hist._journal_path(item))
    try:
        st = hist.explore(Sys, cfg, depth, d0, prefix, True)
    finally:
        hist._journal.close()
        hist._journal = None
    _flush()
    return st, dict(_COUNTS)


def run_contained(cfgs, depth, d0, split):
    """hist.run_parallel, except that the shallow part (histories no longer than `split`) is also executed
    inside pool workers: for this property a crash at depth 1 or 2 must be contained and reported, not kill
    the driver.  The prefixes are enumerated in the driver only for configurations whose shallow part ran
    cleanly in a worker (the driver then repeats executions that are known not to crash)."""
    total = hist.Stats()
    counts = {}
    crashes = []
    samples = []
    sd = min(split, depth)

    def drain(items):
        done = {}
        # a few blocks per worker (interleaved): one pipe round trip per block, not per sub-tree
        nb = max(1, min(len(items), pool.NPROC * 4))
        for item, r in pool.pmap(_work, [items[k::nb] for k in range(nb)]):
            if isinstance(r, pool.WorkerError):
                raise InfraError(r.tb)
            if isinstance(r, pool.Crash):
                crashes.append((item, r, MemJournal.read(hist._journal_path(item))))
                continue
            st, cnt = r
            total.merge(st)
            if st.samples and len(samples) < 64:
                samples.append(st.samples[-1])
            for k, v in cnt.items():
                counts[k] = counts.get(k, 0) + v
            done.setdefault(item[1], set()).update(h for h, info in st.violations)
        return done

    done = drain([("shallow", cfg, (), sd, min(d0, sd)) for cfg in cfgs])
    if depth > sd:
        items = []
        for cfg in cfgs:
            if cfg in done:
                # these executions just ran cleanly in a worker, so replaying them in the driver is safe
                for p in hist.prefixes(Sys, cfg, sd):
                    if not any(p[:k] in done[cfg] for k in range(1, len(p) + 1)):
                        items.append(("deep", cfg, p, depth, d0))
        _flush()
        drain(items)
    return total, counts, crashes, samples


def run(ctx):
    _setup()
    try:
        return _run(ctx)
    finally:
        _teardown()


def _run(ctx):
    # (name, depth, d0, length of the prefixes that become worker jobs; merging happens inside one job)
    if ctx.quick:
        passes = [("d5", 5, 2, 1)]
    else:
        passes = [("d5-unmerged", 5, 5, 2), ("d8", 8, 3, 1)]
    cfgs = [(m,) for m in MODES]
    st = hist.Stats()
    counts, crashes, samples, cov_pass = {}, [], [], {}
    for pname, depth, d0, split in passes:
        st1, counts1, crashes1, samples1 = run_contained(cfgs, depth, d0, split)
        ctx.log("pass %s: depth=%d d0=%d states=%d transitions=%d merged=%d violations=%d crashes=%d" % (
            pname, depth, d0, st1.states, st1.transitions, st1.merged, len(st1.violations), len(crashes1)))
        cov_pass[pname] = {"max_depth": depth, "unmerged_depth_d0": d0, "states": st1.states,
                           "transitions": st1.transitions, "merged": st1.merged,
                           "by_depth": {str(k): v for k, v in sorted(st1.by_depth.items())}}
        st.merge(st1)
        st.violations = st.violations[:200]
        for k, v in counts1.items():
            counts[k] = counts.get(k, 0) + v
        crashes += crashes1
        samples += samples1
    d0 = max(p[2] for p in passes)
    for k, v in sorted(counts.items()):
        ctx.count(k, v)
    if not crashes and not st.violations:
        if counts.get("close/first/unmapped", 0) == 0 or counts.get("close/first/still-mapped", 0):
            raise InfraError("the private copy of the test library is not unmapped by dlclose: %r" % (
                {k: v for k, v in counts.items() if k.startswith("close/")},))
    for h, info in st.violations:
        ctx.violation(_sig(info), {"history": [list(o) for o in h], "info": info, "cfg": info.get("cfg")})
    for item, cr, last in crashes:
        mode = item[1][0]
        ctx.violation({"kind": "crash", "mode": mode},
                      {"cfg": list(item[1]), "prefix": [list(o) for o in item[2]], "last_history": last,
                       "how": cr.describe(), "confirmed": cr.confirmed})
    for s in samples:
        ctx.sample({"history": s})
    nontrivial = sum(v for k, v in counts.items() if k.startswith("closed/") or k == "close/again")
    cov = {
        "states": st.states,
        "transitions": st.transitions,
        "traces_validated_against_impl": st.transitions,
        "max_depth": st.max_depth,
        "unmerged_depth_d0": d0,
        "passes": cov_pass,
        "exhaustive": True,
        "merged": st.merged,
        "replayed_op_applications": st.replayed,
        "modes": list(MODES),
        "alphabet": [list(o) for o in OPS_OPEN],
        "by_depth": {str(k): v for k, v in sorted(st.by_depth.items())},
        "ops": dict(sorted(st.op_hist.items())),
        "evaluations": st.transitions,
        "distinct_nontrivial": nontrivial,
        "rule": "every history of length <= max_depth over the alphabet (call only while open), both ABI modes; never "
                "merged up to d0, beyond d0 a history whose key() = (model state, visible cache contents of the "
                "library object) was already reached is not extended; non-trivial = transitions executed on an "
                "already closed library",
    }
    return ctx.finish(cov, [
        "each history dlopen()s a private copy of the test library; the loader reports it unmapped after the first "
        "dlclose (RTLD_NOLOAD probe through _ctypes, counted in class_histogram close/first/unmapped)",
        "operations on the still-open library are expected to work; a failure is reported under its own kind "
        "(open-library-op-failed): with a fresh private copy per history it can only be the after-effect of an earlier "
        "close in the same process",
        "after the close, lib.f / addressof(lib, x) for symbols already fetched before the close may return or raise "
        "(not compared); function objects and pointers obtained before the close are kept alive but never used",
        "in in-line mode the FFI object is shared by the histories of one worker process; its private list of opened "
        "libraries is pruned at the end of each history",
    ])


def _sig(info):
    s = {"kind": info.get("kind"), "mode": info.get("mode")}
    if info.get("op"):
        s["op"] = info["op"][0]
    return s


def replay(detail):
    _setup()
    try:
        return _replay(detail)
    finally:
        _teardown()


def _replay(detail):
    if "history" not in detail or detail.get("cfg") is None:
        last = detail.get("last_history")
        if not last:
            print("crash record without a journalled history:", detail)
            return 1
        import ast
        import subprocess
        import sys
        h = ast.literal_eval(last)
        code = ("import sys; sys.path.insert(0, %r)\n"
                "from vlib.props import c37\n"
                "sys.exit(c37.replay({'cfg': %r, 'history': %r}))\n" % (build.VERIF, list(detail["cfg"]), [list(o) for o in h]))
        p = subprocess.run([sys.executable, "-c", code])
        print("replay of journalled history %r in a child process: exit status %r" % (h, p.returncode))
        return 1 if p.returncode != 0 else 0
    cfg = tuple(detail["cfg"])
    s = Sys(cfg)
    print("mode", cfg[0])
    for op in detail["history"]:
        op = tuple(op)
        if op == ("<close>",):
            info = s.close()
            print("end of history (drop the library object) ->", "ok" if info is None else info)
            return 1 if info is not None else 0
        if op not in s.enabled():
            print("op", op, "not enabled (diverged)")
            return 0
        info = s.apply(op)
        print("op", op, "->", "ok" if info is None else info)
        if info is not None:
            return 1
    return 0
