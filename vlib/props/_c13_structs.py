"""C13 supplement: by-value structs of every shape.

All field sequences up to a length over a field-kind alphabet chosen to hit every
branch of libffi's x86-64 classification and of cffi's own description of the
struct to libffi (fb_fill_type: scalars, 1-D and multi-dimensional arrays, nested
structs; <= 16 bytes = registers, > 16 bytes = memory; SSE / INTEGER / mixed
eightbytes).  For every struct S the module defines

    double sum_S(struct S x, int salt)    -- weighted checksum of every leaf
    struct S mk_S(int seed)               -- returns a struct built from seed

and each is called through the four paths (API lib attribute, ffi.addressof(lib, f)
= libffi, in-line ABI dlopen, out-of-line ABI lib).  Oracle: the value computed
independently in Python from the leaves, and pairwise agreement.
"""
import importlib.util
import itertools
import os

from .. import build
from ..build import InfraError

# (key, C declarator template, leaf C types in memory order, shape for the Python initializer)
KINDS = [
    ("c", "char {n};", ["char"], None),
    ("s", "short {n};", ["short"], None),
    ("i", "int {n};", ["int"], None),
    ("q", "long long {n};", ["long long"], None),
    ("f", "float {n};", ["float"], None),
    ("d", "double {n};", ["double"], None),
    ("f2", "float {n}[2];", ["float"] * 2, (2,)),
    ("d2", "double {n}[2];", ["double"] * 2, (2,)),
    ("f22", "float {n}[2][2];", ["float"] * 4, (2, 2)),
    ("d21", "double {n}[2][1];", ["double"] * 2, (2, 1)),
    ("i3", "int {n}[3];", ["int"] * 3, (3,)),
    ("c5", "char {n}[5];", ["char"] * 5, (5,)),
    ("i12", "int {n}[1][2];", ["int"] * 2, (1, 2)),
    ("nff", "struct nff {n};", ["float", "float"], "struct"),
    ("ncd", "struct ncd {n};", ["char", "double"], "struct"),
    # other leaf types of the statement and an array OF structs
    ("p", "void *{n};", ["ptr"], None),
    ("b", "_Bool {n};", ["_Bool"], None),
    ("u", "unsigned int {n};", ["unsigned int"], None),
    ("e", "enum e13 {n};", ["enum e13"], None),
    ("w", "wchar_t {n};", ["wchar_t"], None),
    ("uc3", "unsigned char {n}[3];", ["unsigned char"] * 3, (3,)),
    ("ans", "struct nff {n}[2];", ["float"] * 4, "structarr"),
]
# by-value structs the libffi paths are documented to refuse (a union inside): every path must then agree on
# the refusal -- or on the value
UNION_KIND = ("un", "union un13 {n};", ["int"], "union")
PRELUDE = ("struct nff { float a; float b; };\nstruct ncd { char a; double b; };\n"
           "enum e13 { E13A, E13B = 77 };\nunion un13 { int i; float f; };\n")


def leaf_value(ctype, k):
    """distinct, exactly representable, in range for every leaf type"""
    if ctype == "char":
        return (k * 7 + 3) % 100 + 1
    if ctype in ("float", "double"):
        return float(k * 11 + 5) + 0.5
    if ctype == "_Bool":
        return (k + 1) % 2
    if ctype == "unsigned int":
        return 0x80000000 + k * 1009 + 17
    if ctype == "wchar_t":
        return 0x100 + k
    if ctype == "unsigned char":
        return 200 + k
    return k * 1009 + 17


def _py(ctype, v, ffi):
    if ctype == "char":
        return bytes([v])
    if ctype == "wchar_t":
        return chr(v)
    if ctype == "ptr":
        return ffi.cast("void *", v)
    return v


def build_init(kinds, values, ffi=None):
    """Python initializer (nested lists) for the struct from the flat leaf values."""
    it = iter(values)

    def nest(shape):
        if len(shape) == 1:
            return [next(it) for _ in range(shape[0])]
        return [nest(shape[1:]) for _ in range(shape[0])]
    out = []
    for key, decl, leaves, shape in kinds:
        if shape is None:
            out.append(_py(leaves[0], next(it), ffi))
        elif shape == "struct":
            vals = [next(it) for _ in leaves]
            out.append([_py(t, v, ffi) for t, v in zip(leaves, vals)])
        elif shape == "structarr":
            out.append([[next(it), next(it)], [next(it), next(it)]])
        elif shape == "union":
            out.append([next(it)])
        else:
            if leaves[0] == "char":
                out.append(bytes(next(it) for _ in range(shape[0])))
            else:
                out.append(nest(shape))
    return out


def c_leaf_exprs(kinds):
    """C lvalue expressions of every leaf of `x`, in memory order."""
    ex = []
    for j, (key, decl, leaves, shape) in enumerate(kinds):
        n = "f%d" % j
        if shape is None:
            ex.append("x.%s" % n)
        elif shape == "struct":
            ex += ["x.%s.a" % n, "x.%s.b" % n]
        elif shape == "structarr":
            ex += ["x.%s[0].a" % n, "x.%s[0].b" % n, "x.%s[1].a" % n, "x.%s[1].b" % n]
        elif shape == "union":
            ex.append("x.%s.i" % n)
        else:
            for idx in itertools.product(*[range(s) for s in shape]):
                ex.append("x.%s%s" % (n, "".join("[%d]" % i for i in idx)))
    return ex


def module_source(structs):
    cdef = [PRELUDE]
    src = [PRELUDE]
    for si, kinds in enumerate(structs):
        body = " ".join(k[1].format(n="f%d" % j) for j, k in enumerate(kinds))
        decl = "struct S%d { %s };\n" % (si, body)
        cdef.append(decl)
        src.append(decl)
        ex = c_leaf_exprs(kinds)
        src.append("double sum_S%d(struct S%d x, int salt) { double r = salt; %s return r; }\n" % (
            si, si, " ".join("r += (double)%s%s * %d.0;" % ("(intptr_t)" if t == "ptr" else "", e, w + 1)
                             for w, (e, t) in enumerate(zip(ex, [t for k in kinds for t in k[2]])))))
        leaves = [t for k in kinds for t in k[2]]
        assigns = []
        for w, (e, t) in enumerate(zip(ex, leaves)):
            if t == "char":
                assigns.append("%s = (char)((seed + %d) %% 100 + 1);" % (e, w))
            elif t in ("float", "double"):
                assigns.append("%s = (%s)(seed * 2 + %d) + 0.25;" % (e, t, w))
            elif t == "ptr":
                assigns.append("%s = (void *)(intptr_t)(seed * 3 + %d);" % (e, w * 5))
            elif t == "_Bool":
                assigns.append("%s = (seed + %d) %% 2;" % (e, w))
            elif t == "unsigned int":
                assigns.append("%s = 0x80000000u + seed * 3 + %d;" % (e, w * 5))
            elif t == "wchar_t":
                assigns.append("%s = (wchar_t)(0x100 + seed + %d);" % (e, w))
            else:
                assigns.append("%s = (%s)(seed * 3 + %d);" % (e, t, w * 5))
        src.append("struct S%d mk_S%d(int seed) { struct S%d x; memset(&x, 0, sizeof x); %s return x; }\n" % (
            si, si, si, " ".join(assigns)))
        cdef.append("double sum_S%d(struct S%d, int); struct S%d mk_S%d(int);\n" % (si, si, si, si))
    return "".join(cdef), "#include <string.h>\n#include <stdint.h>\n#include <wchar.h>\n" + "".join(src)


def flatten(obj, ffi):
    """cdata struct -> flat list of Python leaf values in memory order"""
    out = []

    def walk(x):
        if isinstance(x, ffi.CData):
            t = ffi.typeof(x)
            if t.kind == "struct":
                for name, fld in t.fields:
                    walk(getattr(x, name))
                return
            if t.kind == "union":
                walk(getattr(x, t.fields[0][0]))
                return
            if t.kind == "pointer":
                out.append(int(ffi.cast("intptr_t", x)))
                return
            if t.kind == "array":
                for i in range(len(x)):
                    walk(x[i])
                return
        out.append(x)
    walk(obj)
    return [v[0] if isinstance(v, bytes) else ord(v) if isinstance(v, str) else int(v) if isinstance(v, bool) else v
            for v in out]


def work(item):
    """One module: a block of structs, all four call paths."""
    import cffi
    bid, structs = item
    cdef, src = module_source(structs)
    d = os.path.join(build.scratch(), "c13s-%d" % bid)
    os.makedirs(d, exist_ok=True)
    name = "_c13s_%d_%d" % (os.getpid(), bid)
    ffi = cffi.FFI()
    ffi.cdef(cdef)
    ffi.set_source(name, src, extra_compile_args=["-O0", "-g0", "-w"])
    so = ffi.compile(tmpdir=d, verbose=False)
    spec = importlib.util.spec_from_file_location(name, so)
    mod = importlib.util.module_from_spec(spec)
    spec.loader.exec_module(mod)
    f2 = cffi.FFI()
    f2.cdef(cdef)
    lib2 = f2.dlopen(so)
    f3 = cffi.FFI()
    f3.cdef(cdef)
    f3.set_source(name + "_ool", None)
    py = os.path.join(d, name + "_ool.py")
    f3.emit_python_code(py)
    spec = importlib.util.spec_from_file_location(name + "_ool", py)
    m3 = importlib.util.module_from_spec(spec)
    spec.loader.exec_module(m3)
    lib3 = m3.ffi.dlopen(so)
    bad = []
    ncalls = 0
    for si, kinds in enumerate(structs):
        leaves = [t for k in kinds for t in k[2]]
        vals = [leaf_value(t, w) for w, t in enumerate(leaves)]
        want = 9.0 + sum(float(v) * (w + 1) for w, v in enumerate(vals))
        paths = {
            "api": (mod.ffi, getattr(mod.lib, "sum_S%d" % si), getattr(mod.lib, "mk_S%d" % si)),
            "libffi": (mod.ffi, mod.ffi.addressof(mod.lib, "sum_S%d" % si), mod.ffi.addressof(mod.lib, "mk_S%d" % si)),
            "abi": (f2, getattr(lib2, "sum_S%d" % si), getattr(lib2, "mk_S%d" % si)),
            "ool": (m3.ffi, getattr(lib3, "sum_S%d" % si), getattr(lib3, "mk_S%d" % si)),
        }
        decl = " ".join(k[1].format(n="f%d" % j) for j, k in enumerate(kinds))
        for pname, (ff, fsum, fmk) in paths.items():
            ncalls += 3
            try:
                init = build_init(kinds, vals, ff)
                got = fsum(init, 9)
                p = ff.new("struct S%d *" % si, init)
                got2 = fsum(p[0], 9)
            except Exception as e:
                bad.append(("argument-raises", pname, decl, "%s: %s" % (type(e).__name__, e)))
                continue
            if got != want or got2 != want:
                bad.append(("argument-value", pname, decl, {"got": [got, got2], "want": want}))
            try:
                r = fmk(5)
                flat = flatten(r, ff)
            except Exception as e:
                bad.append(("result-raises", pname, decl, "%s: %s" % (type(e).__name__, e)))
                continue
            wantr = []
            for w, t in enumerate(leaves):
                if t == "char":
                    wantr.append((5 + w) % 100 + 1)
                elif t in ("float", "double"):
                    wantr.append(float(5 * 2 + w) + 0.25)
                elif t == "_Bool":
                    wantr.append((5 + w) % 2)
                elif t == "unsigned int":
                    wantr.append(0x80000000 + 5 * 3 + w * 5)
                elif t == "wchar_t":
                    wantr.append(0x100 + 5 + w)
                else:
                    wantr.append(5 * 3 + w * 5)
            if flat != wantr:
                bad.append(("result-value", pname, decl, {"got": flat, "want": wantr}))
    return len(structs), ncalls, bad


def struct_space(maxlen):
    out = []
    for n in range(1, maxlen + 1):
        out.extend(itertools.product(KINDS, repeat=n))
    by = dict((k[0], k) for k in KINDS)
    out += [(UNION_KIND,), (by["i"], UNION_KIND), (UNION_KIND, by["d"]), (by["q"], by["q"], UNION_KIND)]
    return out


def classify(kinds):
    leaves = [t for k in kinds for t in k[2]]
    cl = []
    if any(k[3] not in (None, "struct") and len(k[3]) > 1 for k in kinds):
        cl.append("multi_dim_array")
    if any(k[3] == "struct" for k in kinds):
        cl.append("nested_struct")
    if all(t in ("float", "double") for t in leaves):
        cl.append("all_sse")
    elif any(t in ("float", "double") for t in leaves):
        cl.append("mixed_sse_int")
    return cl
