"""C09 -- integer constant expressions in a cdef evaluate as C evaluates them.

E1: every expression tree of a bounded family over a literal alphabet (decimal,
octal, hex, u/l suffixes, character constants) and the operators
unary + -, + - * / % << >> & | ^, printed with minimal parentheses (so that
precedence and associativity are exercised), placed in every usage site of the
statement (enumerator, array length, bitfield width; '#define' and
'static const' for literals) and read back in in-line, out-of-line ABI and
compiled API mode.

Oracle: gcc evaluates every expression (constant initialisers of a table read
with ctypes).  A typed C evaluator decides which expressions have undefined
behaviour (excluded, counted) and which pass through unsigned arithmetic or a
character escape (classification of known root causes only); it is cross-checked
against gcc on the value AND the type of every expression it calls defined.
"""
import contextlib
import ctypes
import importlib.util
import io
import itertools
import os
import re
import subprocess

from .. import build, cref, pool
from ..build import InfraError

ID = "C09"
LEVEL = "exploration"
META = dict(
    engine="E1-enum", level="exploration",
    technique="bounded exhaustive enumeration of integer constant expression trees over a literal/operator alphabet, "
              "each placed in every usage site and read back in 3 modes, with gcc as value oracle and a typed C "
              "evaluator (itself checked against gcc) to exclude undefined behaviour",
    text="All expressions of four families (all literals with up to two unary signs; all binary operations over signed "
         "literal atoms; all trees of depth <= 2 over a literal subset; thorough: all parenthesis-free chains of three "
         "binary operators) "
         "are written into enum/array/bitfield declarations (literals also into #define and static const), parsed by "
         "cdef() and read back through lib.X, integer_const, ctype.length/sizeof and bitsize in in-line, out-of-line "
         "ABI and API mode; each must equal the value gcc computes for the same text.  Expressions whose C evaluation "
         "is undefined are excluded by a typed evaluator that agrees with gcc on value and type of every other one.",
    note="gcc 12 on this machine is the authority (int 32 bits, long 64 bits, plain char signed; >> of a negative "
         "value is arithmetic); signed << overflow, negative << and out-of-range shift counts are treated as undefined")

# ---------------------------------------------------------------------------------------
# alphabets

L20 = ["0", "1", "2", "7", "010", "0x1F", "0xFFFFFFFF", "2147483647", "2147483648", "4294967295",
       "1u", "2U", "3l", "5UL", "7ull", "'a'", "'\\n'", "'\\\\'", "'\\''", "'\\0'"]
LX = ["00", "0X1f", "0x7fffffff", "0x80000000", "017777777777", "037777777777", "0xffffffffffffffff",
      "0x7FFFFFFFFFFFFFFF", "0x8000000000000000", "9223372036854775807", "4294967296", "1lu", "1LLU",
      "10uLL", "0l", "0u",
      "'\\t'", "'\\r'", "'\\v'", "'\\f'", "'\\a'", "'\\b'", "'\\?'", "'~'", "' '"]
# operands that need more than 53 bits (a float detour loses them) and their small partners
BIG = ["0x7FFFFFFFFFFFFFFF", "9223372036854775807", "9007199254740993", "9007199254740995", "0x20000000000001",
       "4611686018427387905", "18446744073709551615u", "0xFFFFFFFFFFFFFFFF", "0x8000000000000001"]
SMALL = ["1", "2", "3", "7", "1000", "0x1F", "'a'", "4294967296"]
UNOPS = ["+", "-"]
BINOPS = ["+", "-", "*", "/", "%", "<<", ">>", "&", "|", "^"]
PREC = {"*": 11, "/": 11, "%": 11, "+": 10, "-": 10, "<<": 9, ">>": 9, "&": 6, "^": 5, "|": 4}
S3_QUICK = ["2", "7"]
S3_THOROUGH = ["1", "7", "0x1F", "2147483647"]
S4_LITS = ["2", "7"]
CONST_TYPES = ["int", "unsigned int", "long", "unsigned long", "long long", "unsigned long long", "short",
               "unsigned char"]
BLOCK = 600
MODES = ("inline", "abi", "api")

# expression nodes: ("L", text) | ("U", op, e) | ("B", op, l, r)


def lit(t):
    return ("L", t)


def text_of(e):
    k = e[0]
    if k == "L":
        return e[1]
    if k == "U":
        s = text_of(e[2])
        if e[2][0] == "B":
            return "%s(%s)" % (e[1], s)
        if s[0] == e[1]:
            return "%s %s" % (e[1], s)        # never print '--' or '++'
        return e[1] + s
    p = PREC[e[1]]
    ls, rs = text_of(e[2]), text_of(e[3])
    if e[2][0] == "B" and PREC[e[2][1]] < p:
        ls = "(%s)" % ls
    if e[3][0] == "B" and PREC[e[3][1]] <= p:
        rs = "(%s)" % rs
    return "%s %s %s" % (ls, e[1], rs)


def nops(e):
    if e[0] == "L":
        return 0
    return 1 + sum(nops(x) for x in e[2:])


def trees_depth(lits, depth):
    """All trees of depth <= `depth` (depth 0 = literal) over all operators."""
    cur = [lit(t) for t in lits]
    for _ in range(depth):
        nxt = [lit(t) for t in lits]
        nxt += [("U", op, e) for op in UNOPS for e in cur]
        nxt += [("B", op, a, b) for op in BINOPS for a in cur for b in cur]
        cur = nxt
    return cur


def trees_depth2_one_deep_child(lits):
    """The trees of depth <= 2 in which a binary root has at most one binary child."""
    d1 = trees_depth(lits, 1)
    out = list(d1)
    out += [("U", op, e) for op in UNOPS for e in d1]
    out += [("B", op, a, b) for op in BINOPS for a in d1 for b in d1 if not (a[0] == "B" and b[0] == "B")]
    return out


def trees_binops(lits, n):
    """All trees with exactly n binary operators (no unary) over the literals."""
    if n == 0:
        return [lit(t) for t in lits]
    out = []
    for k in range(n):
        left, right = trees_binops(lits, k), trees_binops(lits, n - 1 - k)
        out += [("B", op, a, b) for op in BINOPS for a in left for b in right]
    return out


def families(ctx):
    fam = []
    allit = L20 + LX
    s0 = [lit(t) for t in allit]
    s0 += [("U", op, lit(t)) for op in UNOPS for t in allit]
    s0 += [("U", o1, ("U", o2, lit(t))) for o1 in UNOPS for o2 in UNOPS for t in allit]
    fam.append(("S0 literals (%d) with 0..2 unary signs" % len(allit), s0))
    sx = [("B", op, lit(a), lit(b)) for op in BINOPS for a in BIG for b in SMALL]
    sx += [("B", op, lit(b), lit(a)) for op in BINOPS for a in BIG for b in SMALL]
    sx += [("B", op, lit(a), lit(b)) for op in BINOPS for a in BIG for b in BIG]
    sx += [("B", op, ("U", "-", lit(a)), lit(b)) for op in ("/", "%", "*", ">>") for a in BIG for b in SMALL]
    fam.append(("S1x all binary operations between %d literals beyond 53 bits and %d small ones (both orders), and "
                "among the big ones" % (len(BIG), len(SMALL)), sx))
    if ctx.quick:
        s1 = [("B", op, lit(a), lit(b)) for op in BINOPS for a in L20 for b in L20]
        fam.append(("S1 all binary operations over the 20 literals", s1))
        fam.append(("S3 all trees of depth <= 2 over literals %s except binary roots with two binary children"
                    % S3_QUICK, trees_depth2_one_deep_child(S3_QUICK)))
    else:
        atoms = [lit(t) for t in L20] + [("U", op, lit(t)) for op in UNOPS for t in L20]
        s2 = [("B", op, a, b) for op in BINOPS for a in atoms for b in atoms]
        fam.append(("S2 all binary operations over atoms {l, -l, +l}, l in the 20 literals", s2))
        fam.append(("S3 ALL trees of depth <= 2 over literals %s" % S3_QUICK, trees_depth(S3_QUICK, 2)))
        fam.append(("S3b all trees of depth <= 2 over literals %s except binary roots with two binary children"
                    % S3_THOROUGH, trees_depth2_one_deep_child(S3_THOROUGH)))
        s4 = [e for e in trees_binops(S4_LITS, 3) if "(" not in text_of(e)]
        fam.append(("S4 all parenthesis-free chains 'a op b op c op d' (depth 3) over literals %s, as grouped by C "
                    "precedence and associativity" % S4_LITS, s4))
    return fam


# ---------------------------------------------------------------------------------------
# typed C evaluator (classifies undefined behaviour and known root causes; validated against gcc)

class UB(Exception):
    pass


INT, UINT, LONG, ULONG, LLONG, ULLONG = range(6)
TNAME = ["int", "unsigned int", "long", "unsigned long", "long long", "unsigned long long"]
_T = None       # [(rank, signed, bits)] measured by gcc
ESCAPES = {"n": 10, "t": 9, "r": 13, "0": 0, "\\": 92, "'": 39, '"': 34, "a": 7, "b": 8, "f": 12, "v": 11, "?": 63}


def types():
    global _T
    if _T is None:
        f = cref.int_facts()
        _T = [(i // 2, f[n][1], 8 * f[n][0]) for i, n in enumerate(TNAME)]
        for i, n in enumerate(TNAME):
            if f[n][1] != (i % 2 == 0):
                raise InfraError("unexpected signedness of %s" % n)
        _T.append(f["char"][1])
    return _T


def trange(t):
    rank, signed, bits = types()[t]
    return (-(1 << (bits - 1)), (1 << (bits - 1)) - 1) if signed else (0, (1 << bits) - 1)


def fits(t, v):
    lo, hi = trange(t)
    return lo <= v <= hi


def literal(text):
    """-> (type, value, flags)"""
    if text[0] == "'":
        body = text[1:-1]
        if body[0] == "\\":
            v = ESCAPES[body[1]]
            naive = ord(body[-1])
        else:
            v = naive = ord(body)
        if v > 127 and types()[6]:
            v -= 256
        return INT, v, (frozenset(["char_escape"]) if naive != v else frozenset())
    s = text.lower()
    digits = s.rstrip("ul")
    suf = s[len(digits):]
    nu, nl = suf.count("u"), suf.count("l")
    if digits.startswith("0x"):
        base, v = 16, int(digits, 16)
    elif digits.startswith("0") and len(digits) > 1:
        base, v = 8, int(digits, 8)
    else:
        base, v = 10, int(digits, 10)
    if nu and nl == 0:
        cand = [UINT, ULONG, ULLONG]
    elif nu and nl == 1:
        cand = [ULONG, ULLONG]
    elif nu:
        cand = [ULLONG]
    elif nl == 0:
        cand = [INT, LONG, LLONG] if base == 10 else [INT, UINT, LONG, ULONG, LLONG, ULLONG]
    elif nl == 1:
        cand = [LONG, LLONG] if base == 10 else [LONG, ULONG, LLONG, ULLONG]
    else:
        cand = [LLONG] if base == 10 else [LLONG, ULLONG]
    for t in cand:
        if fits(t, v):
            return t, v, frozenset()
    raise UB("literal_has_no_standard_type")


def common(ta, tb):
    T = types()
    if ta == tb:
        return ta
    (ra, sa, ba), (rb, sb, bb) = T[ta], T[tb]
    if sa == sb:
        return ta if ra > rb else tb
    (tu, ru, bu), (ts, rs, bs) = ((ta, ra, ba), (tb, rb, bb)) if not sa else ((tb, rb, bb), (ta, ra, ba))
    if ru >= rs:
        return tu
    if bs > bu:
        return ts
    return ts + 1          # the unsigned type corresponding to the signed one


def convert(v, t, flags):
    """value v (of some type) converted to type t; notes when a negative becomes unsigned."""
    rank, signed, bits = types()[t]
    if signed:
        if not fits(t, v):          # cannot happen with the usual conversions on this platform
            raise UB("implementation_defined_narrowing")
        return v
    if v < 0:
        flags.add("unsigned_convert")
    return v % (1 << bits)


_memo = {}


def evaluate(e, stats=None):
    """-> (type, value, frozenset(flags)); raises UB(reason)."""
    if e in _memo:
        r = _memo[e]
        if isinstance(r, UB):
            raise r
        return r
    try:
        r = _evaluate(e, stats)
    except UB as u:
        _memo[e] = u
        raise
    _memo[e] = r
    return r


def _evaluate(e, stats):
    k = e[0]
    if k == "L":
        return literal(e[1])
    T = types()
    if k == "U":
        t, v, fl = evaluate(e[2], stats)
        if e[1] == "+":
            return t, v, fl
        rank, signed, bits = T[t]
        if signed:
            if not fits(t, -v):
                raise UB("signed_overflow")
            return t, -v, fl
        fl = set(fl)
        if v != 0:
            fl.add("unsigned_wrap")
        return t, (-v) % (1 << bits), frozenset(fl)
    op = e[1]
    ta, a, fa = evaluate(e[2], stats)
    tb, b, fb = evaluate(e[3], stats)
    fl = set(fa) | set(fb)
    if op in ("<<", ">>"):
        rank, signed, bits = T[ta]
        if b < 0:
            raise UB("negative_shift_count")
        if b >= bits:
            raise UB("shift_count_ge_width")
        if op == "<<":
            if signed:
                if a < 0:
                    raise UB("left_shift_of_negative")
                if not fits(ta, a << b):
                    raise UB("left_shift_overflow")
                return ta, a << b, frozenset(fl)
            r = (a << b) % (1 << bits)
            if r != a << b:
                fl.add("unsigned_wrap")
            return ta, r, frozenset(fl)
        if a < 0:
            fl.add("right_shift_of_negative")      # implementation-defined; gcc: arithmetic
        return ta, a >> b, frozenset(fl)
    t = common(ta, tb)
    rank, signed, bits = T[t]
    a, b = convert(a, t, fl), convert(b, t, fl)
    if op in ("/", "%"):
        if b == 0:
            raise UB("division_by_zero")
        lo, hi = trange(t)
        if signed and a == lo and b == -1:
            raise UB("signed_overflow")
        q = abs(a) // abs(b)
        if (a < 0) != (b < 0):
            q = -q
        if signed:
            fl.add("div_%s%s_%s" % ("n" if a < 0 else "p", "n" if b < 0 else "p",
                                    "exact" if a % b == 0 else "inexact"))
        return t, (q if op == "/" else a - q * b), frozenset(fl)
    if op == "+":
        r = a + b
    elif op == "-":
        r = a - b
    elif op == "*":
        r = a * b
    elif op == "&":
        r = a & b
    elif op == "|":
        r = a | b
    else:
        r = a ^ b
    if signed:
        if not fits(t, r):
            raise UB("signed_overflow")
        return t, r, frozenset(fl)
    if r != r % (1 << bits):
        fl.add("unsigned_wrap")
    return t, r % (1 << bits), frozenset(fl)


def cause_of(flags):
    esc = "char_escape" in flags
    uns = "unsigned_wrap" in flags or "unsigned_convert" in flags
    if esc and uns:
        return "char_escape+unsigned_wrap_or_convert"
    if esc:
        return "char_escape"
    if uns:
        return "unsigned_wrap_or_convert"
    return "other"


# ---------------------------------------------------------------------------------------
# gcc

def _load_table(src, symbol, n):
    so = cref.compile_so(src, flags=["-std=gnu11"], name="c09ref")
    lib = ctypes.CDLL(so)
    tab = list((ctypes.c_ulonglong * n).in_dll(lib, symbol))
    for fn in (so, so + ".c"):
        try:
            os.unlink(fn)
        except OSError:
            pass
    return tab


def _sv(neg, u):
    return u - (1 << 64) if neg else u


def gcc_values(items):
    """items: [(idx, text, sites)] -> {idx: dict(value, size, signed, enum, array, bits)}"""
    decl, cells, bfd, bfi = [], [], [], []
    for i, t, sites in items:
        decl.append("enum e%d { A_%d = %s };\n" % (i, i, t))
        c = ["(%s) < 0" % t, "(unsigned long long)(%s)" % t, "sizeof(%s)" % t,
             "((__typeof__(%s))-1) < 0" % t, "A_%d < 0" % i, "(unsigned long long)A_%d" % i]
        if "array" in sites:
            decl.append("struct a%d { char a[%s]; char z; };\n" % (i, t))
            c.append("sizeof(((struct a%d *)0)->a)" % i)
        else:
            c.append("0")
        if "bitfield" in sites:
            decl.append("struct b%d { unsigned long long f : %s; };\n" % (i, t))
            bfd.append("struct b%d x%d;" % (i, i))
            bfi.append("{ ~0ULL }")
        cells.append(", ".join(c))
    src = "".join(decl) + "const unsigned long long c09_tab[] = {\n" + ",\n".join(cells) + "\n};\n"
    if bfd:
        src += "const struct { %s } c09_bits = { %s };\n" % (" ".join(bfd), ", ".join(bfi))
    so = cref.compile_so(src, flags=["-std=gnu11"], name="c09ref")
    lib = ctypes.CDLL(so)
    tab = list((ctypes.c_ulonglong * (7 * len(items))).in_dll(lib, "c09_tab"))
    bits = list((ctypes.c_ulonglong * len(bfd)).in_dll(lib, "c09_bits")) if bfd else []
    for fn in (so, so + ".c"):
        try:
            os.unlink(fn)
        except OSError:
            pass
    res = {}
    nb = 0
    for k, (i, t, sites) in enumerate(items):
        c = tab[7 * k:7 * k + 7]
        r = {"value": _sv(c[0], c[1]), "size": c[2], "signed": bool(c[3]), "enum": _sv(c[4], c[5])}
        if "array" in sites:
            r["array"] = c[6]
        if "bitfield" in sites:
            r["bitfield"] = bin(bits[nb]).count("1")
            nb += 1
        res[i] = r
    return res


# ---------------------------------------------------------------------------------------
# cffi

def _import(name, path):
    spec = importlib.util.spec_from_file_location(name, path)
    mod = importlib.util.module_from_spec(spec)
    spec.loader.exec_module(mod)
    return mod


_modcount = itertools.count()


def _err(e):
    return "error:%s: %s" % (type(e).__name__, str(e)[:160])


_r_ident = re.compile(r"(?:struct[ _][ab]|enum[ _]e|\bA_)(\d+)\b")


def culprits(exc, items):
    """Declarations named in an exception message / in gcc's diagnostics (batching aid only)."""
    have = set(i for i, _, _ in items)
    return set(int(m.group(1)) for m in _r_ident.finditer(str(exc))) & have


class GeneratedCodeRejected(Exception):
    pass


def compile_api(f, name, csource, d):
    """emit_c_code() + gcc -O0 (the setuptools driver behind ffi.compile() is not what is judged here)."""
    cfile = os.path.join(d, name + ".c")
    f.set_source(name, csource)
    with contextlib.redirect_stdout(io.StringIO()):
        f.emit_c_code(cfile)
    so = os.path.join(d, name + build.EXT_SUFFIX)
    p = subprocess.run(["gcc", "-O0", "-g0", "-w", "-std=gnu11", "-shared", "-fPIC", "-I" + build.INCLUDEPY,
                        cfile, "-o", so], stdout=subprocess.PIPE, stderr=subprocess.STDOUT, text=True)
    if p.returncode != 0:
        raise GeneratedCodeRejected(p.stdout)
    return so


def open_mode(mode, text, tag, reuse=None):
    """One FFI of the given mode over the declarations -> (ffi, lib, has_integer_const).
    `reuse`: an in-line FFI that already parsed exactly `text` (out-of-line ABI only)."""
    import cffi
    if reuse is not None:
        f = reuse
    else:
        f = cffi.FFI()
        f.cdef(text)
    if mode == "inline":
        return f, f.dlopen(None), False
    d = os.path.join(build.scratch(), "c09")
    os.makedirs(d, exist_ok=True)
    name = "c09_%s_%s_%d_%d" % (tag, mode, os.getpid(), next(_modcount))
    if mode == "abi":
        f.set_source(name, None)
        f.compile(tmpdir=d, verbose=0)
        py = os.path.join(d, name + ".py")
        m = _import(name, py)
        os.unlink(py)
        return m.ffi, m.ffi.dlopen(None), True
    so = compile_api(f, name, text, d)
    m = _import(name, so)
    for fn in (so, os.path.join(d, name + ".c")):
        try:
            os.unlink(fn)
        except OSError:
            pass
    return m.ffi, m.lib, True


def decl_text(items, mode="inline"):
    """The declarations of a block.  In API mode the array is a typedef (no generated checking
    function per declaration: several times cheaper to compile); in the two ABI modes it is a
    struct member (the in-line parser re-declares every typedef name on each typeof() call)."""
    out = []
    for i, t, sites in items:
        out.append("enum e%d { A_%d = %s };\n" % (i, i, t))
        if "array" in sites:
            if mode == "api":
                out.append("typedef char ta%d[%s];\n" % (i, t))
            else:
                out.append("struct a%d { char a[%s]; char z; };\n" % (i, t))
        if "bitfield" in sites:
            out.append("struct b%d { unsigned long long f : %s; };\n" % (i, t))
    return "".join(out)


def observe(ffi, lib, has_ic, i, sites, mode):
    """-> {site: [observations]}; a site may be observed through several accessors, all must agree."""
    o = {}
    nm = "A_%d" % i
    acc = []
    try:
        acc.append(getattr(lib, nm))
    except Exception as e:
        acc.append(_err(e))
    if has_ic:
        try:
            acc.append(ffi.integer_const(nm))
        except Exception as e:
            acc.append(_err(e))
    o["enum"] = acc
    if "array" in sites:
        try:
            if mode == "api":
                ft = ffi.typeof("ta%d" % i)
            else:
                ft = dict(ffi.typeof("struct a%d" % i).fields)["a"].type
            o["array"] = [ft.length, ffi.sizeof(ft)]
        except Exception as e:
            o["array"] = [_err(e)]
    if "bitfield" in sites:
        try:
            o["bitfield"] = [dict(ffi.typeof("struct b%d" % i).fields)["f"].bitsize]
        except Exception as e:
            o["bitfield"] = [_err(e)]
    return o


def read_all(mode, ffi, lib, has_ic, items, want, out, seen=None):
    for i, t, sites in items:
        o = observe(ffi, lib, has_ic, i, sites, mode)
        if seen is not None:
            seen[i] = o
        for site, got in o.items():
            exp = want[i][site]
            if any(g != exp for g in got):
                kind = "error" if any(isinstance(g, str) for g in got) else "value"
                out.append((mode, i, site, kind, got, exp))


def run_mode(mode, items, want, out, tag="x", seen=None):
    """items [(idx, text, sites)]; appends (mode, idx, site, kind, observed, expected) to out.
    If the declarations cannot be processed together the group is split until the
    declaration(s) responsible are alone.  Returns the FFI when everything opened at once."""
    try:
        ffi, lib, has_ic = open_mode(mode, decl_text(items, mode), tag)
    except Exception as e:
        if len(items) == 1:
            out.append((mode, items[0][0], "all", "rejected", _err(e), None))
            return None
        named = culprits(e, items) if isinstance(e, GeneratedCodeRejected) else set()
        if named and len(named) < len(items):
            # gcc's diagnostics are located in the code generated for these declarations
            for it in items:
                if it[0] in named:
                    out.append((mode, it[0], "all", "rejected",
                                "error:generated C does not compile: " + _diag_for(e, it[0]), None))
            run_mode(mode, [it for it in items if it[0] not in named], want, out, tag, seen)
            return None
        h = len(items) // 2
        run_mode(mode, items[:h], want, out, tag, seen)
        run_mode(mode, items[h:], want, out, tag, seen)
        return None
    read_all(mode, ffi, lib, has_ic, items, want, out, seen)
    return ffi if mode == "inline" else None


def _diag_for(exc, i):
    lines = str(exc).splitlines()
    for k, ln in enumerate(lines):
        if "error:" in ln:
            ctx = " ".join(lines[max(0, k - 1):k + 3])
            if i in set(int(m.group(1)) for m in _r_ident.finditer(ctx)):
                return ln.split("error:", 1)[1].strip()[:120]
    return "see gcc output"


def run_abi(items, want, out, ffi_inline, seen_inline):
    """Out-of-line ABI: emit from the very FFI that was used in-line; if that fails as a whole,
    take apart: declarations whose in-line value already lies outside what the emitter can
    encode are run alone, the rest together (run_mode splits further if needed)."""
    if ffi_inline is not None:
        try:
            ffi, lib, has_ic = open_mode("abi", None, "x", reuse=ffi_inline)
        except Exception:
            pass
        else:
            read_all("abi", ffi, lib, has_ic, items, want, out)
            return
    alone, rest = [], []
    for it in items:
        v = seen_inline.get(it[0], {}).get("enum", [None])[0]
        ok = isinstance(v, int) and -2 ** 63 <= v < 2 ** 64 and ("array" not in it[2] or 0 <= v < 2 ** 31)
        (rest if ok else alone).append(it)
    for it in alone:
        run_mode("abi", [it], want, out)
    if rest:
        run_mode("abi", rest, want, out)


def sites_for(v):
    s = ["enum"]
    if 0 <= v < 2 ** 31:
        s.append("array")
    if 1 <= v <= 64:
        s.append("bitfield")
    return s


def work(job):
    """job = ("expr", first index, [node, ...]) | ("lits", ...)"""
    if job[0] == "lits":
        return work_lits(job)
    _, base, nodes = job
    counts = {}

    def cnt(k, n=1):
        counts[k] = counts.get(k, 0) + n
    items, info = [], {}
    for k, e in enumerate(nodes):
        i = base + k
        try:
            t, v, fl = evaluate(e)
        except UB as u:
            cnt("excluded_undefined_" + str(u))
            continue
        txt = text_of(e)
        sites = sites_for(v)
        items.append((i, txt, sites))
        info[i] = (e, t, v, fl)
        for s in sites:
            cnt("site_" + s)
        for f in fl:
            cnt("class_" + f)
        if nops(e):
            cnt("defined_with_operator")
        cnt("result_type_" + TNAME[t].replace(" ", "_"))
        if v < 0:
            cnt("value_negative")
    viol, samples = [], []
    if not items:
        return len(nodes), 0, 0, counts, viol, samples
    ref = gcc_values(items)
    want = {}
    T = types()
    for i, txt, sites in items:
        e, t, v, fl = info[i]
        r = ref[i]
        rank, signed, bits = T[t]
        if (r["value"], r["size"] * 8, r["signed"]) != (v, bits, signed):
            raise InfraError("typed evaluator disagrees with gcc on %r: evaluator %r %s, gcc %r" % (
                txt, v, TNAME[t], r))
        if r["enum"] != v or ("array" in sites and r["array"] != v) or ("bitfield" in sites and r["bitfield"] != v):
            raise InfraError("gcc's value of %r differs between usage sites: %r" % (txt, r))
        want[i] = {"enum": v, "array": v, "bitfield": v}
    out = []
    seen = {}
    ffi_inline = run_mode("inline", items, want, out, seen=seen)
    run_abi(items, want, out, ffi_inline, seen)
    # batching only: what cdef() itself refused in-line is declared alone again (it would make
    # the whole module's cdef() fail and force a search by halving, every step a compilation)
    refused = set(i for m, i, site, kind, _, _ in out if m == "inline" and kind == "rejected")
    for it in items:
        if it[0] in refused:
            run_mode("api", [it], want, out)
    rest = [it for it in items if it[0] not in refused]
    if rest:
        run_mode("api", rest, want, out)
    bad_idx = set()
    for mode, i, site, kind, got, exp in out:
        e, t, v, fl = info[i]
        bad_idx.add(i)
        viol.append(({"kind": kind, "cause": cause_of(fl), "site": site, "mode": mode},
                     {"expr": e, "text": text_of(e), "site": site, "mode": mode, "kind": kind,
                      "observed": got, "gcc": v, "c_type": TNAME[t], "flags": sorted(fl)}))
    nflag_ok = 0
    for i, txt, sites in items:
        fl = info[i][3]
        if cause_of(fl) != "other" and i not in bad_idx:
            nflag_ok += 1
    cnt("flagged_root_cause_but_cffi_agrees", nflag_ok)
    for i, txt, sites in items[:2]:
        samples.append({"expr": txt, "gcc": info[i][2], "c_type": TNAME[info[i][1]], "sites": sites})
    nontriv = sum(1 for i, _, _ in items if nops(info[i][0]))
    return len(nodes), len(items), nontriv, counts, viol, samples


# ---- '#define NAME literal' and 'static const T NAME = literal' ----------------------------------

def work_lits(job):
    _, lits = job
    counts = {}

    def cnt(k, n=1):
        counts[k] = counts.get(k, 0) + n
    T = types()
    cases = []          # (name, cdef line, c value expr, node, kind)
    n = 0
    for t in lits:
        for sign in ("", "-"):
            node = lit(t) if not sign else ("U", "-", lit(t))
            txt = sign + t
            cases.append(("D_%d" % n, "#define D_%d %s\n" % (n, txt), "(%s)" % txt, node, "define", None))
            for j, ct in enumerate(CONST_TYPES):
                cases.append(("K_%d_%d" % (n, j), "static const %s K_%d_%d = %s;\n" % (ct, n, j, txt),
                              "((%s)(%s))" % (ct, txt), node, "static_const", ct))
            n += 1
    cells = []
    for name, line, cexpr, node, kind, ct in cases:
        txt = text_of(node)
        cells.append("%s < 0, (unsigned long long)%s, (%s) < 0, (unsigned long long)(%s)" % (cexpr, cexpr, txt, txt))
    src = "const unsigned long long c09_tab[] = {\n" + ",\n".join(cells) + "\n};\n"
    tab = _load_table(src, "c09_tab", 4 * len(cases))
    used, want, info = [], {}, {}
    for k, (name, line, cexpr, node, kind, ct) in enumerate(cases):
        c = tab[4 * k:4 * k + 4]
        stored, exprv = _sv(c[0], c[1]), _sv(c[2], c[3])
        try:
            t, v, fl = evaluate(node)
        except UB as u:
            cnt("excluded_undefined_" + str(u))
            continue
        if v != exprv:
            raise InfraError("typed evaluator disagrees with gcc on literal %r: %r vs %r" % (text_of(node), v, exprv))
        if stored != exprv:
            cnt("excluded_static_const_type_cannot_hold_the_value")
            continue
        used.append((name, line))
        want[name] = exprv
        info[name] = (node, kind, ct, fl, t)
        cnt("site_" + kind)
    text = "".join(line for _, line in used)
    out = []

    def go(mode, sub):
        try:
            ffi, lib, has_ic = open_mode(mode, "".join(line for _, line in sub), "lit")
        except Exception as e:
            if len(sub) == 1:
                out.append((mode, sub[0][0], "rejected", [_err(e)]))
                return
            h = len(sub) // 2
            go(mode, sub[:h])
            go(mode, sub[h:])
            return
        for name, line in sub:
            acc = []
            try:
                acc.append(getattr(lib, name))
            except Exception as e:
                acc.append(_err(e))
            if has_ic:
                try:
                    acc.append(ffi.integer_const(name))
                except Exception as e:
                    acc.append(_err(e))
            if any(a != want[name] for a in acc):
                out.append((mode, name, "error" if any(isinstance(a, str) for a in acc) else "value", acc))
    for mode in MODES:
        go(mode, used)
    viol = []
    lines = dict(used)
    for mode, name, kind, got in out:
        node, site, ct, fl, t = info[name]
        viol.append(({"kind": kind, "cause": cause_of(fl), "site": site, "mode": mode},
                     {"literal_site": True, "decl": lines[name], "expr": node, "text": text_of(node), "site": site,
                      "const_type": ct, "mode": mode, "kind": kind, "observed": got, "gcc": want[name],
                      "flags": sorted(fl)}))
    samples = [{"decl": l.strip(), "gcc": want[nm]} for nm, l in used[:2]]
    return len(cases), len(used), len(used), counts, viol, samples


# ---------------------------------------------------------------------------------------

def run(ctx):
    types()
    fam = families(ctx)
    seen = {}
    order = []
    famsizes = []
    for label, nodes in fam:
        new = 0
        for e in nodes:
            t = text_of(e)
            if t not in seen:
                seen[t] = e
                order.append(e)
                new += 1
        famsizes.append((label, len(nodes), new))
        ctx.log("%s: %d trees, %d new distinct texts" % (label, len(nodes), new))
    jobs = [("lits", [t for t in L20 + LX if t[0] != "'"])]
    for i in range(0, len(order), BLOCK):
        jobs.append(("expr", i, order[i:i + BLOCK]))
    ctx.log("%d distinct expressions, %d blocks" % (len(order), len(jobs)))
    tot = defined = nontriv = 0
    for job, r in pool.pmap(work, [[j] for j in jobs], item_timeout=1500):
        if isinstance(r, pool.WorkerError):
            raise InfraError("worker failed: %s" % r.tb)
        if isinstance(r, pool.Crash):
            ctx.violation({"kind": "crash"}, {"job": job, "how": r.describe()})
            continue
        n, nd, nt, counts, viol, samples = r
        tot += n
        defined += nd
        nontriv += nt
        for k, v in counts.items():
            ctx.count(k, v)
        for s in samples:
            ctx.sample(s)
        for sig, detail in viol:
            ctx.violation(sig, detail)
    cov = {
        "evaluations": defined * len(MODES),
        "distinct_nontrivial": nontriv,
        "rule": "families (trees, new distinct texts): %s; plus every non-character literal with and without '-' as "
                "'#define' and as 'static const T' for T in %s; every expression is an enumerator value, an array "
                "length when 0 <= v < 2^31 and a bitfield width when 1 <= v <= 64; non-trivial = C-defined expression "
                "containing at least one operator, or a literal-site declaration (distinct texts counted); excluded: "
                "expressions the typed evaluator classifies as undefined behaviour, and static const declarations whose "
                "type cannot hold the literal's value" % (
                    "; ".join("%s: %d, %d" % f for f in famsizes), CONST_TYPES),
        "exhaustive": True,
        "expressions_enumerated": tot,
        "expressions_defined": defined,
        "bound": {"families": [f[0] for f in famsizes]},
    }
    return ctx.finish(cov, ["gcc 12 evaluates every expression; the typed evaluator only classifies (UB, root cause) and "
                            "is checked against gcc on value, size and signedness of every defined expression",
                            "array lengths >= 2^31 are not placed (documented limit of the out-of-line emitter)",
                            "static const: compared only when the declared type can hold the literal's value"])


def _tup(x):
    return tuple(_tup(y) for y in x) if isinstance(x, list) else x


def replay(detail):
    node = _tup(detail["expr"])
    types()
    if detail.get("literal_site"):
        t = node[1] if node[0] == "L" else node[2][1]
        r = work_lits(("lits", [t]))
    else:
        r = work(("expr", 0, [node]))
    hit = 0
    print("expression:", text_of(node))
    for sig, d in r[4]:
        if sig["site"] == detail["site"] and sig["mode"] == detail["mode"] and \
                d.get("const_type") == detail.get("const_type") and d["text"] == detail["text"]:
            print("MISMATCH mode=%s site=%s: observed %r, gcc %r (cause class: %s)" % (
                sig["mode"], sig["site"], d["observed"], d["gcc"], sig["cause"]))
            hit += 1
    if not hit:
        print("no mismatch")
    return 1 if hit else 0
