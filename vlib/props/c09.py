"""C09 -- integer constant expressions in a cdef evaluate as C evaluates them.

E1: every expression tree of a bounded family over a literal alphabet (decimal,
octal, hex, u/l suffixes, character constants), names of earlier constants, and
the operators unary + -, + - * / % << >> & | ^, printed with minimal parentheses
(so that precedence and associativity are exercised; one family also densely,
fully parenthesised and with comments between the tokens), placed in every usage
site of the statement (enumerator, array length, bitfield width; '#define' and
'static const' for literals) and read back in in-line, out-of-line ABI and
compiled API mode.

Oracle: gcc evaluates every expression (constant initialisers of a table read
with ctypes).  A typed C evaluator decides which expressions have undefined
behaviour (excluded, counted) and which pass through unsigned arithmetic or a
character escape (classification of known root causes only); it is cross-checked
against gcc on the value AND the type of every expression it calls defined.
"""
import contextlib
import ctypes
import importlib.util
import io
import itertools
import os
import re
import subprocess

from .. import build, cref, pool
from ..build import InfraError

ID = "C09"
LEVEL = "exploration"
META = dict(
    engine="E1-enum", level="exploration",
    technique="bounded exhaustive enumeration of integer constant expression trees over a literal/name/operator "
              "alphabet, each placed in every usage site and read back in 3 modes, with gcc as value oracle and a "
              "typed C evaluator (itself checked against gcc) to exclude undefined behaviour",
    text="All expressions of these families: all literals and all 93 + 12 character constants with up to two unary "
         "signs; all binary operations over signed literal atoms; all trees of depth <= 2 over a literal subset; "
         "thorough: all parenthesis-free chains of three binary operators; all binary operations in which an operand is "
         "the NAME of an earlier constant (#define, enumerator incl. implicit values and enumerators of the enum being "
         "declared, static const), the names being declared in the same cdef() call, in an earlier call or in an "
         "include()d FFI; the trees of depth <= 2 printed in three more ways (dense, fully parenthesised, a comment "
         "between every two tokens).  They "
         "are written into enum/array/bitfield declarations (array lengths up to 2^62; some families also as inner "
         "dimension, pointed-to array, parameter array and int bitfield; literals also into #define and static const "
         "over 20 spellings of an integer type and 3 declaration forms), parsed by "
         "cdef() and read back through lib.X, integer_const, ctype.length/sizeof and bitsize in in-line, out-of-line "
         "ABI and API mode; each must equal the value gcc computes for the same text.  Expressions whose C evaluation "
         "is undefined are excluded by a typed evaluator that agrees with gcc on value and type of every other one.  "
         "Duration: quick about 80 s, thorough about 5-6 min on the idle 16-core machine (20 min at load 80).",
    note="gcc 12 on this machine is the authority (int 32 bits, long 64 bits, plain char signed; >> of a negative "
         "value is arithmetic); signed << overflow, negative << and out-of-range shift counts are treated as undefined; "
         "a 'static const T NAME' mentioned in a later expression is given to gcc as the cast literal it stands for")

# ---------------------------------------------------------------------------------------
# alphabets

L20 = ["0", "1", "2", "7", "010", "0x1F", "0xFFFFFFFF", "2147483647", "2147483648", "4294967295",
       "1u", "2U", "3l", "5UL", "7ull", "'a'", "'\\n'", "'\\\\'", "'\\''", "'\\0'"]
LX = ["00", "0X1f", "0x7fffffff", "0x80000000", "017777777777", "037777777777", "0xffffffffffffffff",
      "0x7FFFFFFFFFFFFFFF", "0x8000000000000000", "9223372036854775807", "4294967296", "1lu", "1LLU",
      "10uLL", "0l", "0u", "5LL", "5ll", "0XFFul",
      "'\\t'", "'\\r'", "'\\v'", "'\\f'", "'\\a'", "'\\b'", "'\\?'", "'~'", "' '"]
# operands that need more than 53 bits (a float detour loses them) and their small partners
BIG = ["0x7FFFFFFFFFFFFFFF", "9223372036854775807", "9007199254740993", "9007199254740995", "0x20000000000001",
       "4611686018427387905", "18446744073709551615u", "0xFFFFFFFFFFFFFFFF", "0x8000000000000001"]
SMALL = ["1", "2", "3", "7", "1000", "0x1F", "'a'", "4294967296"]
UNOPS = ["+", "-"]
BINOPS = ["+", "-", "*", "/", "%", "<<", ">>", "&", "|", "^"]
PREC = {"*": 11, "/": 11, "%": 11, "+": 10, "-": 10, "<<": 9, ">>": 9, "&": 6, "^": 5, "|": 4}
S3_QUICK = ["2", "7"]
S3_THOROUGH = ["1", "7", "0x1F", "2147483647"]
S4_LITS = ["2", "7"]
CONST_TYPES = ["int", "unsigned int", "long", "unsigned long", "long long", "unsigned long long", "short",
               "unsigned char"]
# audit gap 3: more spellings of 'an integer type' (cparser folds the constant iff tp.is_integer_type():
# the kind letter of every one of these decides which branch a declaration takes)
CONST_TYPES2 = ["signed char", "_Bool", "int8_t", "uint64_t", "size_t", "ssize_t", "intptr_t", "unsigned",
                "long int", "int_least8_t", "uint_fast16_t", "td_u16b"]
CONST_PRELUDE = "typedef unsigned short td_u16;\ntypedef td_u16 td_u16b;\n"
CONST_INCLUDES = "#include <stdint.h>\n#include <stddef.h>\n#include <sys/types.h>\n"
FORM0 = "static const %s %s = %s;\n"
FORMS_EXTRA = ["const %s %s = %s;\n", "static %s const %s = %s;\n"]       # for FORM_TYPES only
FORM_TYPES = ["int", "unsigned long long", "td_u16b"]
BLOCK = 600
MODES = ("inline", "abi", "api")

# audit gap 1: names of earlier constants as leaves.  (cdef text, C text, type, value); in C a
# 'static const' object is not an integer constant expression, so the reference side spells it as the
# cast literal it stands for (same value, same type after the integer promotions: hence the '+')
NAMEDEFS = [
    ("#define N8 010\n", "#define N8 010\n", {"N8": ("int", 8)}),
    ("#define NM -3\n", "#define NM -3\n", {"NM": ("int", -3)}),
    ("#define NL 4294967296\n", "#define NL 4294967296\n", {"NL": ("long", 4294967296)}),
    ("enum pre { P5 = 5, P6 };\n", "enum pre { P5 = 5, P6 };\n", {"P5": ("int", 5), "P6": ("int", 6)}),
    ("enum pre2 { PN = -2, PZ };\n", "enum pre2 { PN = -2, PZ };\n", {"PN": ("int", -2), "PZ": ("int", -1)}),
    ("static const int S6 = 6;\n", "#define S6 ((int)6)\n", {"S6": ("int", 6)}),
    ("static const unsigned char UC = 200;\n", "#define UC (+(unsigned char)200)\n", {"UC": ("int", 200)}),
    ("static const long long SL = -5;\n", "#define SL ((long long)-5)\n", {"SL": ("long long", -5)}),
]
PRELUDE_CDEF = "".join(d[0] for d in NAMEDEFS)
PRELUDE_C = "".join(d[1] for d in NAMEDEFS)
NAMES = {}
for _d in NAMEDEFS:
    NAMES.update(_d[2])
NAME_LIST = ["N8", "NM", "NL", "P5", "P6", "PN", "PZ", "S6", "UC", "SL"]
I1_QUICK_NAMES = ["N8", "NM", "P6", "PZ", "S6", "UC"]     # quick: name op name over these,
I1_QUICK_LIT = "7"                                          # every name with this literal (both orders),
I1_QUICK_U = (["NM", "NL", "P5", "SL"], "1u")               # and these names with an unsigned literal
I1_THOROUGH = ["0", "1", "2", "7", "010", "0x1F", "2147483647", "1u"]
I3_QUICK = ["P6"]                         # quick: all trees with at most 2 operators over this leaf
I3_THOROUGH = ["2", "NM"]
IV_QUICK = (["7"], ("+", "/"))            # partners of the names in the 'earlier call' / 'included' variants,
IV_THOROUGH = (["2", "7", "1u"], ("+", "-", "*", "/", "%"))       # and the operators between two names
VARIANTS = (None, "same", "earlier", "included")
PRINTERS = ("min", "dense", "paren", "comment")
P_QUICK_A = ["2", "7"]                    # printers: all trees of depth <= 1 over these ...
P_QUICK_B = ["7"]                         # ... and all trees with at most 2 operators over these
P_THOROUGH = ["2", "7"]
# audit gap 5: every printable character as a plain character constant, and the 12 simple escapes
PLAIN_CHARS = [chr(c) for c in range(32, 127) if chr(c) not in "'\\"]
CHAR_LITS = ["'%s'" % c for c in PLAIN_CHARS] + ["'\\%s'" % c for c in "ntr0\\'\"abfv?"]

# expression nodes: ("L", text) | ("N", name) | ("U", op, e) | ("B", op, l, r)


def lit(t):
    return ("N", t) if t in NAMES else ("L", t)


def text_of(e, printer="min"):
    """The C text of a tree.  Printer "min": minimal parentheses, single blanks (the only printer of the
    original families).  Audit gap 4: "dense" (same tokens, no blank unless two signs would fuse into
    '--' / '++'), "paren" (every operand and every operation parenthesised, no blanks), "comment" (the
    "min" tokens with a comment between every two tokens, alternately /*+1*/ and //+1 up to a line break:
    a comment that is not removed changes the value or the syntax)."""
    if printer == "min":
        return _text_min(e)
    if printer == "paren":
        s = _text_paren(e)
        return "(%s)" % s if e[0] in "LN" else s
    toks = _tokens(e)
    if printer == "dense":
        out = [toks[0]]
        for t in toks[1:]:
            if out[-1][-1] == t[0] and t[0] in "+-":
                out.append(" ")
            out.append(t)
        return "".join(out)
    if printer == "comment":
        out = [toks[0]]
        for k, t in enumerate(toks[1:]):
            out.append(" /*+1*/ " if k % 2 == 0 else " //+1\n ")
            out.append(t)
        return "".join(out)
    raise InfraError("unknown printer %r" % (printer,))


def _text_min(e):
    k = e[0]
    if k in "LN":
        return e[1]
    if k == "U":
        s = _text_min(e[2])
        if e[2][0] == "B":
            return "%s(%s)" % (e[1], s)
        if s[0] == e[1]:
            return "%s %s" % (e[1], s)        # never print '--' or '++'
        return e[1] + s
    p = PREC[e[1]]
    ls, rs = _text_min(e[2]), _text_min(e[3])
    if e[2][0] == "B" and PREC[e[2][1]] < p:
        ls = "(%s)" % ls
    if e[3][0] == "B" and PREC[e[3][1]] <= p:
        rs = "(%s)" % rs
    return "%s %s %s" % (ls, e[1], rs)


def _tokens(e):
    """The token sequence of the "min" printer."""
    k = e[0]
    if k in "LN":
        return [e[1]]
    if k == "U":
        s = _tokens(e[2])
        return [e[1]] + (["("] + s + [")"] if e[2][0] == "B" else s)
    p = PREC[e[1]]
    ls, rs = _tokens(e[2]), _tokens(e[3])
    if e[2][0] == "B" and PREC[e[2][1]] < p:
        ls = ["("] + ls + [")"]
    if e[3][0] == "B" and PREC[e[3][1]] <= p:
        rs = ["("] + rs + [")"]
    return ls + [e[1]] + rs


def _text_paren(e):
    k = e[0]
    if k in "LN":
        return "(%s)" % e[1]
    if k == "U":
        return "(%s%s)" % (e[1], _text_paren(e[2]))
    return "(%s%s%s)" % (_text_paren(e[2]), e[1], _text_paren(e[3]))


def names_in(e):
    if e[0] == "N":
        return {e[1]}
    if e[0] == "L":
        return set()
    r = set()
    for x in e[2:]:
        r |= names_in(x)
    return r


def nops(e):
    if e[0] in "LN":
        return 0
    return 1 + sum(nops(x) for x in e[2:])


def trees_depth(lits, depth):
    """All trees of depth <= `depth` (depth 0 = literal) over all operators."""
    cur = [lit(t) for t in lits]
    for _ in range(depth):
        nxt = [lit(t) for t in lits]
        nxt += [("U", op, e) for op in UNOPS for e in cur]
        nxt += [("B", op, a, b) for op in BINOPS for a in cur for b in cur]
        cur = nxt
    return cur


def trees_depth2_one_deep_child(lits):
    """The trees of depth <= 2 in which a binary root has at most one binary child."""
    d1 = trees_depth(lits, 1)
    out = list(d1)
    out += [("U", op, e) for op in UNOPS for e in d1]
    out += [("B", op, a, b) for op in BINOPS for a in d1 for b in d1 if not (a[0] == "B" and b[0] == "B")]
    return out


def trees_maxops(lits, n):
    """All trees with at most n operators (unary and binary)."""
    by = [[lit(t) for t in lits]]
    for k in range(1, n + 1):
        cur = [("U", op, e) for op in UNOPS for e in by[k - 1]]
        for j in range(k):
            cur += [("B", op, a, b) for op in BINOPS for a in by[j] for b in by[k - 1 - j]]
        by.append(cur)
    return [e for lvl in by for e in lvl]


def trees_binops(lits, n):
    """All trees with exactly n binary operators (no unary) over the literals."""
    if n == 0:
        return [lit(t) for t in lits]
    out = []
    for k in range(n):
        left, right = trees_binops(lits, k), trees_binops(lits, n - 1 - k)
        out += [("B", op, a, b) for op in BINOPS for a in left for b in right]
    return out


def families(ctx):
    """-> [(label, (variant, more_sites), [(tree, printer), ...])].  `variant`: None = no names; "same" /
    "earlier" / "included" = where the prelude that defines the names is declared.  `more_sites`: also
    placed as inner array dimension, pointed-to array length, parameter array length and 'int' bitfield."""
    fam = []

    def add(label, nodes, variant=None, more=False, printer="min"):
        fam.append((label, (variant, more), [(e, printer) for e in nodes]))
    allit = L20 + LX
    s0 = [lit(t) for t in allit]
    s0 += [("U", op, lit(t)) for op in UNOPS for t in allit]
    s0 += [("U", o1, ("U", o2, lit(t))) for o1 in UNOPS for o2 in UNOPS for t in allit]
    add("S0 literals (%d) with 0..2 unary signs" % len(allit), s0, more=True)
    sc = [lit(t) for t in CHAR_LITS]
    sc += [("U", op, lit(t)) for op in UNOPS for t in CHAR_LITS]
    if not ctx.quick:
        sc += [("U", o1, ("U", o2, lit(t))) for o1 in UNOPS for o2 in UNOPS for t in CHAR_LITS]
    add("C0 the %d plain printable character constants and the %d simple escapes, with 0..%d unary signs"
        % (len(PLAIN_CHARS), len(CHAR_LITS) - len(PLAIN_CHARS), 1 if ctx.quick else 2), sc, more=True)
    sx = [("B", op, lit(a), lit(b)) for op in BINOPS for a in BIG for b in SMALL]
    sx += [("B", op, lit(b), lit(a)) for op in BINOPS for a in BIG for b in SMALL]
    sx += [("B", op, lit(a), lit(b)) for op in BINOPS for a in BIG for b in BIG]
    sx += [("B", op, ("U", "-", lit(a)), lit(b)) for op in ("/", "%", "*", ">>") for a in BIG for b in SMALL]
    add("S1x all binary operations between %d literals beyond 53 bits and %d small ones (both orders), and "
        "among the big ones" % (len(BIG), len(SMALL)), sx)
    if ctx.quick:
        s1 = [("B", op, lit(a), lit(b)) for op in BINOPS for a in L20 for b in L20]
        add("S1 all binary operations over the 20 literals", s1)
        add("S3 all trees of depth <= 2 over literals %s except binary roots with two binary children"
            % S3_QUICK, trees_depth2_one_deep_child(S3_QUICK))
    else:
        atoms = [lit(t) for t in L20] + [("U", op, lit(t)) for op in UNOPS for t in L20]
        s2 = [("B", op, a, b) for op in BINOPS for a in atoms for b in atoms]
        add("S2 all binary operations over atoms {l, -l, +l}, l in the 20 literals", s2)
        add("S3 ALL trees of depth <= 2 over literals %s" % S3_QUICK, trees_depth(S3_QUICK, 2))
        add("S3b all trees of depth <= 2 over literals %s except binary roots with two binary children"
            % S3_THOROUGH, trees_depth2_one_deep_child(S3_THOROUGH))
        s4 = [e for e in trees_binops(S4_LITS, 3) if "(" not in text_of(e)]
        add("S4 all parenthesis-free chains 'a op b op c op d' (depth 3) over literals %s, as grouped by C "
            "precedence and associativity" % S4_LITS, s4)
    # ---- names of earlier constants as leaves (audit gap 1)
    i1 = [lit(t) for t in NAME_LIST] + [("U", op, lit(t)) for op in UNOPS for t in NAME_LIST]
    i1 += [("U", o1, ("U", o2, lit(t))) for o1 in UNOPS for o2 in UNOPS for t in NAME_LIST]
    if ctx.quick:
        pairs = [(a, b) for a in I1_QUICK_NAMES for b in I1_QUICK_NAMES]
        pairs += [p for a in NAME_LIST for p in ((a, I1_QUICK_LIT), (I1_QUICK_LIT, a))]
        pairs += [p for a in I1_QUICK_U[0] for p in ((a, I1_QUICK_U[1]), (I1_QUICK_U[1], a))]
        i1 += [("B", op, lit(a), lit(b)) for op in BINOPS for a, b in pairs]
        add("I1 the %d names with 0..2 unary signs and all binary operations between two of the names %s, between "
            "every name and %s and between each of %s and %s (both orders); prelude in the same cdef() call" % (
                len(NAME_LIST), I1_QUICK_NAMES, I1_QUICK_LIT, I1_QUICK_U[0], I1_QUICK_U[1]), i1, variant="same")
        add("I3 all trees with at most 2 operators over the leaf %s; prelude in the same cdef() call" % I3_QUICK,
            trees_maxops(I3_QUICK, 2), variant="same")
    else:
        leaves = NAME_LIST + I1_THOROUGH
        i1 += [("B", op, lit(a), lit(b)) for op in BINOPS for a in leaves for b in leaves
               if a in NAMES or b in NAMES]
        add("I1 the %d names with 0..2 unary signs and all binary operations between a name and a name or one of "
            "the literals %s (both orders); prelude in the same cdef() call" % (len(NAME_LIST), I1_THOROUGH),
            i1, variant="same")
        add("I3 all trees of depth <= 2 over leaves %s except binary roots with two binary children; prelude in "
            "the same cdef() call" % I3_THOROUGH, trees_depth2_one_deep_child(I3_THOROUGH), variant="same")
    ivl, ivo = IV_QUICK if ctx.quick else IV_THOROUGH
    iv = [lit(t) for t in NAME_LIST] + [("U", "-", lit(t)) for t in NAME_LIST]
    iv += [("B", op, lit(a), lit(b)) for op in BINOPS for a in NAME_LIST for b in ivl]
    iv += [("B", op, lit(b), lit(a)) for op in ("-", "/", "%", "<<") for a in NAME_LIST for b in ivl]
    iv += [("B", op, lit(a), lit(b)) for op in ivo for a in NAME_LIST for b in NAME_LIST]
    for v in ("earlier", "included"):
        add("I%s the %d names, their negations, every operation 'name op l', 'l - / %% << name' for l in %s "
            "and 'name %s name'; prelude in an %s" % (
                v[0].upper(), len(NAME_LIST), ivl, " ".join(ivo),
                "earlier cdef() call of the same FFI" if v == "earlier" else "FFI that is include()d"),
            iv, variant=v, more=True)
    # ---- other spellings of the same token sequence (audit gap 4)
    if ctx.quick:
        pt = trees_depth(P_QUICK_A, 1) + trees_maxops(P_QUICK_B, 2)
        plabel = "all trees of depth <= 1 over %s and all trees with at most 2 operators over %s" % (
            P_QUICK_A, P_QUICK_B)
    else:
        pt = trees_depth2_one_deep_child(P_THOROUGH)
        plabel = "all trees of depth <= 2 over %s except binary roots with two binary children" % P_THOROUGH
    for pr in PRINTERS[1:]:
        add("P-%s %s, printed by the '%s' printer" % (pr, plabel, pr), pt, printer=pr)
    return fam


# ---------------------------------------------------------------------------------------
# typed C evaluator (classifies undefined behaviour and known root causes; validated against gcc)

class UB(Exception):
    pass


INT, UINT, LONG, ULONG, LLONG, ULLONG = range(6)
TNAME = ["int", "unsigned int", "long", "unsigned long", "long long", "unsigned long long"]
_T = None       # [(rank, signed, bits)] measured by gcc
ESCAPES = {"n": 10, "t": 9, "r": 13, "0": 0, "\\": 92, "'": 39, '"': 34, "a": 7, "b": 8, "f": 12, "v": 11, "?": 63}


def types():
    global _T
    if _T is None:
        f = cref.int_facts()
        _T = [(i // 2, f[n][1], 8 * f[n][0]) for i, n in enumerate(TNAME)]
        for i, n in enumerate(TNAME):
            if f[n][1] != (i % 2 == 0):
                raise InfraError("unexpected signedness of %s" % n)
        _T.append(f["char"][1])
    return _T


def trange(t):
    rank, signed, bits = types()[t]
    return (-(1 << (bits - 1)), (1 << (bits - 1)) - 1) if signed else (0, (1 << bits) - 1)


def fits(t, v):
    lo, hi = trange(t)
    return lo <= v <= hi


def literal(text):
    """-> (type, value, flags)"""
    if text[0] == "'":
        body = text[1:-1]
        if body[0] == "\\":
            v = ESCAPES[body[1]]
            naive = ord(body[-1])
        else:
            v = naive = ord(body)
        if v > 127 and types()[6]:
            v -= 256
        return INT, v, (frozenset(["char_escape"]) if naive != v else frozenset())
    s = text.lower()
    digits = s.rstrip("ul")
    suf = s[len(digits):]
    nu, nl = suf.count("u"), suf.count("l")
    if digits.startswith("0x"):
        base, v = 16, int(digits, 16)
    elif digits.startswith("0") and len(digits) > 1:
        base, v = 8, int(digits, 8)
    else:
        base, v = 10, int(digits, 10)
    if nu and nl == 0:
        cand = [UINT, ULONG, ULLONG]
    elif nu and nl == 1:
        cand = [ULONG, ULLONG]
    elif nu:
        cand = [ULLONG]
    elif nl == 0:
        cand = [INT, LONG, LLONG] if base == 10 else [INT, UINT, LONG, ULONG, LLONG, ULLONG]
    elif nl == 1:
        cand = [LONG, LLONG] if base == 10 else [LONG, ULONG, LLONG, ULLONG]
    else:
        cand = [LLONG] if base == 10 else [LLONG, ULLONG]
    for t in cand:
        if fits(t, v):
            return t, v, frozenset()
    raise UB("literal_has_no_standard_type")


def common(ta, tb):
    T = types()
    if ta == tb:
        return ta
    (ra, sa, ba), (rb, sb, bb) = T[ta], T[tb]
    if sa == sb:
        return ta if ra > rb else tb
    (tu, ru, bu), (ts, rs, bs) = ((ta, ra, ba), (tb, rb, bb)) if not sa else ((tb, rb, bb), (ta, ra, ba))
    if ru >= rs:
        return tu
    if bs > bu:
        return ts
    return ts + 1          # the unsigned type corresponding to the signed one


def convert(v, t, flags):
    """value v (of some type) converted to type t; notes when a negative becomes unsigned."""
    rank, signed, bits = types()[t]
    if signed:
        if not fits(t, v):          # cannot happen with the usual conversions on this platform
            raise UB("implementation_defined_narrowing")
        return v
    if v < 0:
        flags.add("unsigned_convert")
    return v % (1 << bits)


_memo = {}


def evaluate(e, stats=None):
    """-> (type, value, frozenset(flags)); raises UB(reason)."""
    if e in _memo:
        r = _memo[e]
        if isinstance(r, UB):
            raise r
        return r
    try:
        r = _evaluate(e, stats)
    except UB as u:
        _memo[e] = u
        raise
    _memo[e] = r
    return r


def _evaluate(e, stats):
    k = e[0]
    if k == "L":
        return literal(e[1])
    if k == "N":
        tn, v = NAMES[e[1]]
        return TNAME.index(tn), v, frozenset(["name"])
    T = types()
    if k == "U":
        t, v, fl = evaluate(e[2], stats)
        if e[1] == "+":
            return t, v, fl
        rank, signed, bits = T[t]
        if signed:
            if not fits(t, -v):
                raise UB("signed_overflow")
            return t, -v, fl
        fl = set(fl)
        if v != 0:
            fl.add("unsigned_wrap")
        return t, (-v) % (1 << bits), frozenset(fl)
    op = e[1]
    ta, a, fa = evaluate(e[2], stats)
    tb, b, fb = evaluate(e[3], stats)
    fl = set(fa) | set(fb)
    if op in ("<<", ">>"):
        rank, signed, bits = T[ta]
        if b < 0:
            raise UB("negative_shift_count")
        if b >= bits:
            raise UB("shift_count_ge_width")
        if op == "<<":
            if signed:
                if a < 0:
                    raise UB("left_shift_of_negative")
                if not fits(ta, a << b):
                    raise UB("left_shift_overflow")
                return ta, a << b, frozenset(fl)
            r = (a << b) % (1 << bits)
            if r != a << b:
                fl.add("unsigned_wrap")
            return ta, r, frozenset(fl)
        if a < 0:
            fl.add("right_shift_of_negative")      # implementation-defined; gcc: arithmetic
        return ta, a >> b, frozenset(fl)
    t = common(ta, tb)
    rank, signed, bits = T[t]
    a, b = convert(a, t, fl), convert(b, t, fl)
    if op in ("/", "%"):
        if b == 0:
            raise UB("division_by_zero")
        lo, hi = trange(t)
        if signed and a == lo and b == -1:
            raise UB("signed_overflow")
        q = abs(a) // abs(b)
        if (a < 0) != (b < 0):
            q = -q
        if signed:
            fl.add("div_%s%s_%s" % ("n" if a < 0 else "p", "n" if b < 0 else "p",
                                    "exact" if a % b == 0 else "inexact"))
        return t, (q if op == "/" else a - q * b), frozenset(fl)
    if op == "+":
        r = a + b
    elif op == "-":
        r = a - b
    elif op == "*":
        r = a * b
    elif op == "&":
        r = a & b
    elif op == "|":
        r = a | b
    else:
        r = a ^ b
    if signed:
        if not fits(t, r):
            raise UB("signed_overflow")
        return t, r, frozenset(fl)
    if r != r % (1 << bits):
        fl.add("unsigned_wrap")
    return t, r % (1 << bits), frozenset(fl)


def cause_of(flags):
    esc = "char_escape" in flags
    uns = "unsigned_wrap" in flags or "unsigned_convert" in flags
    if esc and uns:
        return "char_escape+unsigned_wrap_or_convert"
    if esc:
        return "char_escape"
    if uns:
        return "unsigned_wrap_or_convert"
    return "other"


# ---------------------------------------------------------------------------------------
# gcc

def _load_table(src, symbol, n):
    so = cref.compile_so(src, flags=["-std=gnu11"], name="c09ref")
    lib = ctypes.CDLL(so)
    tab = list((ctypes.c_ulonglong * n).in_dll(lib, symbol))
    for fn in (so, so + ".c"):
        try:
            os.unlink(fn)
        except OSError:
            pass
    return tab


def _sv(neg, u):
    return u - (1 << 64) if neg else u


NCELL = 12
_r_pname = re.compile(r"\b(P[56])\b")


def same_enum_text(i, t):
    """'enum sN { P5_N = 5, P6_N, B_N = E, C_N }': E mentions enumerators of the enum being declared."""
    return "enum s%d { P5_%d = 5, P6_%d, B_%d = %s, C_%d };\n" % (i, i, i, i, _r_pname.sub(r"\1_%d" % i, t), i)


def gcc_values(items, variant=None):
    """items: [(idx, text, sites)] -> {idx: {"value", "size", "signed", site: value...}}"""
    decl, cells, bfd, bfi, bgd, bgi = [], [], [], [], [], []
    for i, t, sites in items:
        decl.append("enum e%d { A_%d = %s };\n" % (i, i, t))
        c = ["(%s) < 0" % t, "(unsigned long long)(%s)" % t, "sizeof(%s)" % t,
             "((__typeof__(%s))-1) < 0" % t, "A_%d < 0" % i, "(unsigned long long)A_%d" % i]
        if "array" in sites or "bigarray" in sites:
            decl.append("struct a%d { char a[%s]; char z; };\n" % (i, t))
            c.append("sizeof(((struct a%d *)0)->a)" % i)
        else:
            c.append("0")
        if "array2" in sites:
            decl.append("struct c%d { char m[2][%s]; char (*p)[%s]; void (*f)(char (*)[%s]); };\n" % (i, t, t, t))
            c.append("sizeof(((struct c%d *)0)->m) / 2" % i)
            c.append("sizeof(*((struct c%d *)0)->p)" % i)
        else:
            c += ["0", "0"]
        if "enum_same" in sites:
            decl.append(same_enum_text(i, t))
            c += ["B_%d < 0" % i, "(unsigned long long)B_%d" % i, "(unsigned long long)(C_%d - 1 - B_%d)" % (i, i)]
        else:
            c += ["0", "0", "0"]
        if "bitfield" in sites:
            decl.append("struct b%d { unsigned long long f : %s; };\n" % (i, t))
            bfd.append("struct b%d x%d;" % (i, i))
            bfi.append("{ ~0ULL }")
        if "bitfield_int" in sites:
            decl.append("struct d%d { int g : %s; };\n" % (i, t))
            bgd.append("struct d%d x%d;" % (i, i))
            bgi.append("{ -1 }")
        if len(c) != NCELL:
            raise InfraError("cell count")
        cells.append(", ".join(c))
    src = (PRELUDE_C if variant else "") + "".join(decl)
    src += "const unsigned long long c09_tab[] = {\n" + ",\n".join(cells) + "\n};\n"
    if bfd:
        src += "const struct { %s } c09_bits = { %s };\n" % (" ".join(bfd), ", ".join(bfi))
    if bgd:
        src += "const struct { %s } c09_bits2 = { %s };\n" % (" ".join(bgd), ", ".join(bgi))
    so = cref.compile_so(src, flags=["-std=gnu11"], name="c09ref")
    lib = ctypes.CDLL(so)
    tab = list((ctypes.c_ulonglong * (NCELL * len(items))).in_dll(lib, "c09_tab"))
    bits = list((ctypes.c_ulonglong * len(bfd)).in_dll(lib, "c09_bits")) if bfd else []
    bits2 = list((ctypes.c_uint * len(bgd)).in_dll(lib, "c09_bits2")) if bgd else []
    for fn in (so, so + ".c"):
        try:
            os.unlink(fn)
        except OSError:
            pass
    res = {}
    nb = ng = 0
    for k, (i, t, sites) in enumerate(items):
        c = tab[NCELL * k:NCELL * k + NCELL]
        r = {"value": _sv(c[0], c[1]), "size": c[2], "signed": bool(c[3]), "enum": _sv(c[4], c[5])}
        if "array" in sites:
            r["array"] = c[6]
        if "bigarray" in sites:
            r["bigarray"] = c[6]
        if "array2" in sites:
            r["array2"] = c[7] if c[7] == c[8] else ("differ", c[7], c[8])
        if "enum_same" in sites:
            r["enum_same"] = _sv(c[9], c[10]) if c[11] == 0 else ("next", c[11])
        if "bitfield" in sites:
            r["bitfield"] = bin(bits[nb]).count("1")
            nb += 1
        if "bitfield_int" in sites:
            r["bitfield_int"] = bin(bits2[ng]).count("1")
            ng += 1
        res[i] = r
    return res


# ---------------------------------------------------------------------------------------
# cffi

def _import(name, path):
    spec = importlib.util.spec_from_file_location(name, path)
    mod = importlib.util.module_from_spec(spec)
    spec.loader.exec_module(mod)
    return mod


_modcount = itertools.count()


def _err(e):
    return "error:%s: %s" % (type(e).__name__, str(e)[:160])


_r_ident = re.compile(r"(?:struct[ _][abcd]|enum[ _][es]|\b[ABC]_|\bt[abpf])(\d+)\b")


def culprits(exc, items):
    """Declarations named in an exception message / in gcc's diagnostics (batching aid only)."""
    have = set(it[0] for it in items)
    return set(int(m.group(1)) for m in _r_ident.finditer(str(exc))) & have


class GeneratedCodeRejected(Exception):
    pass


def compile_api(f, name, csource, d):
    """emit_c_code() + gcc -O0 (the setuptools driver behind ffi.compile() is not what is judged here)."""
    cfile = os.path.join(d, name + ".c")
    f.set_source(name, csource)
    with contextlib.redirect_stdout(io.StringIO()):
        f.emit_c_code(cfile)
    so = os.path.join(d, name + build.EXT_SUFFIX)
    p = subprocess.run(["gcc", "-O0", "-g0", "-w", "-std=gnu11", "-shared", "-fPIC", "-I" + build.INCLUDEPY,
                        cfile, "-o", so], stdout=subprocess.PIPE, stderr=subprocess.STDOUT, text=True)
    if p.returncode != 0:
        raise GeneratedCodeRejected(p.stdout)
    return so


def make_ffi(text, variant):
    """The FFI that has parsed `text`; with names, the prelude that defines them is declared in the same
    cdef() call, in an earlier call, or in another FFI that is include()d."""
    import cffi
    f = cffi.FFI()
    f._c09_base = None
    if variant is None:
        f.cdef(text)
    elif variant == "same":
        f.cdef(PRELUDE_CDEF + text)
    elif variant == "earlier":
        f.cdef(PRELUDE_CDEF)
        f.cdef(text)
    elif variant == "included":
        b = cffi.FFI()
        b.cdef(PRELUDE_CDEF)
        f.include(b)
        f.cdef(text)
        f._c09_base = b
    else:
        raise InfraError("unknown variant %r" % (variant,))
    return f


def _unlink(*files):
    for fn in files:
        try:
            os.unlink(fn)
        except OSError:
            pass


def open_mode(mode, text, tag, reuse=None, variant=None, csource_prefix=""):
    """One FFI of the given mode over the declarations -> (ffi, lib, has_integer_const).
    `reuse`: an in-line FFI that already parsed exactly `text` (out-of-line ABI only)."""
    import sys
    f = reuse if reuse is not None else make_ffi(text, variant)
    if mode == "inline":
        return f, f.dlopen(None), False
    d = os.path.join(build.scratch(), "c09")
    os.makedirs(d, exist_ok=True)
    name = "c09_%s_%s_%d_%d" % (tag, mode, os.getpid(), next(_modcount))
    base = getattr(f, "_c09_base", None)
    if base is not None and d not in sys.path:
        sys.path.insert(0, d)           # the module of an include()d FFI is imported by name
    if mode == "abi":
        junk = []
        try:
            if base is not None:
                base.set_source(name + "_base", None)
                base.compile(tmpdir=d, verbose=0)
                junk.append(os.path.join(d, name + "_base.py"))
            f.set_source(name, None)
            f.compile(tmpdir=d, verbose=0)
            py = os.path.join(d, name + ".py")
            junk.append(py)
            m = _import(name, py)
        finally:
            _unlink(*junk)
        return m.ffi, m.ffi.dlopen(None), True
    junk = []
    try:
        if base is not None:
            junk.append(os.path.join(d, name + "_base.c"))
            junk.append(compile_api(base, name + "_base", csource_prefix + PRELUDE_C, d))
        junk.append(os.path.join(d, name + ".c"))
        so = compile_api(f, name, csource_prefix + (PRELUDE_C if variant else "") + text, d)
        junk.append(so)
        m = _import(name, so)
    finally:
        _unlink(*junk)
    return m.ffi, m.lib, True


def decl_text(items, mode="inline"):
    """The declarations of a block.  In API mode the arrays are typedefs (no generated checking
    function per declaration: several times cheaper to compile); in the two ABI modes they are
    struct members (the in-line parser re-declares every typedef name on each typeof() call).
    A length >= 2^31 ("bigarray") is not declared in out-of-line ABI mode: cffi_opcode.py documents
    that its emitter refuses such a module as a whole (OverflowError), see run_abi()."""
    out = []
    for i, t, sites in items:
        out.append("enum e%d { A_%d = %s };\n" % (i, i, t))
        if "array" in sites or ("bigarray" in sites and mode != "abi"):
            if mode == "api":
                out.append("typedef char ta%d[%s];\n" % (i, t))
            else:
                out.append("struct a%d { char a[%s]; char z; };\n" % (i, t))
        if "array2" in sites:
            if mode == "api":
                out.append("typedef char tb%d[2][%s];\ntypedef char (*tp%d)[%s];\n"
                           "typedef void (*tf%d)(char (*)[%s]);\n" % (i, t, i, t, i, t))
            else:
                out.append("struct c%d { char m[2][%s]; char (*p)[%s]; void (*f)(char (*)[%s]); };\n" % (i, t, t, t))
        if "enum_same" in sites:
            out.append(same_enum_text(i, t))
        if "bitfield" in sites:
            out.append("struct b%d { unsigned long long f : %s; };\n" % (i, t))
        if "bitfield_int" in sites:
            out.append("struct d%d { int g : %s; };\n" % (i, t))
    return "".join(out)


def _const(ffi, lib, has_ic, nm):
    acc = []
    try:
        acc.append(getattr(lib, nm))
    except Exception as e:
        acc.append(_err(e))
    if has_ic:
        try:
            acc.append(ffi.integer_const(nm))
        except Exception as e:
            acc.append(_err(e))
    return acc


def observe(ffi, lib, has_ic, i, sites, mode):
    """-> {site: [observations]}; a site may be observed through several accessors, all must agree."""
    o = {}
    o["enum"] = _const(ffi, lib, has_ic, "A_%d" % i)
    for site in ("array", "bigarray"):
        if site in sites and not (site == "bigarray" and mode == "abi"):
            try:
                if mode == "api":
                    ft = ffi.typeof("ta%d" % i)
                else:
                    ft = dict(ffi.typeof("struct a%d" % i).fields)["a"].type
                o[site] = [ft.length, ffi.sizeof(ft)]
            except Exception as e:
                o[site] = [_err(e)]
    if "array2" in sites:
        try:
            if mode == "api":
                tm, tp, tf = ffi.typeof("tb%d" % i), ffi.typeof("tp%d" % i), ffi.typeof("tf%d" % i)
            else:
                fl = dict(ffi.typeof("struct c%d" % i).fields)
                tm, tp, tf = fl["m"].type, fl["p"].type, fl["f"].type
            if tm.length != 2 or ffi.sizeof(tm) % 2 or len(tf.args) != 1:
                o["array2"] = ["error:shape: %r %r %r" % (tm, tp, tf)]
            else:
                o["array2"] = [tm.item.length, ffi.sizeof(tm) // 2, tp.item.length, ffi.sizeof(tp.item),
                               tf.args[0].item.length]
        except Exception as e:
            o["array2"] = [_err(e)]
    if "enum_same" in sites:
        b, c = _const(ffi, lib, has_ic, "B_%d" % i), _const(ffi, lib, has_ic, "C_%d" % i)
        o["enum_same"] = b + [x - 1 if isinstance(x, int) else x for x in c]
    if "bitfield" in sites:
        try:
            o["bitfield"] = [dict(ffi.typeof("struct b%d" % i).fields)["f"].bitsize]
        except Exception as e:
            o["bitfield"] = [_err(e)]
    if "bitfield_int" in sites:
        try:
            o["bitfield_int"] = [dict(ffi.typeof("struct d%d" % i).fields)["g"].bitsize]
        except Exception as e:
            o["bitfield_int"] = [_err(e)]
    return o


def read_all(mode, ffi, lib, has_ic, items, want, out, seen=None):
    for i, t, sites in items:
        o = observe(ffi, lib, has_ic, i, sites, mode)
        if seen is not None:
            seen[i] = o
        for site, got in o.items():
            exp = want[i]
            if any(g != exp for g in got):
                kind = "error" if any(isinstance(g, str) for g in got) else "value"
                out.append((mode, i, site, kind, got, exp))


def run_mode(mode, items, want, out, tag="x", seen=None, variant=None):
    """items [(idx, text, sites)]; appends (mode, idx, site, kind, observed, expected) to out.
    If the declarations cannot be processed together the group is split until the
    declaration(s) responsible are alone.  Returns the FFI when everything opened at once."""
    try:
        ffi, lib, has_ic = open_mode(mode, decl_text(items, mode), tag, variant=variant)
    except Exception as e:
        if len(items) == 1:
            out.append((mode, items[0][0], "all", "rejected", _err(e), None))
            return None
        named = culprits(e, items) if isinstance(e, GeneratedCodeRejected) else set()
        if named and len(named) < len(items):
            # gcc's diagnostics are located in the code generated for these declarations
            for it in items:
                if it[0] in named:
                    out.append((mode, it[0], "all", "rejected",
                                "error:generated C does not compile: " + _diag_for(e, it[0]), None))
            run_mode(mode, [it for it in items if it[0] not in named], want, out, tag, seen, variant)
            return None
        h = len(items) // 2
        run_mode(mode, items[:h], want, out, tag, seen, variant)
        run_mode(mode, items[h:], want, out, tag, seen, variant)
        return None
    read_all(mode, ffi, lib, has_ic, items, want, out, seen)
    return ffi if mode == "inline" else None


def _diag_for(exc, i):
    lines = str(exc).splitlines()
    for k, ln in enumerate(lines):
        if "error:" in ln:
            ctx = " ".join(lines[max(0, k - 1):k + 3])
            if i in set(int(m.group(1)) for m in _r_ident.finditer(ctx)):
                return ln.split("error:", 1)[1].strip()[:120]
    return "see gcc output"


def run_abi(items, want, out, ffi_inline, seen_inline, variant=None):
    """Out-of-line ABI: emit from the very FFI that was used in-line (unless that one holds an array of
    2^31 or more items, which is not declared in this mode); if that fails as a whole,
    take apart: declarations whose in-line value already lies outside what the emitter can
    encode are run alone, the rest together (run_mode splits further if needed)."""
    if ffi_inline is not None and not any("bigarray" in it[2] for it in items):
        try:
            ffi, lib, has_ic = open_mode("abi", None, "x", reuse=ffi_inline)
        except Exception:
            pass
        else:
            read_all("abi", ffi, lib, has_ic, items, want, out)
            return
    alone, rest = [], []
    for it in items:
        v = seen_inline.get(it[0], {}).get("enum", [None])[0]
        ok = isinstance(v, int) and -2 ** 63 <= v < 2 ** 64 and ("array" not in it[2] or 0 <= v < 2 ** 31)
        (rest if ok else alone).append(it)
    for it in alone:
        run_mode("abi", [it], want, out, variant=variant)
    if rest:
        run_mode("abi", rest, want, out, variant=variant)


def sites_for(v, e=None, more=False):
    s = ["enum"]
    if 0 <= v < 2 ** 31:
        s.append("array")
    elif 2 ** 31 <= v < 2 ** 62:
        s.append("bigarray")            # audit gap 2: in-line and API mode have no 2^31 limit
    if 1 <= v <= 64:
        s.append("bitfield")
    if more:                            # audit gap 6
        if 1 <= v < 2 ** 30:
            s.append("array2")
        if 1 <= v <= 32:
            s.append("bitfield_int")
    if e is not None and -2 ** 31 <= v < 2 ** 31 - 1 and names_in(e) & {"P5", "P6"}:
        s.append("enum_same")           # audit gap 1: enumerators of the enum being declared
    return s


def work(job):
    """job = ("expr", first index, [(tree, printer), ...], {"variant": v, "more": bool}) | ("lits", ...)"""
    import warnings
    t0 = sum(os.times()[:4])
    with warnings.catch_warnings():
        warnings.simplefilter("ignore")         # cdef() warns about '"' (a string literal?) in a character constant
        if job[0] == "lits":
            r = work_lits(job)
        else:
            r = work_expr(job)
    return r + (sum(os.times()[:4]) - t0,)      # CPU seconds incl. gcc (logged only)


def work_expr(job):
    _, base, entries, opts = job
    variant, more = opts.get("variant"), bool(opts.get("more"))
    counts = {}

    def cnt(k, n=1):
        counts[k] = counts.get(k, 0) + n
    items, info = [], {}
    for k, (e, printer) in enumerate(entries):
        i = base + k
        try:
            t, v, fl = evaluate(e)
        except UB as u:
            cnt("excluded_undefined_" + str(u))
            continue
        txt = text_of(e, printer)
        sites = sites_for(v, e, more)
        items.append((i, txt, sites))
        info[i] = (e, t, v, fl, printer)
        for s in sites:
            cnt("site_" + s)
        for f in fl:
            cnt("class_" + f)
        if nops(e):
            cnt("defined_with_operator")
        if printer != "min":
            cnt("printer_" + printer)
        if variant:
            cnt("prelude_" + variant)
        cnt("result_type_" + TNAME[t].replace(" ", "_"))
        if v < 0:
            cnt("value_negative")
    viol, samples = [], []
    if not items:
        return len(entries), 0, 0, counts, viol, samples
    ref = gcc_values(items, variant)
    want = {}
    T = types()
    for i, txt, sites in items:
        e, t, v, fl, printer = info[i]
        r = ref[i]
        rank, signed, bits = T[t]
        if (r["value"], r["size"] * 8, r["signed"]) != (v, bits, signed):
            raise InfraError("typed evaluator disagrees with gcc on %r: evaluator %r %s, gcc %r" % (
                txt, v, TNAME[t], r))
        if any(r[s] != v for s in sites):
            raise InfraError("gcc's value of %r differs between usage sites: %r" % (txt, r))
        want[i] = v
    out = []
    seen = {}
    # arrays of 2^31 items or more: declared in a second in-line FFI (and in the API module), so that the
    # first in-line FFI is one that the out-of-line ABI emitter accepts and can be emitted from
    small = [(i, t, [s for s in sites if s != "bigarray"]) for i, t, sites in items]
    big = [(i, t, ["bigarray"]) for i, t, sites in items if "bigarray" in sites]
    ffi_inline = run_mode("inline", small, want, out, seen=seen, variant=variant)
    if big:
        cnt("bigarray_not_declared_in_out_of_line_abi_mode", len(big))
        refused = set(i for m, i, site, kind, _, _ in out if kind == "rejected")
        out2 = []
        run_mode("inline", big, want, out2, variant=variant)
        # (the enumerator declared next to each array was already judged in the first FFI)
        out += [o for o in out2 if o[2] == "bigarray" or (o[3] == "rejected" and o[1] not in refused)]
    run_abi(small, want, out, ffi_inline, seen, variant)
    # batching only: what cdef() itself refused in-line is declared alone again (it would make
    # the whole module's cdef() fail and force a search by halving, every step a compilation)
    refused = set(i for m, i, site, kind, _, _ in out if m == "inline" and kind == "rejected")
    for it in items:
        if it[0] in refused:
            run_mode("api", [it], want, out, variant=variant)
    rest = [it for it in items if it[0] not in refused]
    if rest:
        run_mode("api", rest, want, out, variant=variant)
    bad_idx = set()
    for mode, i, site, kind, got, exp in out:
        e, t, v, fl, printer = info[i]
        bad_idx.add(i)
        sig = {"kind": kind, "cause": cause_of(fl), "site": site, "mode": mode}
        # distinctive keys for the families added after the audit (absent for the original ones)
        if variant:
            sig["prelude"] = variant
        if printer != "min":
            sig["printer"] = printer
        viol.append((sig,
                     {"expr": e, "text": text_of(e, printer), "site": site, "mode": mode, "kind": kind,
                      "observed": got, "gcc": v, "c_type": TNAME[t], "flags": sorted(fl),
                      "printer": printer, "variant": variant, "more": more}))
    nflag_ok = 0
    for i, txt, sites in items:
        fl = info[i][3]
        if cause_of(fl) != "other" and i not in bad_idx:
            nflag_ok += 1
    cnt("flagged_root_cause_but_cffi_agrees", nflag_ok)
    for i, txt, sites in items[:2]:
        sm = {"expr": txt, "gcc": info[i][2], "c_type": TNAME[info[i][1]], "sites": sites}
        if variant:
            sm["prelude"] = variant
        samples.append(sm)
    nontriv = sum(1 for i, _, _ in items if nops(info[i][0]) or names_in(info[i][0]))
    return len(entries), len(items), nontriv, counts, viol, samples


# ---- '#define NAME literal' and 'static const T NAME = literal' ----------------------------------

def work_lits(job):
    """job = ("lits", literals, types, with_define, extra_forms)"""
    _, lits, ctypes_, with_define, extra_forms = job
    counts = {}

    def cnt(k, n=1):
        counts[k] = counts.get(k, 0) + n
    T = types()
    cases = []          # (name, cdef line, c value expr, node, kind, type, form)
    n = 0
    for t in lits:
        for sign in ("", "-"):
            node = lit(t) if not sign else ("U", "-", lit(t))
            txt = sign + t
            if with_define:
                cases.append(("D_%d" % n, "#define D_%d %s\n" % (n, txt), "(%s)" % txt, node, "define", None, None))
            j = 0
            for ct in ctypes_:
                for form in [FORM0] + (list(extra_forms) if ct in FORM_TYPES else []):
                    nm = "K_%d_%d" % (n, j)
                    j += 1
                    cases.append((nm, form % (ct, nm, txt), "((%s)(%s))" % (ct, txt), node, "static_const", ct, form))
            n += 1
    cells = []
    for name, line, cexpr, node, kind, ct, form in cases:
        txt = text_of(node)
        cells.append("%s < 0, (unsigned long long)%s, (%s) < 0, (unsigned long long)(%s)" % (cexpr, cexpr, txt, txt))
    src = CONST_INCLUDES + CONST_PRELUDE + "const unsigned long long c09_tab[] = {\n" + ",\n".join(cells) + "\n};\n"
    tab = _load_table(src, "c09_tab", 4 * len(cases))
    used, want, info = [], {}, {}
    for k, (name, line, cexpr, node, kind, ct, form) in enumerate(cases):
        c = tab[4 * k:4 * k + 4]
        stored, exprv = _sv(c[0], c[1]), _sv(c[2], c[3])
        try:
            t, v, fl = evaluate(node)
        except UB as u:
            cnt("excluded_undefined_" + str(u))
            continue
        if v != exprv:
            raise InfraError("typed evaluator disagrees with gcc on literal %r: %r vs %r" % (text_of(node), v, exprv))
        if stored != exprv:
            cnt("excluded_static_const_type_cannot_hold_the_value")
            continue
        used.append((name, line))
        want[name] = exprv
        info[name] = (node, kind, ct, fl, t, form)
        cnt("site_" + kind)
        if ct in CONST_TYPES2:
            cnt("static_const_type_" + ct.replace(" ", "_"))
        if form is not None and form != FORM0:
            cnt("static_const_form_" + (form % ("T", "K", "v")).strip().replace(" ", "_"))
    out = []

    def go(mode, sub):
        try:
            ffi, lib, has_ic = open_mode(mode, CONST_PRELUDE + "".join(line for _, line in sub), "lit",
                                         csource_prefix=CONST_INCLUDES)
        except Exception as e:
            if len(sub) == 1:
                out.append((mode, sub[0][0], "rejected", [_err(e)]))
                return
            h = len(sub) // 2
            go(mode, sub[:h])
            go(mode, sub[h:])
            return
        for name, line in sub:
            acc = []
            try:
                acc.append(getattr(lib, name))
            except Exception as e:
                acc.append(_err(e))
            if has_ic:
                try:
                    acc.append(ffi.integer_const(name))
                except Exception as e:
                    acc.append(_err(e))
            if any(a != want[name] for a in acc):
                out.append((mode, name, "error" if any(isinstance(a, str) for a in acc) else "value", acc))
    for mode in MODES:
        go(mode, used)
    viol = []
    lines = dict(used)
    for mode, name, kind, got in out:
        node, site, ct, fl, t, form = info[name]
        sig = {"kind": kind, "cause": cause_of(fl), "site": site, "mode": mode}
        if ct in CONST_TYPES2 or (form is not None and form != FORM0):
            sig["const_decl"] = "%s/%s" % (ct, (form % ("T", "K", "v")).strip())   # families added after the audit
        viol.append((sig,
                     {"literal_site": True, "decl": lines[name], "expr": node, "text": text_of(node), "site": site,
                      "const_type": ct, "form": form, "mode": mode, "kind": kind, "observed": got,
                      "gcc": want[name], "flags": sorted(fl)}))
    samples = [{"decl": l.strip(), "gcc": want[nm]} for nm, l in used[:2]]
    return len(cases), len(used), len(used), counts, viol, samples


# ---------------------------------------------------------------------------------------

def run(ctx):
    types()
    fam = families(ctx)
    # debugging aid (detection experiments): --opt only=I1,II,lits runs these families alone; such a run is
    # not the check and says so in its evidence
    only = getattr(ctx, "opts", {}).get("only")
    only = set(only.split(",")) if only else None
    if only:
        fam = [f for f in fam if f[0].split()[0] in only]
    seen = {}
    groups = {}             # (variant, more_sites) -> [(tree, printer)]
    famsizes = []
    for label, key, entries in fam:
        new = 0
        for e, pr in entries:
            k = (text_of(e, pr), key[0])
            if k not in seen:           # the same text is placed once per prelude variant ...
                seen[k] = key
                groups.setdefault(key, []).append((e, pr))
                new += 1
            elif key[1] and not seen[k][1]:
                raise InfraError("family order: %r would lose its additional sites" % (k,))
        famsizes.append((label, len(entries), new))
        ctx.log("%s: %d trees, %d new distinct texts" % (label, len(entries), new))
    nolit = [t for t in L20 + LX if t[0] != "'"]
    jobs = []
    nexpr = 0
    # the groups whose blocks take longest first (two modules per mode for "included"); blocks of equal size
    for key in sorted(groups, key=lambda k: (VARIANTS.index(k[0]), k[1]), reverse=True):
        entries = groups[key]
        nb = -(-len(entries) // BLOCK)
        size = -(-len(entries) // nb)
        for i in range(0, len(entries), size):
            jobs.append(("expr", nexpr + i, entries[i:i + size], {"variant": key[0], "more": key[1]}))
        nexpr += len(entries)
    if not only or "lits" in only:
        jobs += [("lits", nolit, CONST_TYPES, True, FORMS_EXTRA), ("lits", nolit, CONST_TYPES2, False, FORMS_EXTRA)]
    ctx.log("%d distinct (expression text, prelude variant) pairs, %d blocks" % (nexpr, len(jobs)))
    tot = defined = nontriv = 0
    cpus = {}
    for job, r in pool.pmap(work, [[j] for j in jobs], item_timeout=1500):
        if isinstance(r, pool.WorkerError):
            raise InfraError("worker failed: %s" % r.tb)
        if isinstance(r, pool.Crash):
            ctx.violation({"kind": "crash"}, {"job": job, "how": r.describe()})
            continue
        n, nd, nt, counts, viol, samples, cpu = r
        gk = "lits" if job[0] == "lits" else "%s/%s" % (job[3]["variant"], "more" if job[3]["more"] else "base")
        c0 = cpus.get(gk, (0, 0.0))
        cpus[gk] = (c0[0] + 1, c0[1] + cpu)
        tot += n
        defined += nd
        nontriv += nt
        for k, v in counts.items():
            ctx.count(k, v)
        for s in samples:
            ctx.sample(s)
        for sig, detail in viol:
            ctx.violation(sig, detail)
    ctx.log("CPU seconds by group (blocks, seconds): %s" % ", ".join(
        "%s: %d, %.0f" % (k, v[0], v[1]) for k, v in sorted(cpus.items())))
    cov = {
        "evaluations": defined * len(MODES),
        "distinct_nontrivial": nontriv,
        "rule": "families (trees, new distinct texts): %s; plus every non-character literal with and without '-' as "
                "'#define' and as 'static const T' for T in %s (for T in %s also as 'const T K = v;' and "
                "'static T const K = v;'; td_u16b is a typedef of a typedef of unsigned short); every expression is "
                "an enumerator value, an array length when 0 <= v < 2^62 (from 2^31 on: in-line and API mode only) "
                "and a bitfield width when 1 <= v <= 64; the families S0, C0, IE, II also as inner dimension "
                "'char[2][E]', as 'char(*)[E]' member and parameter when 1 <= v < 2^30 and as 'int' bitfield width "
                "when 1 <= v <= 32; an expression that mentions P5 / P6 also inside 'enum { P5_n = 5, P6_n, B_n = E, "
                "C_n }' (B_n and the implicit C_n are read); names stand for %s; "
                "non-trivial = C-defined expression containing at least one operator or name, or a literal-site "
                "declaration (distinct texts counted); excluded: "
                "expressions the typed evaluator classifies as undefined behaviour, and static const declarations whose "
                "type cannot hold the literal's value" % (
                    "; ".join("%s: %d, %d" % f for f in famsizes), CONST_TYPES + CONST_TYPES2, FORM_TYPES,
                    PRELUDE_CDEF.replace("\n", " ").strip()),
        "exhaustive": not only,
        "expressions_enumerated": tot,
        "expressions_defined": defined,
        "bound": {"families": [f[0] for f in famsizes]},
    }
    return ctx.finish(cov, ["gcc 12 evaluates every expression; the typed evaluator only classifies (UB, root cause) and "
                            "is checked against gcc on value, size and signedness of every defined expression",
                            "array lengths >= 2^31 are not declared in out-of-line ABI mode (documented limit of that "
                            "emitter, which refuses the whole module), lengths >= 2^62 nowhere",
                            "static const: compared only when the declared type can hold the literal's value",
                            "a 'static const T NAME' used inside a later expression is given to gcc as '((T)literal)': "
                            "in C such an object is not an integer constant expression, its value and promoted type are"])


def _tup(x):
    return tuple(_tup(y) for y in x) if isinstance(x, list) else x


def replay(detail):
    types()
    if "job" in detail:             # a block that killed its worker: run it again in this process
        job = detail["job"]
        if job[0] == "expr":
            job = ("expr", job[1], [(_tup(e), pr) for e, pr in job[2]], job[3])
        work(tuple(job))
        print("the block completed without a crash")
        return 0
    node = _tup(detail["expr"])
    printer = detail.get("printer") or "min"
    if detail.get("literal_site"):
        t = node[1] if node[0] == "L" else node[2][1]
        ct, form = detail.get("const_type"), detail.get("form")
        r = work(("lits", [t], [ct] if ct else CONST_TYPES[:1], True, [form] if form and form != FORM0 else []))
    else:
        r = work(("expr", 0, [(node, printer)], {"variant": detail.get("variant"), "more": detail.get("more")}))
    hit = 0
    print("expression:", text_of(node, printer))
    for sig, d in r[4]:
        if sig["site"] == detail["site"] and sig["mode"] == detail["mode"] and \
                d.get("const_type") == detail.get("const_type") and d.get("form") == detail.get("form") and \
                d["text"] == detail["text"]:
            print("MISMATCH mode=%s site=%s: observed %r, gcc %r (cause class: %s)" % (
                sig["mode"], sig["site"], d["observed"], d["gcc"], sig["cause"]))
            hit += 1
    if not hit:
        print("no mismatch")
    return 1 if hit else 0
