"""C34 -- ffi.include() shares declarations instead of copying them.

E1: declaration kinds {typedef-prim, typedef-struct, struct, union, enum, anonymous-struct
typedef, constant, function, global} (all subsets of <= 2, thorough 3, kinds declared in the
included FFI) x usage of each in the including cdef {field, pointer argument, typedef target,
by name only} x chain shapes of length 2 and 3 x which FFI realizes a type first
x modes {in-line, out-of-line ABI, compiled API}; in-line additionally with the included FFI
fresh or already used by an earlier (collected) including FFI.

Further families (each a finite product that is executed completely):
  shapes   18 more shapes of types / constants and 12 more shapes of API functions, globals and constants
  first    WHAT touches an included type first: its name, the includer's dependent type, or a lib function
  how      include() after a first cdef(), twice, into an FFI that declares nothing, before a later cdef() of
           the included FFI, and emission of all modules only after every FFI of the chain was built
  naming   modules inside a package (dotted names) / included module imported and used before the includer
  long     chains of 4 and 5 FFIs (chain, 4-node diamond, a miss that returns from depth 2 before the hit)

Oracle: ffi_j.typeof(x) is ffi_1.typeof(x) for every FFI of the chain, constants equal,
layouts those of the included module (gcc-computed), usages in the including cdef refer to the
shared object, API: included functions / globals / constants reachable through the including lib.
"""
import contextlib
import gc
import io
import itertools
import os
import pickle
import re
import shutil
import subprocess
import sys
import traceback

from .. import build, cref, pool
from ..build import InfraError
from . import _c34_kinds as K

ID = "C34"
LEVEL = "exploration"
META = dict(
    engine="E1-enum", level="exploration",
    technique="exhaustive enumeration of include chains (declaration kinds x usage kinds x chain shape x realization "
              "order x mode, plus first-touch, include-call, module-naming and long-chain families) with object "
              "identity, gcc-computed layouts and value equality as oracle",
    text="Every subset of <= 2 (thorough 3) of 9 declaration kinds is declared in an FFI that is included, directly and "
         "through a second FFI (5 chain shapes), by FFIs that use each declaration as field / pointer argument / "
         "typedef target / by name only; in-line, as out-of-line ABI modules and as compiled API modules (batched by "
         "name mangling, one forked process per realization order); every type must be the same ctype object in "
         "every FFI of the chain whichever FFI realizes it "
         "first, layouts must be those of the included module, integer constants and enumerators equal, and in API "
         "mode functions, globals and constants of the included module reachable (same address, shared storage) "
         "through every including lib.  Additional exhaustive families: 18 further declaration shapes (opaque, "
         "anonymous union / enum typedefs, negative, 64-bit and unnamed enums, typedefs of pointer / array / function / "
         "typedef / struct pointer, nested aggregates, 64-bit and negative constants, packed, flexible, partial union / "
         "anonymous struct) and 12 further API function / global / constant shapes (0/2/variadic arguments, struct by "
         "value, array / struct / function-pointer / const globals, double / string / struct constants, extern "
         "\"Python\") as single kinds (thorough: paired with every original kind); what is touched first (the name, the "
         "includer's dependent type, a lib function); include() after a first cdef, twice, into an empty FFI, before "
         "a later cdef of the included FFI, modules emitted only after every FFI of the chain was built; modules in a package and included module used before the includer is "
         "imported; chains of 4 and 5 FFIs; cross-FFI behaviour (new / assignment / addressof / offsetof / passing "
         "cdata of one FFI to the other's function) wherever identity held; numbered anonymous structs also in API mode.",
    note="layout expectations come from gcc (cref); API modules are the generator's C files compiled with gcc -O0; "
         "in-line/ABI modes do not promise functions and globals through include() and are not judged on them; "
         "declarations cdef()ed into the included FFI after include() may be visible or not, but never as another object")

KINDS = K.OLD_KINDS
TYPE_KINDS = KINDS[:6]
USAGES = ["field", "ptrarg", "tdtarget", "nameonly"]
ORDERS = ["base_first", "includer_first"]
FIRSTS = ["name", "usage", "lib"]
HOWS = ["before", "after_cdef", "twice", "empty", "late_cdef", "emit_late"]
NAMINGS = ["flat", "package", "flat+baseused", "package+baseused"]

# name: (number of FFIs, includes (in include() order), FFI holding the usage, FFIs through which ffi1 must be visible)
TOPO = {
    "L2": (2, {2: [1]}, 2, [2]),
    "L3_use_mid": (3, {2: [1], 3: [2]}, 2, [2, 3]),
    "L3_use_last": (3, {2: [1], 3: [2]}, 3, [2, 3]),
    "L3_diamond": (3, {2: [1], 3: [2, 1]}, 3, [2, 3]),
    # ffi2 is an unrelated FFI; ffi3 includes it FIRST and the declaring FFI second
    "L3_two_bases": (3, {2: [], 3: [2, 1]}, 3, [3]),
    "L4_chain": (4, {2: [1], 3: [2], 4: [3]}, 4, [2, 3, 4]),
    "L4_diamond": (4, {2: [1], 3: [1], 4: [2, 3]}, 4, [2, 3, 4]),
    # ffi5 includes ffi4 (unrelated, itself including the unrelated ffi3) FIRST, then ffi2 which includes ffi1: the
    # recursive lookups must come back from depth 2 with a miss before they find the declaration behind ffi2
    "L5_miss_deep": (5, {2: [1], 3: [], 4: [3], 5: [4, 2]}, 5, [2, 5]),
}
TOPOS = ["L2", "L3_use_mid", "L3_use_last", "L3_diamond", "L3_two_bases"]
LONG_TOPOS = ["L4_chain", "L4_diamond", "L5_miss_deep"]
HOW_TOPOS = ["L2", "L3_use_last", "L3_diamond"]

applicable = K.applicable
decl = K.decl
usage = K.usage
c_usage_types = K.c_usage_types
_LAYOUT = None


def gcc_layouts():
    out = cref.run_c(K.layout_program())
    res = {}
    for line in out.splitlines():
        p = line.split()
        res[p[0]] = (int(p[1]), int(p[2]), {kv.split("=")[0]: int(kv.split("=")[1]) for kv in p[3:]})
    return res


# ---------------------------------------------------------------------------------------
# building chains

_n = itertools.count()


def _uniq():
    return "%d_%d" % (os.getpid(), next(_n))


def _scratch_on_path():
    d = build.scratch()
    if d not in sys.path:
        sys.path.insert(0, d)
    return d


class Texts(object):
    """Per-FFI texts of one chain: pre (cdef before the include() calls), cdefs (after them), packed (cdef with
    packed=True), late (cdef into ffi1 after everybody included it), csrc (C source, API mode)."""


def chain_texts(du, topo, s, api, how="before"):
    """du: tuple of (kind, usage)."""
    X = Texts()
    X.n, X.includes, X.use_pos, X.obs = TOPO[topo]
    n = X.n
    X.decls = decls = [(k, u, decl(k, s, api)) for k, u in du]
    rng = range(1, n + 1)
    X.pre = {i: "" for i in rng}
    X.cdefs = {i: "" for i in rng}
    X.packed = {i: "" for i in rng}
    X.csrc = {i: "" for i in rng}
    X.late = ""
    ctypes_all = "".join(d["ctypes"] for _, _, d in decls)
    X.cdefs[1] = "".join(d["cdef"] for _, _, d in decls)
    X.packed[1] = "".join(d["packed"] for _, _, d in decls)
    X.csrc[1] = ctypes_all + "".join(d["cdefs"] for _, _, d in decls)
    if how == "late_cdef":
        X.late, lt, lc = K.late_decl(s)
        ctypes_all += lt
        X.csrc[1] = lt + X.csrc[1] + lc
    utypes = ""
    for k, u, d in decls:
        ut, uc = usage(k, u, s, d["main"])
        X.cdefs[X.use_pos] += ut
        X.csrc[X.use_pos] += uc
        utypes += c_usage_types(k, u, s, d["main"])
    for i in range(2, n + 1):
        pre = ctypes_all + (utypes if i >= X.use_pos else "")
        X.csrc[i] = pre + X.csrc[i]
        if how == "empty":
            continue            # the FFI declares nothing of its own (only the usage, if it is the using one)
        # every FFI also declares something of its own, so that its tables are not empty
        own = "typedef short own_t%s_%d;\n" % (s, i)
        if how == "after_cdef":
            X.pre[i] = own
        else:
            X.cdefs[i] += own
        X.csrc[i] = own + X.csrc[i]
    return X


def observers(topo, n=None):
    """The FFIs through which the declarations of ffi1 must be visible."""
    return list(TOPO[topo][3])


LATE_EMISSION = ("late_cdef", "emit_late")


def make_gens(n, includes, pre, cdefs, packed, late, how, on_built=None):
    """The FFI objects of a chain, built the way `how` says.  on_built(i, ffi) emits module i: right after FFI i is
    complete (before any FFI that includes it exists), or, for the LATE_EMISSION hows, only after every FFI of the
    chain has been built (build scripts that import one another and compile at the end)."""
    import cffi
    g = {}
    for i in range(1, n + 1):
        g[i] = cffi.FFI()
        if pre[i]:
            g[i].cdef(pre[i])
        for j in includes.get(i, []):
            g[i].include(g[j])
            if how == "twice":
                g[i].include(g[j])
        if cdefs[i]:
            g[i].cdef(cdefs[i])
        if packed[i]:
            g[i].cdef(packed[i], packed=True)
        if on_built and how not in LATE_EMISSION:
            on_built(i, g[i])
    if late:
        g[1].cdef(late)
    if on_built and how in LATE_EMISSION:
        for i in range(1, n + 1):
            on_built(i, g[i])
    return g


class BuildFailed(Exception):
    """gcc rejects a module the generator wrote for a valid chain."""


def build_inline(du, topo, hist, how="before"):
    import cffi
    X = chain_texts(du, topo, "", False, how)
    if hist == "reused":
        # an earlier including FFI used the same included FFI, realized everything, and is gone
        f1 = cffi.FFI()
        f1.cdef(X.cdefs[1])
        if X.packed[1]:
            f1.cdef(X.packed[1], packed=True)
        g = cffi.FFI()
        g.include(f1)
        g.cdef(X.cdefs[X.use_pos] if X.use_pos == 2 else X.cdefs[2])
        ct = None
        for _, _, d in X.decls:
            for t in d["types"]:
                ct = g.typeof(t)
                if ct.kind in ("struct", "union"):
                    ct.fields
                    if t not in d["opaque"]:
                        g.sizeof(ct)
        del g, ct
        gc.collect()
        f = {1: f1}
        for i in range(2, X.n + 1):
            f[i] = cffi.FFI()
            for j in X.includes[i]:
                f[i].include(f[j])
            f[i].cdef(X.cdefs[i])
    else:
        f = make_gens(X.n, X.includes, X.pre, X.cdefs, X.packed, X.late, how)
    libs = {i: f[i].dlopen(None) for i in f}
    return f, libs, X, None


def _module_names(prefix, u, n, naming, d):
    """(names, paths without extension, package name or None)"""
    if naming.startswith("package"):
        pkg = "%spkg_%s" % (prefix, u)
        os.makedirs(os.path.join(d, pkg))
        with open(os.path.join(d, pkg, "__init__.py"), "w") as fh:
            fh.write("# package of included / including modules\n")
        return ({i: "%s.m%d" % (pkg, i) for i in range(1, n + 1)},
                {i: os.path.join(d, pkg, "m%d" % i) for i in range(1, n + 1)}, pkg)
    names = {i: "%s_%s_%d" % (prefix, u, i) for i in range(1, n + 1)}
    return names, {i: os.path.join(d, names[i]) for i in names}, None


def _import_chain(names, n, naming, all_decls):
    import importlib
    importlib.invalidate_caches()
    mods = {}
    if naming.endswith("baseused"):
        # the included module is imported and every type of it realized before the includer is even imported
        mods[1] = importlib.import_module(names[1])
        for decls in all_decls:
            for _, _, d in decls:
                for t in d["types"]:
                    ct = mods[1].ffi.typeof(t)
                    if ct.kind in ("struct", "union"):
                        ct.fields
        for i in range(2, n + 1):
            mods[i] = importlib.import_module(names[i])
    else:
        for i in range(n, 0, -1):               # importing the last one imports the others
            mods[i] = importlib.import_module(names[i])
    return mods


def build_abi(du, topo, how="before", naming="flat"):
    X = chain_texts(du, topo, "", False, how)
    d = _scratch_on_path()
    u = _uniq()
    names, paths, pkg = _module_names("c34p", u, X.n, naming, d)
    def emit(i, g):
        g.set_source(names[i], None)
        with contextlib.redirect_stdout(io.StringIO()):
            g.emit_python_code(paths[i] + ".py")
    make_gens(X.n, X.includes, X.pre, X.cdefs, X.packed, X.late, how, emit)
    mods = _import_chain(names, X.n, naming, [X.decls])
    f = {i: mods[i].ffi for i in mods}
    libs = {i: f[i].dlopen(None) for i in f}

    def cleanup():
        for i in names:
            sys.modules.pop(names[i], None)
            try:
                os.unlink(paths[i] + ".py")
            except OSError:
                pass
        if pkg:
            sys.modules.pop(pkg, None)
            shutil.rmtree(os.path.join(d, pkg), ignore_errors=True)
    return f, libs, X, cleanup


def build_api(cases, topo, how="before", naming="flat", dry=False):
    """One chain of compiled modules holding many cases (names mangled by '_<case id>').  The C files are written at
    the moments `how` says, gcc runs afterwards (it has no influence on the FFI objects).  dry: generator only."""
    d = _scratch_on_path()
    u = _uniq()
    n, includes = TOPO[topo][0], TOPO[topo][1]
    rng = range(1, n + 1)
    acc = {key: {i: [] for i in rng} for key in ("pre", "cdefs", "packed", "csrc")}
    late = []
    info = {}
    for cid, du in cases:
        X = chain_texts(du, topo, "_%d" % cid, True, how)
        for i in rng:
            acc["pre"][i].append(X.pre[i])
            acc["cdefs"][i].append(X.cdefs[i])
            acc["packed"][i].append(X.packed[i])
            acc["csrc"][i].append(X.csrc[i])
        late.append(X.late)
        info[cid] = X
    names, paths, pkg = _module_names("c34c", u, n, naming, d)
    J = {key: {i: "".join(acc[key][i]) for i in rng} for key in acc}
    def emit(i, g):
        g.set_source(names[i], J["csrc"][i])
        with contextlib.redirect_stdout(io.StringIO()):
            g.emit_c_code(paths[i] + ".c")
    make_gens(n, includes, J["pre"], J["cdefs"], J["packed"], "".join(late), how, emit)
    if dry:
        return None
    for i in rng:
        cfile = paths[i] + ".c"
        so = paths[i] + build.EXT_SUFFIX
        p = subprocess.run(["gcc", "-O0", "-w", "-shared", "-fPIC", "-I" + build.INCLUDEPY, cfile, "-o", so],
                           stdout=subprocess.PIPE, stderr=subprocess.STDOUT, text=True)
        if p.returncode != 0:
            errs = [ln for ln in p.stdout.splitlines() if "error:" in ln]
            e = BuildFailed("gcc rejects generated module %d of the chain: %s" % (i, " | ".join(errs[:3])[:500]))
            # classification of the root cause: the C file of a module names a typedef that only a module
            # INCLUDING it declares (use_t_* are the including cdefs' typedefs; the using module is never module 1)
            e.cause = ("included_module_names_includer_typedef"
                       if i < TOPO[topo][2] and any("use_t_" in ln for ln in errs) else "gcc_error")
            # the case ids whose (mangled) names gcc complains about
            e.cids = set(int(m) for ln in errs for m in re.findall(r"_(\d+)\b", ln.split("error:", 1)[1]))
            raise e
    mods = _import_chain(names, n, naming, [info[cid].decls for cid, _ in cases])
    f = {i: mods[i].ffi for i in mods}
    libs = {i: mods[i].lib for i in mods}
    return f, libs, info


# ---------------------------------------------------------------------------------------
# the oracle

def _err(e):
    return "%s: %s" % (type(e).__name__, str(e).split("\n")[0][:140])


def check_case(mode, f, libs, X, order, s="", topo="L2", first="name", how="before"):
    """Returns (nchecks, [(what, kind, text)]).  `kind` is the declaration kind as it was enumerated; sig_of() maps
    it to the key of the signature."""
    bad = []
    cnt = [0]
    decls, use_pos = X.decls, X.use_pos
    n = len(f)
    obs = observers(topo)
    qorder = [1] + obs if order == "base_first" else obs[::-1] + [1]
    api = mode == "api"
    ident_ok = {}

    def chk():
        cnt[0] += 1

    def blk_identity(kind, u, d):
        # ---- identity of every type through every FFI of the chain ------------------------
        for t in d["types"]:
            ident_ok[t] = True
            for probe in (t, t + " *"):
                got = {}
                for i in qorder:
                    try:
                        got[i] = f[i].typeof(probe)
                    except Exception as e:
                        got[i] = e
                if isinstance(got[1], Exception):
                    raise InfraError("the declaring FFI itself cannot build %r: %s" % (probe, _err(got[1])))
                for i in obs:
                    chk()
                    if isinstance(got[i], Exception):
                        ident_ok[t] = False
                        bad.append(("not_visible", kind, "ffi%d.typeof(%r): %s" % (i, probe, _err(got[i]))))
                    elif got[i] is not got[1]:
                        ident_ok[t] = False
                        bad.append(("identity", kind, "ffi%d.typeof(%r) is not ffi1.typeof(%r) [%s / %s]" % (
                            i, probe, probe, got[i].cname, got[1].cname)))

    def blk_components(kind, u, d):
        # ---- the parts of an included type are the included types (pointer targets, nested aggregates) ------
        for T, path, exp in d["components"]:
            for i in qorder:
                chk()
                try:
                    ct = f[i].typeof(T)
                    x = ct.item if path == "item" else dict(ct.fields)[path].type
                    ref = f[1].typeof(exp)
                except Exception as e:
                    # (through the declaring FFI itself this happens when its struct lost its fields: in-line, after an
                    # earlier including FFI was collected)
                    bad.append(("layout" if i == 1 else "not_visible", kind,
                                "ffi%d: %s of %r: %s" % (i, path, T, _err(e))))
                    continue
                if x is not ref:
                    bad.append(("identity", kind, "ffi%d: %s of %r is not ffi1's %r [%s]" % (i, path, T, exp, x.cname)))

    def blk_layout(kind, u, d):
        # ---- layouts are those of the included module -----------------------------------------
        if not d["layout"]:
            return
        size, align, offs = _LAYOUT[d["layout"]]
        t = d["layout_type"] or d["main"]
        for i in qorder:
            chk()
            try:
                ct = f[i].typeof(t)
                flds = dict(ct.fields)
                got = (f[i].sizeof(t), f[i].alignof(t),
                       {k: (flds[k].offset if k in flds else f[i].offsetof(t, k)) for k in offs})
            except Exception as e:
                bad.append(("layout", kind, "ffi%d: layout of %r unavailable: %s" % (i, t, _err(e))))
                continue
            if got != (size, align, offs):
                bad.append(("layout", kind, "ffi%d: %r has (size, align, offsets) %r, C says %r" % (
                    i, t, got, (size, align, offs))))

    def blk_usage(kind, u, d):
        # ---- the usage in the including cdef refers to the shared object ------------------------
        tag = kind + s
        if u == "nameonly":
            return
        users = list(range(use_pos, n + 1))
        if order != "base_first":
            users.reverse()
        for i in users:
            chk()
            try:
                if kind in K.LEN_CONST:
                    if u == "field":
                        ln = f[i].typeof("struct use_s_" + tag).fields[0][1].type.length
                    else:
                        ln = f[i].typeof("use_t_" + tag).length
                    if ln != K.LEN_CONST[kind][1]:
                        bad.append(("constant", kind, "ffi%d: array length from included constant is %r" % (i, ln)))
                    continue
                if first == "name":
                    ref = f[1].typeof(d["main"])
                if u == "field":
                    if first != "name":
                        # the includer's struct is what realizes the included type: size, allocation, fields
                        f[i].sizeof("struct use_s_" + tag)
                        f[i].new("struct use_s_" + tag + " *")
                    ut = f[i].typeof("struct use_s_" + tag)
                    x = ut.fields[0][1].type
                    if ut is not f[use_pos].typeof("struct use_s_" + tag):
                        bad.append(("identity", "usage_struct", "ffi%d: struct use_s is not ffi%d's" % (i, use_pos)))
                elif u == "tdtarget":
                    x = f[i].typeof("use_t_" + tag)
                else:
                    if api and (i == use_pos or first == "lib"):
                        fn = getattr(libs[i], "use_f_" + tag)
                        if first == "lib":
                            fn(f[i].NULL)           # the argument conversion realizes the type
                        x = f[i].typeof(fn).args[0].item
                    else:
                        x = f[i].typeof("void(*)(%s *)" % d["main"]).args[0].item
                if first != "name":
                    ref = f[1].typeof(d["main"])
                if x is not ref:
                    bad.append(("identity", kind, "ffi%d: the type used as %s is not ffi1's %r [%s]" % (
                        i, u, d["main"], x.cname)))
                elif api and u == "ptrarg":
                    # behavioural consequence: a pointer made by the declaring FFI is accepted by the includer's function
                    chk()
                    try:
                        getattr(libs[i], "use_f_" + tag)(f[1].cast(d["main"] + " *", 0))
                    except Exception as e:
                        bad.append(("behaviour", kind, "lib%d.use_f(ffi1.cast(%r, 0)): %s" % (i, d["main"] + " *", _err(e))))
            except InfraError:
                raise
            except Exception as e:
                bad.append(("not_visible", kind, "ffi%d: usage %s of %r: %s" % (i, u, d["main"], _err(e))))

    def blk_consts(kind, u, d):
        # ---- integer constants and enumerators -----------------------------------------------------
        for cname, cval in sorted(d["consts"].items()):
            for i in qorder:
                vals = []
                try:
                    if mode != "inline":
                        vals.append(("integer_const", f[i].integer_const(cname)))
                    vals.append(("lib", getattr(libs[i], cname)))
                except Exception as e:
                    chk()
                    bad.append(("constant", kind, "ffi%d: constant %s not visible: %s" % (i, cname, _err(e))))
                    continue
                for how_, v in vals:
                    chk()
                    if v != cval or type(v) is not int:
                        bad.append(("constant", kind, "ffi%d: %s via %s is %r, declared %r" % (i, cname, how_, v, cval)))

    def blk_reach(kind, u, d):
        # ---- API: functions and globals of the included module through every including lib ------------
        if not api:
            return
        if kind == "func":
            name = "fn_f" + s
            addr = {}
            for i in qorder:             # the realization order decides which lib caches the attribute first
                if i != 1:
                    chk()
                try:
                    r = getattr(libs[i], name)(5)
                    addr[i] = int(f[i].cast("intptr_t", f[i].addressof(libs[i], name)))
                    if r != 1005:
                        bad.append(("reach", kind, "lib%d.%s(5) returned %r" % (i, name, r)))
                except Exception as e:
                    if i == 1:
                        raise InfraError("the declaring lib cannot call %s: %s" % (name, _err(e)))
                    bad.append(("reach", kind, "lib%d.%s: %s" % (i, name, _err(e))))
            for i in addr:
                if addr[i] != addr.get(1):
                    bad.append(("reach", kind, "addressof(lib%d, %s) differs from lib1's" % (i, name)))
        elif kind == "glob":
            name = "gl_g" + s
            addr = {}
            for i in qorder:
                if i != 1:
                    chk()
                try:
                    v = getattr(libs[i], name)
                    addr[i] = int(f[i].cast("intptr_t", f[i].addressof(libs[i], name)))
                    if v != 77:
                        bad.append(("reach", kind, "lib%d.%s is %r" % (i, name, v)))
                except Exception as e:
                    if i == 1:
                        raise InfraError("the declaring lib cannot read %s: %s" % (name, _err(e)))
                    bad.append(("reach", kind, "lib%d.%s: %s" % (i, name, _err(e))))
            for i in sorted(addr):
                if addr[i] != addr.get(1):
                    bad.append(("reach", kind, "addressof(lib%d, %s) differs from lib1's" % (i, name)))
                elif i != 1:
                    setattr(libs[i], name, 1000 + i)
                    back = getattr(libs[1], name)
                    setattr(libs[1], name, 77)
                    if back != 1000 + i or getattr(libs[i], name) != 77:
                        bad.append(("reach", kind, "a store through lib%d.%s is not the store lib1 sees" % (i, name)))
        elif kind == "extpy":
            name, caller = "ep" + s, "ep_call" + s
            ptr = {}
            for i in qorder:
                if i != 1:
                    chk()
                try:
                    ptr[i] = getattr(libs[i], name)
                except Exception as e:
                    if i == 1:
                        raise InfraError("the declaring lib has no %s: %s" % (name, _err(e)))
                    bad.append(("reach", kind, "lib%d.%s: %s" % (i, name, _err(e))))
            for i in ptr:
                if ptr[i] != ptr[1]:
                    bad.append(("reach", kind, "lib%d.%s is not lib1's function pointer" % (i, name)))
            f[1].def_extern(name=name)(lambda x: x * 3)
            for i in sorted(ptr):
                if i != 1:
                    chk()
                try:
                    got = (getattr(libs[i], caller)(5), ptr[i](5))
                except Exception as e:
                    if i == 1:
                        raise InfraError("the declaring lib cannot call %s: %s" % (caller, _err(e)))
                    bad.append(("reach", kind, "lib%d.%s: %s" % (i, caller, _err(e))))
                    continue
                if got != (16, 15):
                    bad.append(("reach", kind, "lib%d: (%s(5), %s(5)) is %r, expected (16, 15)" % (i, caller, name, got)))
        elif kind in K.REACH_KINDS:
            R = K.reach_ops(kind, s)
            seen = {}
            for i in qorder:
                if i != 1:
                    chk()
                try:
                    v = R["read"](f[i], libs[i], f[1])
                    a = int(f[i].cast("intptr_t", f[i].addressof(libs[i], R["sym"]))) if R["sym"] else None
                    p = R["ptr"](f[i], libs[i]) if "ptr" in R else None
                    ty = R["typed"](f[i], libs[i]) if "typed" in R else None
                except Exception as e:
                    if i == 1:
                        raise InfraError("the declaring lib cannot reach its own %s: %s" % (kind, _err(e)))
                    bad.append(("reach", kind, "lib%d (%s): %s" % (i, kind, _err(e))))
                    continue
                if v != R["expect"]:
                    bad.append(("reach", kind, "lib%d (%s): observed %r, expected %r" % (i, kind, v, R["expect"])))
                if ty is not None and ty[0] is not f[1].typeof(ty[1]):
                    bad.append(("identity", kind, "lib%d (%s): the value's type is not ffi1's %r [%s]" % (
                        i, kind, ty[1], ty[0].cname)))
                seen[i] = (a, p)
            for i in sorted(seen):
                if seen[i] != seen.get(1):
                    bad.append(("reach", kind, "lib%d (%s): address differs from what lib1 gives" % (i, kind)))
                elif i != 1 and "store" in R:
                    chk()
                    orig = R["raw"](f[1], libs[1])
                    R["store"](f[i], libs[i], 1000 + i)
                    back = R["raw"](f[1], libs[1])
                    R["store"](f[1], libs[1], orig)
                    if back != 1000 + i or R["raw"](f[i], libs[i]) != orig:
                        bad.append(("reach", kind, "a store through lib%d (%s) is not the store lib1 sees" % (i, kind)))

    def blk_behaviour(kind, u, d):
        # ---- behavioural consequences of identity (only where identity held; enums re-created in generated
        # modules are the recorded K34-enum-copied and are not reported a second time here).  Reference for every
        # operation is the same operation done through the declaring FFI alone: where that one fails, nothing is asked.
        for t in d["types"]:
            if not ident_ok.get(t) or t in d["opaque"]:
                continue
            try:
                ct = f[1].typeof(t)
                size1 = f[1].sizeof(t)
            except Exception:
                continue
            for i in obs:
                chk()
                try:
                    if f[i].sizeof(t) != size1:
                        bad.append(("behaviour", kind, "ffi%d.sizeof(%r) differs from ffi1's" % (i, t)))
                    if ct.kind not in ("struct", "union"):
                        continue
                    fld = ct.fields[0][0]
                    p1 = f[1].new(t + " *")
                    try:
                        r1 = f[1].new(t + " *")
                        r1[0] = p1[0]
                        f[1].addressof(p1, fld)
                        off1 = f[1].offsetof(t, fld)
                    except Exception:
                        continue                     # not an operation this type supports at all
                    q = f[i].new(t + " *")
                    if f[i].typeof(q) is not f[1].typeof(p1):
                        bad.append(("behaviour", kind, "ffi%d.new(%r) has another type than ffi1.new()" % (i, t + " *")))
                    q[0] = p1[0]                     # cdata of the other FFI is accepted iff the ctypes are identical
                    p1[0] = q[0]
                    f[i].addressof(p1, fld)
                    if f[i].offsetof(t, fld) != off1:
                        bad.append(("behaviour", kind, "ffi%d.offsetof(%r, %r) differs from ffi1's" % (i, t, fld)))
                except Exception as e:
                    bad.append(("behaviour", kind, "ffi%d, cross-FFI use of %r: %s" % (i, t, _err(e))))

    def blk_late():
        # ---- declarations cdef()ed into ffi1 after it was included: fully visible or not at all ---------
        tn, sn, kn = "lt_t" + s, "struct lt_s" + s, "LT_K" + s
        try:
            ref = f[1].typeof(tn)
            refs = f[1].typeof(sn)
        except Exception as e:
            raise InfraError("the declaring FFI does not know its own late declaration: %s" % _err(e))
        for i in obs:
            chk()
            try:
                got = f[i].typeof(tn)
            except Exception:
                got = None
            if got is not None:
                if got is not ref:
                    bad.append(("identity", "late", "ffi%d.typeof(%r) exists but is not ffi1's" % (i, tn)))
                elif f[i].typeof(sn) is not refs:
                    bad.append(("identity", "late", "ffi%d knows %r but its %r is not ffi1's" % (i, tn, sn)))
            getters = [lambda: getattr(libs[i], kn)]
            if mode != "inline":
                getters.append(lambda: f[i].integer_const(kn))
            for getter in getters:
                try:
                    v = getter()
                except Exception:
                    continue
                if v != 5:
                    bad.append(("constant", "late", "ffi%d: late constant %s is %r, declared 5" % (i, kn, v)))

    blocks = {"name": [blk_identity, blk_components, blk_layout, blk_usage, blk_consts, blk_reach, blk_behaviour],
              "usage": [blk_usage, blk_identity, blk_components, blk_layout, blk_consts, blk_reach, blk_behaviour],
              "lib": [blk_reach, blk_usage, blk_consts, blk_identity, blk_components, blk_layout, blk_behaviour]}[first]
    for kind, u, d in decls:
        for blk in blocks:
            blk(kind, u, d)
    if how == "late_cdef":
        blk_late()
    return cnt[0], bad


# ---------------------------------------------------------------------------------------
# workers.  A case is (mode, du, topo, order, hist, first, how, naming).

def norm_case(c):
    c = list(c)
    c += ["name", "before", "flat"][len(c) - 5:]
    mode, du, topo, order, hist, first, how, naming = c
    return (mode, tuple((k, u) for k, u in du), topo, order, hist, first, how, naming)


def run_cheap(case):
    mode, du, topo, order, hist, first, how, naming = case
    import warnings
    warnings.simplefilter("ignore")
    cleanup = None
    try:
        if mode == "inline":
            f, libs, X, cleanup = build_inline(du, topo, hist, how)
        else:
            f, libs, X, cleanup = build_abi(du, topo, how, naming)
    except InfraError:
        raise
    except Exception as e:
        # every chain of the space is a valid use of include() that the unchanged tree builds; if the including FFI
        # or module cannot be built, the included declarations are not visible through it
        return 0, [("chain_build_failed", "chain", "%s | %s" % (_err(e), traceback.format_exc()[-700:]))]
    try:
        return check_case(mode, f, libs, X, order, "", topo, first, how)
    finally:
        if cleanup:
            cleanup()


def work_cheap(block):
    out = []
    for case in block:
        n, bad = run_cheap(case)
        out.append((case, n, bad))
    return out


def _in_child(fn):
    """Run fn() in a forked copy of this process (the compiled modules are imported but nothing of them is realized
    yet: every realization order starts from the same pristine state).  -> ('ok', result) | ('crash', description)"""
    r, w = os.pipe()
    sys.stdout.flush()
    sys.stderr.flush()
    pid = os.fork()
    if pid == 0:
        try:
            os.close(r)
            try:
                data = pickle.dumps(("ok", fn()))
            except InfraError as e:
                data = pickle.dumps(("infra", str(e)))
            except BaseException:
                data = pickle.dumps(("infra", traceback.format_exc()))
            with os.fdopen(w, "wb") as fh:
                fh.write(data)
        finally:
            os._exit(0)
    os.close(w)
    with os.fdopen(r, "rb") as fh:
        data = fh.read()
    _, status = os.waitpid(pid, 0)
    if not data:
        if os.WIFSIGNALED(status):
            return ("crash", "killed by signal %d" % os.WTERMSIG(status))
        return ("crash", "exit status %r" % (status,))
    res = pickle.loads(data)
    if res[0] == "infra":
        raise InfraError(res[1])
    return res


def work_api(item, fork=True):
    """item: ((topo, how, naming), [(cid, du, [(order, first), ...]), ...]).  Every du is compiled once (mangled by its
    cid); every (order, first) variant runs in its own forked process."""
    (topo, how, naming), cases = item
    import warnings
    warnings.simplefilter("ignore")

    def full(du, order, first):
        return ("api", du, topo, order, "fresh", first, how, naming)
    key = (topo, how, naming)
    try:
        f, libs, info = build_api([(cid, du) for cid, du, _ in cases], topo, how, naming)
    except InfraError:
        raise
    except Exception as e:
        # generator exception, gcc rejecting the generated C, or import failure: the batch of valid chains cannot be
        # built.  Isolate the chains that cannot be built (so that each one is reported alone and is replayable): those
        # gcc names, or those whose own generation fails; otherwise halve the batch.
        tb = traceback.format_exc()[-700:]
        if len(cases) > 1:
            culprits = []
            if getattr(e, "cids", None):
                culprits = [c for c in cases if c[0] in e.cids]
            elif not isinstance(e, BuildFailed):
                for c in cases:
                    try:
                        build_api([(c[0], c[1])], topo, how, naming, dry=True)
                    except InfraError:
                        raise
                    except Exception:
                        culprits.append(c)
            if culprits and len(culprits) < len(cases):
                out = []
                for c in culprits:
                    out.extend(work_api((key, [c]), fork))
                return out + work_api((key, [c for c in cases if c not in culprits]), fork)
            h = len(cases) // 2
            return work_api((key, cases[:h]), fork) + work_api((key, cases[h:]), fork)
        cid, du, variants = cases[0]
        what = "chain_build_failed:" + getattr(e, "cause", type(e).__name__)
        return [(full(du, o, fi), 0, [(what, "+".join(k for k, _ in du), "%s | %s" % (_err(e), tb))])
                for o, fi in variants]
    variants = []
    for cid, du, vs in cases:
        for v in vs:
            if v not in variants:
                variants.append(v)
    out = []
    for order, first in variants:
        sel = [(cid, du) for cid, du, vs in cases if (order, first) in vs]

        def run_sel(sel=sel):
            res = []
            for cid, du in sel:
                n, bad = check_case("api", f, libs, info[cid], order, "_%d" % cid, topo, first, how)
                res.append((full(du, order, first), n, bad))
            return res
        if not fork:
            out.extend(run_sel())
            continue
        st, res = _in_child(run_sel)
        if st == "ok":
            out.extend(res)
            continue
        # a child died: find the case(s) by running each one in its own child
        for one in sel:
            st1, res1 = _in_child(lambda one=one: run_sel([one]))
            if st1 == "ok":
                out.extend(res1)
            else:
                out.append((full(one[1], order, first), 0, [("crash", "chain", res1)]))
    return out


def work_anon(item):
    from . import _c34_anon as AN
    _, case, tag = item
    return [("anon", case, AN.run_case(case, tag))]


# ---------------------------------------------------------------------------------------
# the space

def du_space(kmax, kinds=None):
    """All (kind, usage) assignments for all subsets of <= kmax kinds."""
    kinds = KINDS if kinds is None else kinds
    for k in range(1, kmax + 1):
        for D in itertools.combinations(kinds, k):
            for us in itertools.product(USAGES, repeat=k):
                if all(applicable(kd, u) for kd, u in zip(D, us)):
                    yield tuple(zip(D, us))


def du_ok(du, mode):
    return mode == "api" or not any(k in K.API_ONLY for k, _ in du)


def first_applies(du, first, mode):
    """first == 'usage': some declaration is used by a dependent type of the includer; 'lib' (API): some declaration
    is first reached through a function / global of a lib object."""
    if first == "name":
        return True
    if first == "usage":
        return any(u != "nameonly" and k not in K.LEN_CONST for k, u in du)
    return mode == "api" and any(u == "ptrarg" or k in ("funcs", "gstruct", "kstruct") for k, u in du)


def enumerate_space(quick):
    """-> ordered dict case -> family."""
    space = {}

    def add(fam, mode, du, topo, order, hist="fresh", first="name", how="before", naming="flat"):
        if not du_ok(du, mode) or not first_applies(du, first, mode):
            return
        space.setdefault((mode, du, topo, order, hist, first, how, naming), fam)

    kmax = 2 if quick else 3
    base = list(du_space(kmax))
    singles_old = [du for du in base if len(du) == 1]
    pairs_old = [du for du in base if len(du) == 2]
    singles_new = list(du_space(1, K.SHAPE_KINDS + K.REACH_KINDS))
    singles = singles_old + singles_new
    pairs_new = [a + b for a in singles_new for b in singles_old]       # (new kind, original kind)
    # ---- base: the original product
    for du in base:
        for topo in TOPOS:
            for order in ORDERS:
                add("base", "abi", du, topo, order)
                for hist in ("fresh", "reused"):
                    if hist == "reused" and quick and len(du) > 1:
                        continue             # quick tier: the already-used included FFI only with single kinds
                    add("base", "inline", du, topo, order, hist)
                # API (compilation is the expensive part): quick = every single kind on every chain shape + every pair
                # of kinds on the longest chain; thorough = singles and pairs on every shape + triples on the diamond
                if quick:
                    if len(du) == 2 and topo != "L3_use_last":
                        continue
                elif len(du) == 3 and topo != "L3_diamond":
                    continue
                add("base", "api", du, topo, order)
    # ---- shapes: further declaration shapes, alone and (thorough) next to every original kind (in-line and ABI on three
    # chain shapes, API on A<-B<-C used in C)
    for du in singles_new:
        for topo in TOPOS:
            for order in ORDERS:
                add("shapes", "abi", du, topo, order)
                add("shapes", "inline", du, topo, order)
                add("shapes", "inline", du, topo, order, "reused")
                add("shapes", "api", du, topo, order)
    for du in ([] if quick else pairs_new):
        for topo in HOW_TOPOS:
            for order in ORDERS:
                add("shapes", "abi", du, topo, order)
                if not quick:
                    add("shapes", "inline", du, topo, order)
                    if topo == "L3_use_last":
                        add("shapes", "api", du, topo, order)
    # ---- first: what touches the included type first
    for du in singles + ([] if quick else pairs_old):
        for topo in (TOPOS if len(du) == 1 else ["L3_use_last", "L3_diamond"]):
            for order in ORDERS:
                for first in ("usage", "lib"):
                    for mode in ("abi", "inline", "api"):
                        if len(du) == 2 and mode == "api" and topo != "L3_use_last":
                            continue
                        add("first", mode, du, topo, order, first=first)
    # ---- how: the way include() is called
    for du in singles + ([] if quick else pairs_old):
        for how in HOWS[1:]:
            for topo in ((HOW_TOPOS[::2] if quick else HOW_TOPOS) if len(du) == 1 else ["L2"]):
                for order in ORDERS:
                    add("how", "abi", du, topo, order, how=how)
                    if how != "emit_late":       # in-line there is no emission
                        add("how", "inline", du, topo, order, how=how)
                    if topo == "L2" or (not quick and len(du) == 1):
                        add("how", "api", du, topo, order, how=how)
    # ---- naming: dotted module names, included module imported and used first
    for du in singles:
        for naming in NAMINGS[1:]:
            for topo in (HOW_TOPOS[::2] if quick else HOW_TOPOS):
                for order in ORDERS:
                    add("naming", "abi", du, topo, order, naming=naming)
                    if topo == "L2" and (naming == "package+baseused" or not quick):
                        add("naming", "api", du, topo, order, naming=naming)
    # ---- long: chains of 4 and 5 FFIs
    for du in singles + ([] if quick else pairs_old):
        for topo in LONG_TOPOS:
            for order in ORDERS:
                for first in (("name",) if quick else ("name", "usage", "lib")):
                    add("long", "abi", du, topo, order, first=first)
                    add("long", "inline", du, topo, order, first=first)
                    if len(du) == 1 and not (quick and topo == "L4_chain"):
                        add("long", "api", du, topo, order, first=first)
    return space, kmax, len(base)


def api_items(space, per_weight):
    """Group the API cases by chain (topology, how, naming), compile every du once per chain."""
    groups = {}
    for case in space:
        mode, du, topo, order, hist, first, how, naming = case
        if mode != "api":
            continue
        key = (topo, how, naming)
        if how == "empty":
            # an including module without any declaration of its own exists only if no case of the batch has a usage
            key = (topo, how, naming, all(u == "nameonly" for _, u in du))
        groups.setdefault(key, {}).setdefault(du, []).append((order, first))
    items = []
    for key in groups:
        cur, w = [], 0
        n = TOPO[key[0]][0]
        for du, vs in groups[key].items():
            cur.append((len(cur), du, vs))
            w += len(du) * n
            if w >= per_weight:
                items.append((w, (key[:3], cur)))
                cur, w = [], 0
        if cur:
            items.append((w, (key[:3], cur)))
    items.sort(key=lambda x: -x[0])              # the longest batches first
    return [it for _, it in items]


def sig_of(case, what, kind):
    mode, du, topo, order, hist, first, how, naming = case
    sig = {"mode": mode, "what": what, "kind": K.SIG_KIND.get(kind, kind), "history": hist}
    if what.startswith("chain_build_failed:"):
        sig["what"], sig["cause"] = what.split(":")
    if kind in K.SIG_KIND:
        sig["shape"] = kind
    if first != "name":
        sig["first"] = first
    if how != "before":
        sig["how"] = how
    if naming != "flat":
        sig["naming"] = naming
    if topo in LONG_TOPOS:
        sig["topology"] = topo
    return sig


def run(ctx):
    global _LAYOUT
    _LAYOUT = gcc_layouts()
    from . import _c34_anon as AN
    space, kmax, nbase = enumerate_space(ctx.quick)
    n_na = sum(1 for k in KINDS for u in USAGES if not applicable(k, u))
    ctx.count("kind_x_usage.not_applicable", n_na)
    cheap = [c for c in space if c[0] != "api"]
    aitems = api_items(space, 500 if ctx.quick else 1500)
    n_api = sum(1 for c in space if c[0] == "api")
    n_api_du = sum(len(it[1]) for it in aitems)
    # numbered anonymous structs ('$1', ...) declared by several FFIs of an include chain
    anon_items = [("anon", case, "r%d" % k) for k, case in enumerate(AN.cases())]
    ctx.log("%d original (kinds x usages) assignments; %d in-line/ABI chains; %d API cases on %d compiled declaration "
            "sets in %d module chains; %d numbered-anonymous chains" % (
                nbase, len(cheap), n_api, n_api_du, len(aitems), len(anon_items)))

    evaluated = checks = 0
    nontrivial = set()

    def absorb(case, n, bad):
        nonlocal evaluated, checks
        evaluated += 1
        checks += n
        mode, du, topo, order, hist, first, how, naming = case
        ctx.count("family." + space.get(case, "base"))
        ctx.count("mode." + mode)
        ctx.count("topology." + topo)
        ctx.count("order." + order)
        ctx.count("first." + first)
        ctx.count("how." + how)
        ctx.count("naming." + naming)
        if mode == "inline":
            ctx.count("inline_history." + hist)
        for k, u in du:
            ctx.count("kind.%s.%s" % (k, u))
        if len(du) > 1 or topo != "L2" or du[0][1] != "nameonly" or (first, how, naming) != ("name", "before", "flat"):
            nontrivial.add(case)
        ctx.sample({"mode": mode, "declared_and_used": [list(x) for x in du], "topology": topo, "first_realized_by": order,
                    "history": hist, "first_touched": first, "include_called": how, "naming": naming,
                    "cdef_of_included": chain_texts(du, topo, "", mode == "api", how).cdefs[1]})
        seen = set()
        for what, kind, text in bad:
            key = (what, kind)
            if key in seen:
                continue                     # one report per (what, kind) per case
            seen.add(key)
            ctx.violation(sig_of(case, what, kind),
                          {"case": [mode, [list(x) for x in du], topo, order, hist, first, how, naming],
                           "messages": [t for w, k, t in bad if (w, k) == key][:6]})

    # the API batches take longest: start them first
    items = [[("api", it)] for it in aitems] + [[it] for it in anon_items] + [[b] for b in pool.chunks(cheap, 40)]
    for item, r in pool.pmap(_dispatch, items):
        if isinstance(r, pool.WorkerError):
            raise InfraError("worker failed: %s" % r.tb)
        if isinstance(r, pool.Crash):
            ctx.violation({"what": "crash"}, {"item": repr(item)[:2000], "how": r.describe()})
            continue
        for case, n, bad in r:
            if case == "anon":
                case, bad = n, bad
                ctx.count("anon_numbered_cases")
                ctx.count("anon_numbered_cases." + case[2])
                for what, owner, user, info in bad:
                    ctx.violation({"kind": "anon_numbered", "what": what,
                                   "mode": {"ool": "abi", "inline": "inline", "api": "api"}[case[2]]},
                                  {"anon_numbered": True, "case": [list(case[0]), list(case[1]), case[2]],
                                   "owner": owner, "seen_through": user, "info": info})
                continue
            absorb(case, n, bad)
    fam = {}
    for c, fm in space.items():
        fam[fm] = fam.get(fm, 0) + 1
    cov = {
        "evaluations": evaluated,
        "distinct_nontrivial": len(nontrivial),
        "checks": checks,
        "rule": "base: every subset of <= %d of the 9 declaration kinds x every applicable usage assignment (%d assignments) x 5 "
                "chain shapes (A<-B; A<-B<-C used in B; A<-B<-C used in C; C includes B and A where B includes A; C "
                "includes an unrelated B first and then A) x 2 realization orders, "
                "run in-line with a fresh and with an already-used included FFI%s, and as out-of-line ABI modules; API: %s.  "
                "shapes: 18 further type / constant shapes and 12 further API function / global / constant shapes as "
                "single kinds on the same chains, orders and modes%s.  "
                "first: every single kind%s whose declaration is "
                "touched first by the includer's dependent type or (API) by a lib function, on the 5 chain shapes.  "
                "how: every single kind%s "
                "x include() after a first cdef / twice / into FFIs without own declarations / followed by a later "
                "cdef of the included FFI / all modules emitted only after all FFIs were built, on %s "
                "(API: %s).  naming: every single kind in ABI modules inside "
                "a package and / or with the included module imported and used before the includer, same chain shapes "
                "(API on A<-B: %s).  "
                "long: every single kind%s on a chain of 4, a 4-node diamond and a 5-FFI chain whose first include "
                "misses at depth 2, all modes%s.  Cases per family: %s.  API cases are batched by name mangling into %d chains of compiled "
                "modules, every (order, first) variant in its own forked process; a chain that cannot be built is "
                "isolated and reported alone.  "
                "non-trivial = more than one kind, or a chain of 3 or more, or a usage other than by-name, or a "
                "non-default first / how / naming (distinct cases)" % (
                    kmax, nbase, " (the latter for single kinds only)" if ctx.quick else "",
                    "single kinds on all shapes and pairs on A<-B<-C used in C" if ctx.quick else
                    "singles and pairs on all shapes, triples on the diamond",
                    "" if ctx.quick else ", and paired with every original kind (in-line and as ABI modules on A<-B, A<-B<-C, "
                    "diamond, API on A<-B<-C used in C)",
                    "" if ctx.quick else " and every pair of original kinds (on A<-B<-C used in C and the diamond)",
                    "" if ctx.quick else " and (A<-B) every pair of original kinds",
                    "A<-B and the diamond" if ctx.quick else "A<-B, A<-B<-C and the diamond",
                    "A<-B" if ctx.quick else "all three",
                    "package + used first" if ctx.quick else "all three variants",
                    "" if ctx.quick else " and (in-line / ABI) every pair of original kinds, each also usage-first / lib-first",
                    " (API: not the chain of 4)" if ctx.quick else "",
                    ", ".join("%s %d" % kv for kv in sorted(fam.items())), len(aitems)),
        "exhaustive": True,
        "bound": {"max_kinds_per_included_ffi": kmax, "max_chain": 5, "api_cases": n_api,
                  "api_compiled_declaration_sets": n_api_du},
    }
    return ctx.finish(cov, ["gcc (cref) computes the expected layouts; dlopen(None) is used to reach integer constants "
                            "through a lib object in the in-line and ABI modes",
                            "API modules: emit_c_code() output compiled with gcc -O0; the realization orders of one "
                            "compiled chain run in forked copies of the process that imported it"])


def _dispatch(x):
    if isinstance(x, tuple) and x[0] == "api":
        return work_api(x[1])
    if isinstance(x, tuple) and x[0] == "anon":
        return work_anon(x)
    return work_cheap(x)


def replay(detail):
    if detail.get("anon_numbered"):
        from . import _c34_anon as AN
        c = detail["case"]
        bad = AN.run_case((tuple(c[0]), tuple(c[1]), c[2]), "replay")
        for b in bad:
            print("MISMATCH", b)
        return 1 if bad else 0
    global _LAYOUT
    _LAYOUT = gcc_layouts()
    case = norm_case(detail["case"])
    mode, du, topo, order, hist, first, how, naming = case
    X = chain_texts(du, topo, "", mode == "api", how)
    for i in sorted(X.cdefs):
        print("--- ffi%d includes %s%s" % (i, X.includes.get(i, []), " (each twice)" if how == "twice" else ""))
        if X.pre[i]:
            print("[before the include() calls]\n" + X.pre[i])
        print(X.cdefs[i])
        if X.packed[i]:
            print("[packed=True]\n" + X.packed[i])
    if X.late:
        print("[cdef into ffi1 after the others included it]\n" + X.late)
    print("mode=%s first realized by=%s history=%s first touched=%s include=%s naming=%s" % (
        mode, order, hist, first, how, naming))
    if mode == "api":
        out = work_api(((topo, how, naming), [(0, du, [(order, first)])]), fork=False)
        nchk, bad = out[0][1], out[0][2]
    else:
        nchk, bad = run_cheap(case)
    for what, kind, text in bad:
        print("MISMATCH", what, kind, text)
    if not bad:
        print("all %d checks hold" % nchk)
    return 1 if bad else 0
