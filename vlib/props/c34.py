"""C34 -- ffi.include() shares declarations instead of copying them.

E1: declaration kinds {typedef-prim, typedef-struct, struct, union, enum, anonymous-struct
typedef, constant, function, global} (all subsets of <= 2, thorough 3, kinds declared in the
included FFI) x usage of each in the including cdef {field, pointer argument, typedef target,
by name only} x chain shapes of length 2 and 3 x which FFI realizes a type first
x modes {in-line, out-of-line ABI, compiled API}; in-line additionally with the included FFI
fresh or already used by an earlier (collected) including FFI.

Oracle: ffi_j.typeof(x) is ffi_1.typeof(x) for every FFI of the chain, constants equal,
layouts those of the included module (gcc-computed), usages in the including cdef refer to the
shared object, API: included functions / globals / constants reachable through the including lib.
"""
import contextlib
import gc
import io
import itertools
import os
import subprocess
import sys

from .. import build, cref, pool
from ..build import InfraError

ID = "C34"
LEVEL = "exploration"
META = dict(
    engine="E1-enum", level="exploration",
    technique="exhaustive enumeration of include chains (declaration kinds x usage kinds x chain shape x realization "
              "order x mode) with object identity, gcc-computed layouts and value equality as oracle",
    text="Every subset of <= 2 (thorough 3) of 9 declaration kinds is declared in an FFI that is included, directly and "
         "through a second FFI (5 chain shapes), by FFIs that use each declaration as field / pointer argument / "
         "typedef target / by name only; in-line, as out-of-line ABI modules and as compiled API modules (batched by "
         "name mangling); every type must be the same ctype object in every FFI of the chain whichever FFI realizes it "
         "first, layouts must be those of the included module, integer constants and enumerators equal, and in API "
         "mode functions, globals and constants of the included module reachable (same address, shared storage) "
         "through every including lib.",
    note="layout expectations come from gcc (cref); API modules are the generator's C files compiled with gcc -O0; "
         "in-line/ABI modes do not promise functions and globals through include() and are not judged on them")

KINDS = ["tprim", "tstruct", "struct", "union", "enum", "anon", "const", "func", "glob"]
TYPE_KINDS = KINDS[:6]
USAGES = ["field", "ptrarg", "tdtarget", "nameonly"]
TOPOS = ["L2", "L3_use_mid", "L3_use_last", "L3_diamond", "L3_two_bases"]
ORDERS = ["base_first", "includer_first"]


def applicable(kind, usage):
    if kind in TYPE_KINDS:
        return True
    if kind == "const":
        return usage != "ptrarg"
    return usage == "nameonly"


# ---------------------------------------------------------------------------------------
# texts

def decl(kind, s, api):
    """Declaration of `kind` with name suffix s.  Returns a dict:
    cdef, ctypes (C type definitions every module of the chain needs), cdefs (C definitions for the
    declaring module only), types (probe names), main (the type used by the usages), consts, layout key."""
    d = dict(cdef="", ctypes="", cdefs="", types=[], main=None, consts={}, layout=None)
    if kind == "tprim":
        d["cdef"] = d["ctypes"] = "typedef int tp_t%s;\n" % s
        d["types"] = ["tp_t" + s]
    elif kind == "tstruct":
        if api:
            # the cdef is partial: the layout can only come from the compiled included module
            d["cdef"] = "typedef struct ts_s%s { int a; char b; ...; } ts_t%s;\n" % (s, s)
            d["ctypes"] = "typedef struct ts_s%s { char pad[12]; int a; char b; } ts_t%s;\n" % (s, s)
            d["layout"] = "tstruct_api"
        else:
            d["cdef"] = d["ctypes"] = "typedef struct ts_s%s { int a; char b; } ts_t%s;\n" % (s, s)
            d["layout"] = "tstruct"
        d["types"] = ["ts_t" + s, "struct ts_s" + s]
    elif kind == "struct":
        d["cdef"] = d["ctypes"] = "struct st_s%s { short a; int b:3; long c; };\n" % s
        d["types"] = ["struct st_s" + s]
        d["layout"] = "struct"
    elif kind == "union":
        d["cdef"] = d["ctypes"] = "union un_u%s { int a; char b[6]; };\n" % s
        d["types"] = ["union un_u" + s]
        d["layout"] = "union"
    elif kind == "enum":
        d["cdef"] = d["ctypes"] = "enum en_e%s { EN_A%s, EN_B%s = 5 };\n" % (s, s, s)
        d["types"] = ["enum en_e" + s]
        d["consts"] = {"EN_A" + s: 0, "EN_B" + s: 5}
    elif kind == "anon":
        d["cdef"] = d["ctypes"] = "typedef struct { long a; char b; } an_t%s;\n" % s
        d["types"] = ["an_t" + s]
        d["layout"] = "anon"
    elif kind == "const":
        d["cdef"] = "#define K_CONST%s 42\nstatic const int K_NEG%s = -7;\n" % (s, s)
        d["cdefs"] = "#define K_CONST%s 42\nstatic const int K_NEG%s = -7;\n" % (s, s)
        d["consts"] = {"K_CONST" + s: 42, "K_NEG" + s: -7}
    elif kind == "func":
        d["cdef"] = "int fn_f%s(int);\n" % s
        d["cdefs"] = "int fn_f%s(int x) { return x + 1000; }\n" % s
    elif kind == "glob":
        d["cdef"] = "extern int gl_g%s;\n" % s
        d["cdefs"] = "int gl_g%s = 77;\n" % s
    d["main"] = d["types"][0] if d["types"] else None
    return d


def usage(kind, u, s, main):
    """Text in the including cdef (+ C definitions it needs in API mode)."""
    t = kind + s
    if u == "nameonly":
        return "", ""
    if kind == "const":
        if u == "field":
            return "struct use_s_%s { char f[K_CONST%s]; int z; };\n" % (t, s), ""
        return "typedef char use_t_%s[K_CONST%s];\n" % (t, s), ""
    if u == "field":
        return "struct use_s_%s { %s f; int z; };\n" % (t, main), ""
    if u == "ptrarg":
        return "void use_f_%s(%s *);\n" % (t, main), "void use_f_%s(%s *p) { (void)p; }\n" % (t, main)
    return "typedef %s use_t_%s;\n" % (main, t), ""


def c_usage_types(kind, u, s, main):
    """C type definitions for the usage (needed by the using module and every module that includes it)."""
    t = kind + s
    if u == "field":
        if kind == "const":
            return "struct use_s_%s { char f[42]; int z; };\n" % t
        return "struct use_s_%s { %s f; int z; };\n" % (t, main)
    if u == "tdtarget":
        if kind == "const":
            return "typedef char use_t_%s[42];\n" % t
        return "typedef %s use_t_%s;\n" % (main, t)
    return ""


LAYOUT_SRC = {
    "tstruct": ("struct ts_s { int a; char b; }", ["a", "b"]),
    "tstruct_api": ("struct ts_s { char pad[12]; int a; char b; }", ["a", "b"]),
    "struct": ("struct st_s { short a; int b:3; long c; }", ["a", "c"]),
    "union": ("union un_u { int a; char b[6]; }", ["a", "b"]),
    "anon": ("struct an_s { long a; char b; }", ["a", "b"]),
}
_LAYOUT = None


def gcc_layouts():
    src = ["#include <stdio.h>\n#include <stddef.h>\n"]
    body = []
    for i, (k, (text, flds)) in enumerate(sorted(LAYOUT_SRC.items())):
        tn = text.split("{")[0].strip()
        src.append(text.replace(tn, tn + "_%d" % i, 1) + ";\n")
        T = tn + "_%d" % i
        body.append('printf("%s %%zu %%zu", sizeof(%s), _Alignof(%s));' % (k, T, T))
        for f in flds:
            body.append('printf(" %s=%%zu", offsetof(%s, %s));' % (f, T, f))
        body.append('printf("\\n");')
    src.append("int main(void){\n" + "\n".join(body) + "\nreturn 0;}\n")
    out = cref.run_c("".join(src))
    res = {}
    for line in out.splitlines():
        p = line.split()
        res[p[0]] = (int(p[1]), int(p[2]), {kv.split("=")[0]: int(kv.split("=")[1]) for kv in p[3:]})
    return res


# ---------------------------------------------------------------------------------------
# building chains

_n = itertools.count()


def _uniq():
    return "%d_%d" % (os.getpid(), next(_n))


def _scratch_on_path():
    d = build.scratch()
    if d not in sys.path:
        sys.path.insert(0, d)
    return d


def chain_texts(du, topo, s, api):
    """Per-FFI cdef text and C source for the chain.  du: tuple of (kind, usage)."""
    decls = [(k, u, decl(k, s, api)) for k, u in du]
    use_pos = {"L2": 2, "L3_use_mid": 2, "L3_use_last": 3, "L3_diamond": 3, "L3_two_bases": 3}[topo]
    n = 2 if topo == "L2" else 3
    cdefs = {i: "" for i in range(1, n + 1)}
    csrc = {i: "" for i in range(1, n + 1)}
    ctypes_all = "".join(d["ctypes"] for _, _, d in decls)
    cdefs[1] = "".join(d["cdef"] for _, _, d in decls)
    csrc[1] = ctypes_all + "".join(d["cdefs"] for _, _, d in decls)
    utypes = ""
    for k, u, d in decls:
        ut, uc = usage(k, u, s, d["main"])
        cdefs[use_pos] += ut
        csrc[use_pos] += uc
        utypes += c_usage_types(k, u, s, d["main"])
    for i in range(2, n + 1):
        pre = ctypes_all + (utypes if i >= use_pos else "")
        csrc[i] = pre + csrc[i]
        # every FFI also declares something of its own, so that its tables are not empty
        cdefs[i] += "typedef short own_t%s_%d;\n" % (s, i)
        csrc[i] = "typedef short own_t%s_%d;\n" % (s, i) + csrc[i]
    if topo == "L3_two_bases":
        # ffi2 is an unrelated FFI; ffi3 includes it FIRST and the declaring FFI second
        includes = {2: [], 3: [2, 1]}
    else:
        includes = {2: [1], 3: [2, 1] if topo == "L3_diamond" else [2]}
    return n, cdefs, csrc, includes, use_pos, decls


def observers(topo, n):
    """The FFIs through which the declarations of ffi1 must be visible."""
    return [3] if topo == "L3_two_bases" else list(range(2, n + 1))


def build_inline(du, topo, hist):
    import cffi
    n, cdefs, _, includes, use_pos, decls = chain_texts(du, topo, "", False)
    f = {1: cffi.FFI()}
    f[1].cdef(cdefs[1])
    if hist == "reused":
        # an earlier including FFI used the same included FFI, realized everything, and is gone
        g = cffi.FFI()
        g.include(f[1])
        g.cdef(cdefs[use_pos] if use_pos == 2 else cdefs[2])
        ct = None
        for _, _, d in decls:
            for t in d["types"]:
                ct = g.typeof(t)
                if ct.kind in ("struct", "union"):
                    ct.fields
                    g.sizeof(ct)
        del g, ct
        gc.collect()
    for i in range(2, n + 1):
        f[i] = cffi.FFI()
        for j in includes[i]:
            f[i].include(f[j])
        f[i].cdef(cdefs[i])
    libs = {i: f[i].dlopen(None) for i in f}
    return f, libs, decls, use_pos, None


def build_abi(du, topo):
    import cffi
    import importlib
    n, cdefs, _, includes, use_pos, decls = chain_texts(du, topo, "", False)
    d = _scratch_on_path()
    u = _uniq()
    gen = {}
    names = {}
    for i in range(1, n + 1):
        g = cffi.FFI()
        for j in includes.get(i, []):
            g.include(gen[j])
        g.cdef(cdefs[i])
        names[i] = "c34p_%s_%d" % (u, i)
        g.set_source(names[i], None)
        gen[i] = g
        with contextlib.redirect_stdout(io.StringIO()):
            g.emit_python_code(os.path.join(d, names[i] + ".py"))
    importlib.invalidate_caches()
    mods = {}
    for i in range(n, 0, -1):               # importing the last one imports the others
        mods[i] = importlib.import_module(names[i])
    f = {i: mods[i].ffi for i in mods}
    libs = {i: f[i].dlopen(None) for i in f}

    def cleanup():
        for i in names:
            sys.modules.pop(names[i], None)
            try:
                os.unlink(os.path.join(d, names[i] + ".py"))
            except OSError:
                pass
    return f, libs, decls, use_pos, cleanup


def build_api(cases, topo):
    """One chain of compiled modules holding many cases (names mangled by '_<case id>')."""
    import cffi
    import importlib
    d = _scratch_on_path()
    u = _uniq()
    n = 2 if topo == "L2" else 3
    cd = {i: [] for i in range(1, n + 1)}
    cs = {i: [] for i in range(1, n + 1)}
    info = {}
    includes = None
    for cid, du in cases:
        s = "_%d" % cid
        n_, cdefs, csrc, includes, use_pos, decls = chain_texts(du, topo, s, True)
        for i in range(1, n + 1):
            cd[i].append(cdefs[i])
            cs[i].append(csrc[i])
        info[cid] = (decls, use_pos)
    gen = {}
    names = {}
    for i in range(1, n + 1):
        g = cffi.FFI()
        for j in includes.get(i, []):
            g.include(gen[j])
        g.cdef("".join(cd[i]))
        names[i] = "c34c_%s_%d" % (u, i)
        g.set_source(names[i], "".join(cs[i]))
        gen[i] = g
        cfile = os.path.join(d, names[i] + ".c")
        with contextlib.redirect_stdout(io.StringIO()):
            g.emit_c_code(cfile)
        so = os.path.join(d, names[i] + build.EXT_SUFFIX)
        p = subprocess.run(["gcc", "-O0", "-w", "-shared", "-fPIC", "-I" + build.INCLUDEPY, cfile, "-o", so],
                           stdout=subprocess.PIPE, stderr=subprocess.STDOUT, text=True)
        if p.returncode != 0:
            raise InfraError("gcc failed on generated module %s:\n%s" % (cfile, p.stdout[-2500:]))
    importlib.invalidate_caches()
    mods = {}
    for i in range(n, 0, -1):
        mods[i] = importlib.import_module(names[i])
    f = {i: mods[i].ffi for i in mods}
    libs = {i: mods[i].lib for i in mods}
    return f, libs, info


# ---------------------------------------------------------------------------------------
# the oracle

def _err(e):
    return "%s: %s" % (type(e).__name__, str(e).split("\n")[0][:140])


def check_case(mode, f, libs, decls, use_pos, order, s="", topo="L2"):
    """Returns (nchecks, [(what, kind, text)])."""
    bad = []
    nchecks = 0
    n = len(f)
    obs = observers(topo, n)
    qorder = [1] + obs if order == "base_first" else obs[::-1] + [1]
    api = mode == "api"
    for kind, u, d in decls:
        # ---- identity of every type through every FFI of the chain ------------------------
        for t in d["types"]:
            for probe in (t, t + " *"):
                got = {}
                for i in qorder:
                    try:
                        got[i] = f[i].typeof(probe)
                    except Exception as e:
                        got[i] = e
                if isinstance(got[1], Exception):
                    raise InfraError("the declaring FFI itself cannot build %r: %s" % (probe, _err(got[1])))
                for i in obs:
                    nchecks += 1
                    if isinstance(got[i], Exception):
                        bad.append(("not_visible", kind, "ffi%d.typeof(%r): %s" % (i, probe, _err(got[i]))))
                    elif got[i] is not got[1]:
                        bad.append(("identity", kind, "ffi%d.typeof(%r) is not ffi1.typeof(%r) [%s / %s]" % (
                            i, probe, probe, got[i].cname, got[1].cname)))
        # ---- layouts are those of the included module -----------------------------------------
        if d["layout"]:
            size, align, offs = _LAYOUT[d["layout"]]
            t = d["main"]
            for i in qorder:
                nchecks += 1
                try:
                    ct = f[i].typeof(t)
                    flds = dict(ct.fields)
                    got = (f[i].sizeof(t), f[i].alignof(t), {k: flds[k].offset for k in offs})
                except Exception as e:
                    bad.append(("layout", kind, "ffi%d: layout of %r unavailable: %s" % (i, t, _err(e))))
                    continue
                if got != (size, align, offs):
                    bad.append(("layout", kind, "ffi%d: %r has (size, align, offsets) %r, C says %r" % (
                        i, t, got, (size, align, offs))))
        # ---- the usage in the including cdef refers to the shared object ------------------------
        tag = kind + s
        if u != "nameonly":
            for i in range(use_pos, n + 1):
                nchecks += 1
                try:
                    if kind == "const":
                        if u == "field":
                            ln = f[i].typeof("struct use_s_" + tag).fields[0][1].type.length
                        else:
                            ln = f[i].typeof("use_t_" + tag).length
                        if ln != 42:
                            bad.append(("constant", kind, "ffi%d: array length from included constant is %r" % (i, ln)))
                        continue
                    ref = f[1].typeof(d["main"])
                    if u == "field":
                        ut = f[i].typeof("struct use_s_" + tag)
                        x = ut.fields[0][1].type
                        if ut is not f[use_pos].typeof("struct use_s_" + tag):
                            bad.append(("identity", "usage_struct", "ffi%d: struct use_s is not ffi%d's" % (i, use_pos)))
                    elif u == "tdtarget":
                        x = f[i].typeof("use_t_" + tag)
                    else:
                        if api and i == use_pos:
                            x = f[i].typeof(getattr(libs[i], "use_f_" + tag)).args[0].item
                        else:
                            x = f[i].typeof("void(*)(%s *)" % d["main"]).args[0].item
                    if x is not ref:
                        bad.append(("identity", kind, "ffi%d: the type used as %s is not ffi1's %r [%s]" % (
                            i, u, d["main"], x.cname)))
                except InfraError:
                    raise
                except Exception as e:
                    bad.append(("not_visible", kind, "ffi%d: usage %s of %r: %s" % (i, u, d["main"], _err(e))))
        # ---- integer constants and enumerators -----------------------------------------------------
        for cname, cval in sorted(d["consts"].items()):
            for i in qorder:
                vals = []
                try:
                    if mode != "inline":
                        vals.append(("integer_const", f[i].integer_const(cname)))
                    vals.append(("lib", getattr(libs[i], cname)))
                except Exception as e:
                    nchecks += 1
                    bad.append(("constant", kind, "ffi%d: constant %s not visible: %s" % (i, cname, _err(e))))
                    continue
                for how, v in vals:
                    nchecks += 1
                    if v != cval or type(v) is not int:
                        bad.append(("constant", kind, "ffi%d: %s via %s is %r, declared %r" % (i, cname, how, v, cval)))
        # ---- API: functions and globals of the included module through every including lib ------------
        if api and kind == "func":
            name = "fn_f" + s
            addr = {}
            for i in qorder:             # the realization order decides which lib caches the attribute first
                if i != 1:
                    nchecks += 1
                try:
                    r = getattr(libs[i], name)(5)
                    addr[i] = int(f[i].cast("intptr_t", f[i].addressof(libs[i], name)))
                    if r != 1005:
                        bad.append(("reach", kind, "lib%d.%s(5) returned %r" % (i, name, r)))
                except Exception as e:
                    if i == 1:
                        raise InfraError("the declaring lib cannot call %s: %s" % (name, _err(e)))
                    bad.append(("reach", kind, "lib%d.%s: %s" % (i, name, _err(e))))
            for i in addr:
                if addr[i] != addr.get(1):
                    bad.append(("reach", kind, "addressof(lib%d, %s) differs from lib1's" % (i, name)))
        if api and kind == "glob":
            name = "gl_g" + s
            addr = {}
            for i in qorder:
                if i != 1:
                    nchecks += 1
                try:
                    v = getattr(libs[i], name)
                    addr[i] = int(f[i].cast("intptr_t", f[i].addressof(libs[i], name)))
                    if v != 77:
                        bad.append(("reach", kind, "lib%d.%s is %r" % (i, name, v)))
                except Exception as e:
                    if i == 1:
                        raise InfraError("the declaring lib cannot read %s: %s" % (name, _err(e)))
                    bad.append(("reach", kind, "lib%d.%s: %s" % (i, name, _err(e))))
            for i in sorted(addr):
                if addr[i] != addr.get(1):
                    bad.append(("reach", kind, "addressof(lib%d, %s) differs from lib1's" % (i, name)))
                elif i != 1:
                    setattr(libs[i], name, 1000 + i)
                    back = getattr(libs[1], name)
                    setattr(libs[1], name, 77)
                    if back != 1000 + i or getattr(libs[i], name) != 77:
                        bad.append(("reach", kind, "a store through lib%d.%s is not the store lib1 sees" % (i, name)))
    return nchecks, bad


# ---------------------------------------------------------------------------------------
# workers

def run_cheap(case):
    mode, du, topo, order, hist = case
    import warnings
    warnings.simplefilter("ignore")
    cleanup = None
    try:
        if mode == "inline":
            f, libs, decls, use_pos, cleanup = build_inline(du, topo, hist)
        else:
            f, libs, decls, use_pos, cleanup = build_abi(du, topo)
    except InfraError:
        raise
    except Exception as e:
        # every chain of the space is a valid use of include() that the unchanged tree builds; if the including FFI
        # or module cannot be built, the included declarations are not visible through it
        import traceback
        return 0, [("chain_build_failed", "chain", "%s | %s" % (_err(e), traceback.format_exc()[-700:]))]
    try:
        return check_case(mode, f, libs, decls, use_pos, order, "", topo)
    finally:
        if cleanup:
            cleanup()


def work_cheap(block):
    out = []
    for case in block:
        n, bad = run_cheap(case)
        out.append((case, n, bad))
    return out


def work_api(item):
    topo, cases = item              # cases: [(cid, du, order)]
    import warnings
    warnings.simplefilter("ignore")
    try:
        f, libs, info = build_api([(cid, du) for cid, du, _ in cases], topo)
    except Exception as e:
        # generator exception, gcc rejecting the generated C, or import failure: the batch of valid chains cannot be built
        import traceback
        cid, du, order = cases[0]
        return [(("api", du, topo, order, "fresh"), 0,
                 [("chain_build_failed", "batch", "%d cases | %s | %s" % (len(cases), _err(e),
                                                                           traceback.format_exc()[-700:]))])]
    out = []
    for cid, du, order in cases:
        decls, use_pos = info[cid]
        n, bad = check_case("api", f, libs, decls, use_pos, order, "_%d" % cid, topo)
        out.append((("api", du, topo, order, "fresh"), n, bad))
    return out


# ---------------------------------------------------------------------------------------

def du_space(kmax):
    """All (kind, usage) assignments for all subsets of <= kmax kinds."""
    for k in range(1, kmax + 1):
        for D in itertools.combinations(KINDS, k):
            for us in itertools.product(USAGES, repeat=k):
                if all(applicable(kd, u) for kd, u in zip(D, us)):
                    yield tuple(zip(D, us))


def sig_of(case, what, kind):
    mode, du, topo, order, hist = case
    return {"mode": mode, "what": what, "kind": kind, "history": hist}


def run(ctx):
    global _LAYOUT
    _LAYOUT = gcc_layouts()
    # numbered anonymous structs ('$1', ...) declared by several FFIs of an include chain
    from . import _c34_anon as AN
    for k, case in enumerate(AN.cases()):
        ctx.count("anon_numbered_cases")
        for what, owner, user, info in AN.run_case(case, "r%d" % k):
            ctx.violation({"kind": "anon_numbered", "what": what, "mode": "abi" if case[2] == "ool" else "inline"},
                          {"anon_numbered": True, "case": [list(case[0]), list(case[1]), case[2]],
                           "owner": owner, "seen_through": user, "info": info})
    kmax = 2 if ctx.quick else 3
    dus = list(du_space(kmax))
    n_na = sum(1 for k in KINDS for u in USAGES if not applicable(k, u))
    ctx.count("kind_x_usage.not_applicable", n_na)
    cheap = []
    for du in dus:
        for topo in TOPOS:
            for order in ORDERS:
                cheap.append(("abi", du, topo, order, "fresh"))
                for hist in ("fresh", "reused"):
                    if hist == "reused" and ctx.quick and len(du) > 1:
                        continue             # quick tier: the already-used included FFI only with single kinds
                    cheap.append(("inline", du, topo, order, hist))
    # API (compilation is the expensive part): quick = every single kind on every chain shape + every pair of kinds on
    # the longest chain; thorough = singles and pairs on every shape + triples on the diamond
    api_cases = {topo: [] for topo in TOPOS}
    cid = 0
    for du in dus:
        for topo in TOPOS:
            if ctx.quick:
                if len(du) == 2 and topo != "L3_use_last":
                    continue
            elif len(du) == 3 and topo != "L3_diamond":
                continue
            for order in ORDERS:
                api_cases[topo].append((cid, du, order))
                cid += 1
    api_items = []
    per = 90 if ctx.quick else 300
    for topo in TOPOS:
        for chunk in pool.chunks(api_cases[topo], per):
            api_items.append([(topo, chunk)])
    ctx.log("%d (kinds x usages) assignments; %d in-line/ABI chains; %d API cases in %d module chains" % (
        len(dus), len(cheap), cid, len(api_items)))

    evaluated = checks = 0
    nontrivial = set()

    def absorb(case, n, bad):
        nonlocal evaluated, checks
        evaluated += 1
        checks += n
        mode, du, topo, order, hist = case
        ctx.count("mode." + mode)
        ctx.count("topology." + topo)
        ctx.count("order." + order)
        if mode == "inline":
            ctx.count("inline_history." + hist)
        for k, u in du:
            ctx.count("kind.%s.%s" % (k, u))
        if len(du) > 1 or topo != "L2" or du[0][1] != "nameonly":
            nontrivial.add(case)
        ctx.sample({"mode": mode, "declared_and_used": [list(x) for x in du], "topology": topo, "first_realized_by": order,
                    "history": hist, "cdef_of_included": chain_texts(du, topo, "", mode == "api")[1][1]})
        seen = set()
        for what, kind, text in bad:
            key = (what, kind)
            if key in seen:
                continue                     # one report per (what, kind) per case
            seen.add(key)
            ctx.violation(sig_of(case, what, kind),
                          {"case": [mode, [list(x) for x in du], topo, order, hist],
                           "messages": [t for w, k, t in bad if (w, k) == key][:6]})

    # the API batches take longest: start them first
    items = api_items + [[b] for b in pool.chunks(cheap, 40)]
    for item, r in pool.pmap(_dispatch, items):
        if isinstance(r, pool.WorkerError):
            raise InfraError("worker failed: %s" % r.tb)
        if isinstance(r, pool.Crash):
            ctx.violation({"what": "crash"}, {"item": repr(item)[:2000], "how": r.describe()})
            continue
        for case, n, bad in r:
            absorb(case, n, bad)
    cov = {
        "evaluations": evaluated,
        "distinct_nontrivial": len(nontrivial),
        "checks": checks,
        "rule": "every subset of <= %d of the 9 declaration kinds x every applicable usage assignment (%d assignments) x 5 "
                "chain shapes (A<-B; A<-B<-C used in B; A<-B<-C used in C; C includes B and A where B includes A; C "
                "includes an unrelated B first and then A) x 2 realization orders, "
                "run in-line with a fresh and with an already-used included FFI%s, and as out-of-line ABI modules; API: %s, "
                "batched by name mangling into %d chains of compiled modules.  "
                "non-trivial = more than one kind, or a chain of 3, or a usage other than by-name (distinct cases)" % (
                    kmax, len(dus), " (the latter for single kinds only)" if ctx.quick else "",
                    "single kinds on all shapes and pairs on A<-B<-C used in C" if ctx.quick else
                    "singles and pairs on all shapes, triples on the diamond", len(api_items)),
        "exhaustive": True,
        "bound": {"max_kinds_per_included_ffi": kmax, "max_chain": 3, "api_cases": cid},
    }
    return ctx.finish(cov, ["gcc (cref) computes the expected layouts; dlopen(None) is used to reach integer constants "
                            "through a lib object in the in-line and ABI modes",
                            "API modules: emit_c_code() output compiled with gcc -O0"])


def _dispatch(x):
    if isinstance(x, tuple) and len(x) == 2 and x[0] in TOPOS:
        return work_api(x)
    return work_cheap(x)


def replay(detail):
    if detail.get("anon_numbered"):
        from . import _c34_anon as AN
        c = detail["case"]
        bad = AN.run_case((tuple(c[0]), tuple(c[1]), c[2]), "replay")
        for b in bad:
            print("MISMATCH", b)
        return 1 if bad else 0
    global _LAYOUT
    _LAYOUT = gcc_layouts()
    mode, du, topo, order, hist = detail["case"]
    du = tuple((k, u) for k, u in du)
    n, cdefs, csrc, includes, use_pos, decls = chain_texts(du, topo, "", mode == "api")
    for i in sorted(cdefs):
        print("--- ffi%d includes %s" % (i, includes.get(i, [])))
        print(cdefs[i])
    print("mode=%s first realized by=%s history=%s" % (mode, order, hist))
    if mode == "api":
        out = work_api((topo, [(0, du, order)]))
        nchk, bad = out[0][1], out[0][2]
    else:
        nchk, bad = run_cheap((mode, du, topo, order, hist))
    for what, kind, text in bad:
        print("MISMATCH", what, kind, text)
    if not bad:
        print("all %d checks hold" % nchk)
    return 1 if bad else 0
