"""C02 -- bitfield reads/writes are range-exact, round-trip, isolated, and agree
with what compiled C reads/writes.

E1: every (integer type, bit offset, width) placement x boundary-complete value
set x two background fillings.  Oracle: range rule from the statement; byte
images and values from gcc-compiled accessors reached through ctypes.
"""
import ctypes

from .. import cref, pool
from . import _c02_anon, _c02_packed
from ..build import InfraError

ID = "C02"
LEVEL = "exploration"
META = dict(
    engine="E1-enum", level="exploration",
    technique="exhaustive enumeration of every (type, bit offset, width) placement x boundary value set, compared "
              "with gcc-compiled accessors",
    text="All 9.7k placements of a bitfield inside its storage unit for the 10 integer types (+ _Bool, + bitfields "
         "after plain bytes) x ~70 boundary values x 2 backgrounds: acceptance iff in range, read-back, byte image "
         "equal to the image the compiled C setter produces, and cross-reads in both directions.",
    note="gcc 12 on this machine is the authority; ctypes is the trusted channel to it")

TYPES = [("signed char", 8, True), ("unsigned char", 8, False), ("short", 16, True),
         ("unsigned short", 16, False), ("int", 32, True), ("unsigned int", 32, False),
         ("long", 64, True), ("unsigned long", 64, False), ("long long", 64, True),
         ("unsigned long long", 64, False)]


def placements(ctx):
    """Family A: struct { T pad:k; T f:w; T rest:r; } for every k + w <= bits(T).
    Family B: struct { char c[j]; T f:w; T g:3; } (bitfield after non-bitfield bytes).
    Family C: _Bool f:1 at every bit of a byte."""
    out = []
    for t, bits, sg in TYPES:
        for k in range(bits):
            for w in range(1, bits - k + 1):
                r = bits - k - w
                body = ""
                if k:
                    body += "%s pad:%d; " % (t, k)
                body += "%s f:%d; " % (t, w)
                if r:
                    body += "%s rest:%d; " % (t, r)
                out.append((t, bits, sg, w, body, "A"))
    for t, bits, sg in TYPES:
        nbytes = bits // 8
        for j in range(1, nbytes):
            free = bits - 8 * j
            for w in sorted({1, 7, 8, free - 1, free, free + 1, bits}):
                if 1 <= w <= bits:
                    out.append((t, bits, sg, w, "char c[%d]; %s f:%d; %s g:3; " % (j, t, w, t), "B"))
    # Family D: the field is a member of a UNION after another bitfield member (every member starts at bit 0)
    for t, bits, sg in TYPES:
        for k in (1, 3, 5, 9, 13, 31, 33):
            for w in sorted({1, 5, 7, 8, bits - 1, bits}):
                if k < bits and 1 <= w <= bits:
                    out.append((t, bits, sg, w, "%s pad:%d; %s f:%d; unsigned char raw; " % (t, k, t, w), "D"))
    for k in range(8):
        body = ("unsigned char pad:%d; " % k if k else "") + "_Bool f:1; "
        if k < 7:
            body += "unsigned char rest:%d; " % (7 - k)
        out.append(("_Bool", 1, False, 1, body, "C"))
    return out


def c_source(block):
    src = ["#include <string.h>\n"]
    for i, (t, bits, sg, w, body, fam) in enumerate(block):
        vt = "long long" if sg else "unsigned long long"
        su = "union" if fam == "D" else "struct"
        src.append("%s s%d { %s};\n" % (su, i, body))
        src.append("void set_%d(%s s%d *p, %s v) { p->f = v; }\n" % (i, su, i, vt))
        src.append("%s get_%d(%s s%d *p) { return p->f; }\n" % (vt, i, su, i))
        src.append("int size_%d(void) { return sizeof(%s s%d); }\n" % (i, su, i))
    return "".join(src)


def work(block):
    import cffi
    lib = cref.load_c(c_source(block))
    ffi = cffi.FFI()
    ffi.cdef("".join("%s s%d { %s};\n" % ("union" if b[5] == "D" else "struct", i, b[4]) for i, b in enumerate(block)))
    bad = []
    ncases = 0
    naccept = 0
    for i, (t, bits, sg, w, body, fam) in enumerate(block):
        if sg:
            lo, hi = -(1 << (w - 1)), (1 << (w - 1)) - 1
        else:
            lo, hi = 0, (1 << w) - 1
        vals = cref.boundary_values(lo, hi)
        cset = getattr(lib, "set_%d" % i)
        cget = getattr(lib, "get_%d" % i)
        cty = ctypes.c_longlong if sg else ctypes.c_ulonglong
        cset.argtypes = [ctypes.c_void_p, cty]
        cset.restype = None
        cget.argtypes = [ctypes.c_void_p]
        cget.restype = cty
        size = getattr(lib, "size_%d" % i)()
        T = "%s s%d" % ("union" if fam == "D" else "struct", i)
        try:
            if ffi.sizeof(T) != size:
                bad.append((block[i], "sizeof", {"cffi": ffi.sizeof(T), "gcc": size}))
                continue
        except Exception as e:
            bad.append((block[i], "rejected", {"error": "%s: %s" % (type(e).__name__, e)}))
            continue
        p = ffi.new(T + " *")
        buf = ffi.buffer(p)
        cbuf = ctypes.create_string_buffer(size)
        caddr = ctypes.addressof(cbuf)
        for bgbyte in (0x00, 0xFF):
            bg = bytes([bgbyte]) * size
            for v in vals:
                ncases += 1
                buf[:] = bg
                expect_ok = lo <= v <= hi or (sg and w == 1 and v == 1)
                try:
                    p.f = v
                    ok, exc = True, None
                except OverflowError:
                    ok, exc = False, None
                except Exception as e:
                    ok, exc = False, e
                if exc is not None:
                    bad.append((block[i], "wrong-exception",
                                {"v": v, "bg": bgbyte, "error": "%s: %s" % (type(exc).__name__, exc)}))
                    continue
                if ok != expect_ok:
                    bad.append((block[i], "accepts-out-of-range" if ok else "rejects-in-range",
                                {"v": v, "bg": bgbyte, "range": [lo, hi]}))
                    continue
                img = bytes(buf)
                if not ok:
                    if img != bg:
                        bad.append((block[i], "rejected-but-modified", {"v": v, "bg": bgbyte, "img": img.hex()}))
                    continue
                naccept += 1
                want = -1 if (sg and w == 1 and v == 1) else v
                got = p.f
                if got != want or type(got) is not int:
                    bad.append((block[i], "readback", {"v": v, "bg": bgbyte, "got": got}))
                # the image C produces for the same store on the same background
                ctypes.memmove(caddr, bg, size)
                cset(caddr, v & 0xFFFFFFFFFFFFFFFF if not sg else v)
                cimg = cbuf.raw
                if img != cimg:
                    bad.append((block[i], "image", {"v": v, "bg": bgbyte, "cffi": img.hex(), "gcc": cimg.hex()}))
                # C reads cffi's image; cffi reads C's image
                ctypes.memmove(caddr, img, size)
                cval = cget(caddr)
                if cval != want:
                    bad.append((block[i], "c-reads-other", {"v": v, "bg": bgbyte, "c": cval}))
                buf[:] = cimg
                if p.f != want:
                    bad.append((block[i], "cffi-reads-other", {"v": v, "bg": bgbyte, "cffi": p.f}))
    return len(block), ncases, naccept, bad


def run(ctx):
    pl = placements(ctx)
    for x in pl:
        ctx.count("family_" + x[5])
        ctx.count("full_width" if x[3] == x[1] else "partial_width")
        ctx.sample({"struct": x[4], "type": x[0], "width": x[3]})
    # interleave so that every block has a mix of cheap and expensive placements
    nblk = 64
    blocks = [pl[i::nblk] for i in range(nblk)]
    tot = cases = accepted = 0
    for block, r in pool.pmap(work, [[b] for b in blocks]):
        if isinstance(r, pool.WorkerError):
            raise InfraError(r.tb)
        if isinstance(r, pool.Crash):
            ctx.violation({"kind": "crash"}, {"block": block, "how": r.describe()})
            continue
        n, nc, na, bad = r
        tot += n
        cases += nc
        accepted += na
        for plc, kind, info in bad:
            ctx.violation({"kind": kind, "width": plc[3] if plc[3] == 64 else "<64", "signed": plc[2]},
                          {"placement": plc, "kind": kind, "info": info})
    # family E: bitfields inside anonymous nested structs/unions, in-line and API mode
    for mode, r in pool.pmap(_c02_anon.work, [["inline"], ["api"]]):
        if isinstance(r, pool.WorkerError):
            raise InfraError(r.tb)
        if isinstance(r, pool.Crash):
            ctx.violation({"kind": "crash", "family": "E", "mode": mode}, {"anon_mode": mode, "how": r.describe()})
            continue
        n, nc, bad = r
        ctx.count("family_E_%s_shapes" % mode, n)
        tot += n
        cases += nc
        accepted += nc
        for it, kind, info in bad:
            ctx.violation({"family": "E", "mode": mode, "shape": it[0], "kind": kind},
                          {"anon_mode": mode, "item": list(it), "kind": kind, "info": info})
    # family P: bitfields in packed structs (placement, images, and the bytes an access touches)
    for _arg, r in pool.pmap(_c02_packed.work, [["all"]]):
        if isinstance(r, pool.WorkerError):
            raise InfraError(r.tb)
        if isinstance(r, pool.Crash):
            ctx.violation({"kind": "crash", "family": "P"}, {"packed": True, "how": r.describe()})
            continue
        n, nc, nref, bad = r
        ctx.count("family_P_shapes", n)
        ctx.count("family_P_refused_by_cdef", nref)
        tot += n
        cases += nc
        accepted += nc
        for it, kind, info in bad:
            ctx.violation({"family": "P", "kind": kind, "pack": str(it[0])},
                          {"packed": True, "item": list(it), "kind": kind, "info": info})
    cov = {
        "evaluations": cases,
        "distinct_nontrivial": accepted,
        "placements": tot,
        "rule": "every (type, bit offset k, width w) with k+w <= bits(type) for the 10 standard integer types (family A), "
                "bitfields following 1..sizeof-1 plain bytes (family B), _Bool:1 at every bit (family C), members of a union "
                "after another bitfield (family D), members of anonymous nested structs/unions in 6 nesting shapes x "
                "5 types x widths, in in-line AND API mode (family E), 5 shapes x 5 types x widths in packed structs (packed=True, "
                "pack=2) including the bytes an access touches, decided from the field table and with a guard page (family P); "
                "x B(range) "
                "values (boundaries, neighbours, powers of two up to 2^128, +-10^30) x backgrounds {00,FF}; "
                "non-trivial = the store was accepted and therefore read-back, image and cross-reads were compared "
                "(distinct (placement,value,background) triples)",
        "exhaustive": True,
    }
    return ctx.finish(cov, ["gcc-compiled accessors called through ctypes are the authority for bit positions and values"])


def replay(detail):
    if detail.get("packed"):
        n, nc, nref, bad = _c02_packed.work("all")
        want = detail.get("item")
        bad = [b for b in bad if want is None or list(b[0]) == list(want)]
        for b in bad[:20]:
            print("MISMATCH pack=%s struct { %s }" % (b[0][0], b[0][6]), b[1], b[2])
        return 1 if bad else 0
    if "anon_mode" in detail:
        n, nc, bad = _c02_anon.work(detail["anon_mode"])
        want = detail.get("item")
        bad = [b for b in bad if want is None or list(b[0]) == list(want)]
        for b in bad[:20]:
            print("MISMATCH", b[0][1], "{", b[0][7], "}", b[1], b[2])
        return 1 if bad else 0
    plc = tuple(detail["placement"])
    n, nc, na, bad = work([plc])
    print("struct { %s}" % plc[4])
    for b in bad:
        print("MISMATCH", b[1], b[2])
    return 1 if bad else 0
