"""C36 -- callbacks from threads not created by Python (engine E2).

A helper library owns up to 3 pthreads parked on semaphores.  The Python main
thread issues one command at a time (spawn / call the cffi callback from that
thread / exit+join / the same callback from the Python thread / gc.collect())
and all histories up to a depth are explored against a small thread-state
model: identity and threading.local data persist across calls of one thread, a
new thread never sees an old thread's data, exited threads leave no thread
state behind once a later callback has run, and the process survives.

Families (each an exhaustive search of its own, selected by the `cfg` of Sys):

  base    the original alphabet: spawn / call / ncall / exit / pycall / collect
  extern  the callback is entered through the C stub of an extern "Python" function
          (cffi_call_python, the second user of gil_ensure) or through the libffi
          closure of ffi.callback, alternating on the same thread
  gstate  the C caller wraps the callback in its own PyGILState_Ensure/Release
          (gil_ensure finds a CPython-made, current thread state)
  park    a call is split into enter/leave: the thread sits *inside* the callback
          (GIL released in a C function) while other threads make first calls
          (zombie reclamation), exit, or the Python thread calls / collects
  all     the union of the alphabets (thorough tier only)
  perm    5 threads with a thread state each exit in each of the 5! orders (thorough tier only)
  ending  (not E2; _c36_end.py) a fresh interpreter is driven into every model
          state and then *ends* there -- normal finalisation, or fork() with the
          child continuing -- without the cleaning close()
"""
import ctypes
import gc as _gc
import importlib.util
import json
import os
import sys
import threading

# NOTE: the framework modules (build, cref, hist) are imported inside the functions of the driver only: the
# interpreters of the `ending` family import this module too and should stay small (they are forked and
# finalised many times).


def InfraError(msg):
    from ..build import InfraError as E
    return E(msg)

ID = "C36"
LEVEL = "model_checking"
META = dict(
    engine="E2-hist", level="model_checking",
    technique="explicit-state breadth-first search over spawn/call/exit/collect histories of up to 3 real non-Python "
              "threads invoking a cffi callback (ffi.callback closure or extern \"Python\", bare or inside the caller's "
              "PyGILState, run to completion or parked inside), against a thread-state model (identity, thread-local "
              "data, number of PyThreadStates), with crash containment; plus interpreters ended (finalisation, fork) in each small model state",
    text="Family base: all histories up to depth 6 (quick, unmerged to 5; thorough 8 / 6) of spawn / call / nested call / "
         "exit / call from the Python thread / gc.collect() on 3 threads.  After every operation the number of "
         "PyThreadStates of the interpreter (read through ctypes.pythonapi) must equal 1 + the foreign threads that are "
         "alive and have made a call (+ at most the threads that exited since a thread last made its first call, which is "
         "when exited threads are reclaimed), get_ident() and a threading.local value must persist between the calls of "
         "one thread, and a freshly spawned thread must not see data of an exited one.  The same count is also taken "
         "inside every callback.  Further exhaustive families under the same model (quick: 2 threads, unmerged, depth 5 / "
         "5 / 6; thorough: 3 threads, depth 6 / 6 / 7, plus the union alphabet `all` to depth 5 and `perm`: 5 threads "
         "with a state each exiting in all 120 orders before one first call reclaims them): `extern` -- the same "
         "thread alternates between an extern \"Python\" function (API mode, cffi_call_python) and an ffi.callback "
         "closure and must find the same thread state in both; `gstate` -- the C caller brings its own "
         "PyGILState_Ensure/Release around the callback (a caller-owned state must go away with the caller's release and "
         "must not become a zombie, a cffi-made one must survive it; thorough also through the extern stub); `park` -- a "
         "thread stays inside the callback (GIL released in a C function) while the others make first calls (which "
         "reclaim exited threads) or exit (thorough: and Python calls / collects), and must find its thread-local data "
         "and identity unchanged when it continues; `ending` -- for one shortest history per model state reachable in 5 "
         "(thorough 6) operations (threads alive without / with state / parked inside a callback, unreclaimed exits) an "
         "interpreter stops there without cleaning up: normal finalisation, or fork() whose child (foreign threads gone) "
         "starts new foreign threads under the same model and then leaves by finalisation (thorough: also by os._exit) "
         "while the parent finishes cleanly; exit status 0, no fatal-error text and no model violation are required of every process.",
    note="each operation (or half of a split call) runs to completion before the next one starts: instruction-level "
         "races between a thread's shutdown hook and the zombie reclamation in another thread are NOT explored (OS "
         "threads are not under a controlled scheduler here)")

NT = 3
HELPER = 7                    # slot of the helper thread (the harness has 8 slots)
NEST = 1000000
_W = {}

CDEF = """
int ft_spawn(int, int(*)(int));
int ft_spawn2(int, int(*)(int), int(*)(int));
int ft_call(int, int);
int ft_callk(int, int, int, int);
int ft_enter(int, int, int, int);
int ft_park(int);
int ft_leave(int);
int ft_exit(int);
int ft_cleanup(void);
void ft_forget(void);
"""

# call-like operations: name -> (kind: 0 closure / 1 extern "Python", wrap: caller-owned PyGILState, nest, park)
CALLS = {
    "call": (0, 0, 0, 0), "ncall": (0, 0, 1, 0),
    "xcall": (1, 0, 0, 0), "gcall": (0, 1, 0, 0), "xgcall": (1, 1, 0, 0),
    "enter": (0, 0, 0, 1), "xenter": (1, 0, 0, 1), "genter": (0, 1, 0, 1),
}
FAMILIES = {
    "base": (["call", "ncall"], True),            # (call-like ops, pycall/collect enabled)
    "extern": (["call", "xcall"], False),
    "gstate": (["call", "gcall"], False),
    "gstatex": (["call", "gcall", "xgcall", "xcall"], False),
    "park": (["call", "enter"], True),
    "parkq": (["call", "enter"], False),         # quick tier: without pycall / collect
    "end": (["call", "enter"], False),           # alphabet of the prefixes of the `ending` family
    "all": (["call", "ncall", "xcall", "gcall", "xgcall", "enter", "xenter", "genter"], True),
    "perm": (["call"], False),                   # scripted: see Sys.enabled
}


def build_paths():
    """Compile the thread harness and the API-mode module holding the extern "Python" function (once, in
    the driver; forked workers inherit the loaded objects, subprocesses get the paths)."""
    import cffi
    from .. import build, cref
    so = cref.compile_so(open(os.path.join(build.HARNESS, "c36_fthreads.c")).read(),
                         flags=["-pthread", "-I" + build.INCLUDEPY], name="c36ft")
    name = "_c36x_%d" % os.getpid()
    xf = cffi.FFI()
    xf.cdef('extern "Python" int c36_ext_cb(int);')
    xf.set_source(name, "")
    try:
        xpath = xf.compile(tmpdir=os.path.join(build.scratch(), "c36x"))
    except Exception as e:
        raise InfraError("cannot build the extern \"Python\" module: %r" % (e,))
    # the same declarations as an out-of-line ABI module: importing it needs no C parser (see setup(light=True))
    aname = "_c36a_%d" % os.getpid()
    af = cffi.FFI()
    af.cdef(CDEF)
    af.set_source(aname, None)
    apath = os.path.join(build.scratch(), "c36x", aname + ".py")
    with open(apath, "w") as f:
        af.emit_python_code(f)           # (a file object: no "generating ..." chatter on stdout)
    return {"so": so, "xname": name, "xpath": xpath, "aname": aname, "apath": apath}


def _load(name, path):
    spec = importlib.util.spec_from_file_location(name, path)
    mod = importlib.util.module_from_spec(spec)
    spec.loader.exec_module(mod)
    return mod


def setup(paths=None, light=False):
    """light=False (driver, workers, replay): the closure comes from ffi.callback of an in-line cffi.FFI(), as in
    the original check.  light=True (interpreters of the `ending` family): the FFI object of an out-of-line ABI
    module with the same cdef, so that pycparser is not loaded; the callback machinery is the same."""
    if paths is None:
        paths = build_paths()
    if light:
        ffi = _load(paths["aname"], paths["apath"]).ffi
    else:
        import cffi
        ffi = cffi.FFI()
        ffi.cdef(CDEF)
    lib = ffi.dlopen(paths["so"])
    xmod = _load(paths["xname"], paths["xpath"])
    tl = threading.local()
    seen = {}
    ctl = {}
    nested = {}

    def body(arg):
        # runs in whichever thread calls it; records what that thread sees
        prev = getattr(tl, "value", None)
        rec = {"ident": threading.get_ident(), "prev": prev, "count": tstate_count(),
               "name_is_dummy": type(threading.current_thread()).__name__}
        park = ctl.pop("park", None)
        if arg >= NEST:
            # re-enter the same cffi callback from Python code that HOLDS the GIL (ctypes.PYFUNCTYPE does
            # not release it): the nested entry finds the thread state already current
            nested["fn"](arg - NEST)
        if park is not None:
            # stay inside the callback: ft_park() is a plain C function of the cdef, so the GIL is
            # released; the driver goes on with other operations and resumes us with ft_leave()
            seen["enter"] = dict(rec)
            lib.ft_park(park)
            rec["after_park"] = getattr(tl, "value", None)
            rec["ident_after_park"] = threading.get_ident()
        tl.value = arg
        seen["last"] = rec
        return arg + 1

    cb = ffi.callback("int(int)")(body)
    xmod.ffi.def_extern(name="c36_ext_cb")(body)
    xcb = ffi.cast("int(*)(int)", xmod.lib.c36_ext_cb)
    if int(ffi.cast("intptr_t", xcb)) == int(ffi.cast("intptr_t", cb)):
        raise InfraError("extern \"Python\" stub and closure have the same address")
    api = ctypes.pythonapi
    api.PyInterpreterState_Main.restype = ctypes.c_void_p
    api.PyInterpreterState_ThreadHead.restype = ctypes.c_void_p
    api.PyInterpreterState_ThreadHead.argtypes = [ctypes.c_void_p]
    api.PyThreadState_Next.restype = ctypes.c_void_p
    api.PyThreadState_Next.argtypes = [ctypes.c_void_p]
    nested["fn"] = ctypes.PYFUNCTYPE(ctypes.c_int, ctypes.c_int)(int(ffi.cast("intptr_t", cb)))
    _W.update(ffi=ffi, lib=lib, cb=cb, xcb=xcb, xmod=xmod, tl=tl, seen=seen, ctl=ctl, api=api, paths=paths,
              nested=nested)
    _gc.disable()


def tstate_count():
    api = _W["api"]
    interp = api.PyInterpreterState_Main()
    n = 0
    ts = api.PyInterpreterState_ThreadHead(interp)
    while ts:
        n += 1
        ts = api.PyThreadState_Next(ts)
    return n


class Sys(object):
    """cfg: {} (= family "base", 3 threads) or {"fam": name, "nt": 2|3}; "dry": True runs the model only
    (used to enumerate / size a family without touching threads)."""

    def __init__(self, cfg):
        self.fam = cfg.get("fam", "base")
        self.nt = nt = int(cfg.get("nt", NT))
        self.dry = bool(cfg.get("dry"))
        self.calls, self.pyops = FAMILIES[self.fam]
        self.maxd = cfg.get("depth")        # own depth bound, for families explored together with deeper ones
        self.nops = 0
        self.cfg = {k: v for k, v in cfg.items() if k != "dry"}
        if not self.dry:
            lib = _W["lib"]
            # a previous history (possibly abandoned half-way by the explorer) may have left threads running,
            # some of them parked inside a callback
            lib.ft_cleanup()
            _W["ctl"].clear()
            # normalise: a helper thread (slot 3) makes a first call, which reclaims every thread state left
            # behind by exited threads of earlier histories; then it exits and is itself the only zombie
            if lib.ft_spawn2(HELPER, _W["cb"], _W["xcb"]) != 0:
                raise InfraError("helper spawn failed")
            lib.ft_call(HELPER, 0)
            self.base = tstate_count() - 1   # the Python main thread (measured, not assumed)
            lib.ft_exit(HELPER)
            self.main_local = getattr(_W["tl"], "value", None)
        else:
            self.base = 1
            self.main_local = None
        self.zombies = 1                 # exited-with-state threads not yet reclaimed
        self.alive = [False] * nt
        self.called = [False] * nt      # has a cffi-made, persistent PyThreadState (made a bare call)
        self.inside = [False] * nt      # parked inside a callback (between enter and leave)
        self.temp = [False] * nt        # inside, on a thread state owned by the C caller's PyGILState_Ensure
        self.local = [None] * nt        # the value this thread last stored in the threading.local
        self.ident = [None] * nt
        self.pending = [None] * nt      # argument of the call a parked thread is inside of
        self.narg = 10

    def enabled(self):
        ops = []
        nt = self.nt
        if self.maxd is not None and self.nops >= self.maxd:
            return ops
        if self.fam == "perm":
            # nt threads are spawned, each makes one call (so each owns a thread state), then they exit in
            # every one of the nt! orders: the list of exited threads is built in every order before one
            # first call (in close()) reclaims it
            if self.nops < nt:
                return [("spawn",)]
            if self.nops < 2 * nt:
                return [("call", self.nops - nt)]
            return [("exit", i) for i in range(nt) if self.alive[i]]
        free = [i for i in range(nt) if not self.alive[i]]
        if free:
            ops.append(("spawn",))
        for i in range(nt):
            if self.alive[i]:
                if self.inside[i]:
                    ops.append(("leave", i))
                    continue
                for c in self.calls:               # "ncall": the Python body re-enters the callback, GIL held
                    ops.append((c, i))
                ops.append(("exit", i))
        if self.pyops:
            ops.append(("pycall",))
            ops.append(("collect",))
        return ops

    # -- model helpers ---------------------------------------------------------------------------------------
    def _with_state(self):
        return sum(1 for i in range(self.nt) if self.alive[i] and (self.called[i] or self.temp[i]))

    def _seen_ok(self, i, s, zombies_before):
        """Checks common to everything a foreign thread observes at the start of a callback."""
        ok_prev = (self.local[i],) if self.called[i] else (None, self.local[i])
        # ^ without a cffi-made state the thread has either never run Python (local is None) or ran it only on
        #   thread states that its C caller made and destroyed (PyGILState_Release): the statement is silent on
        #   whether data stored there survives, so both answers are accepted -- but never another thread's data
        if s["prev"] not in ok_prev:
            return {"kind": "thread-local-lost-or-leaked", "first_call": not self.called[i],
                    "saw": s["prev"], "expected": self.local[i]}
        if self.ident[i] is not None and s["ident"] != self.ident[i]:
            return {"kind": "thread-identity-changed"}
        if s["ident"] == threading.get_ident():
            return {"kind": "foreign-thread-has-main-thread-identity"}
        return None

    def _count_inside(self, s, zombies_before, where):
        lo = self.base + self._with_state()
        hi = lo + zombies_before
        if not (lo <= s["count"] <= hi):
            return {"kind": "thread-state-count-inside-callback", "where": where, "count": s["count"],
                    "expected_min": lo, "expected_max": hi}
        return None

    def apply(self, op):
        self.nops += 1
        bad = self._apply(op)
        if bad and self.cfg:
            bad["cfg"] = self.cfg
        return bad

    def _apply(self, op):
        k = op[0]
        dry = self.dry
        if not dry:
            lib, cb, seen = _W["lib"], _W["cb"], _W["seen"]
        if k == "spawn":
            i = [j for j in range(self.nt) if not self.alive[j]][0]
            if not dry and lib.ft_spawn2(i, cb, _W["xcb"]) != 0:
                raise InfraError("pthread_create failed")
            self.alive[i] = True
            self.called[i] = False
            self.local[i] = None
            self.ident[i] = None
        elif k in CALLS:
            kind, wrap, nest, park = CALLS[k]
            i = op[1]
            self.narg += 1
            extra = NEST if nest else 0
            arg = self.narg + extra
            zb = self.zombies
            first = not self.called[i]
            if not dry:
                seen.pop("last", None)
                seen.pop("enter", None)
                if park:
                    _W["ctl"]["park"] = i
                    r = lib.ft_enter(i, arg, kind, wrap)
                    if r != 1:
                        _W["ctl"].pop("park", None)
                        return {"kind": "callback-did-not-run-or-wrong-result", "op": k, "got": r}
                    s = seen.get("enter")
                else:
                    r = lib.ft_callk(i, arg, kind, wrap) - extra
                    s = seen.get("last")
                    if r != self.narg + 1:
                        return {"kind": "callback-did-not-run-or-wrong-result", "op": k, "got": r}
                if s is None:
                    return {"kind": "callback-did-not-run-or-wrong-result", "op": k, "got": None}
                bad = self._seen_ok(i, s, zb)
                if bad:
                    bad["op"] = k
                    return bad
            # model: a bare entry on a thread without state makes the persistent one (and reclaims the exited
            # threads' states first); a wrapped entry on such a thread runs on the caller's temporary state
            if first and not wrap:
                self.zombies = 0
                self.called[i] = True
            elif first and wrap:
                self.temp[i] = True
            if not dry:
                bad = self._count_inside(s, zb, k)
                if bad:
                    return bad
                self.ident[i] = s["ident"]
            if park:
                self.inside[i] = True
                self.pending[i] = arg
            else:
                self.local[i] = arg
                self.temp[i] = False        # the caller's PyGILState_Release destroyed its state
        elif k == "leave":
            i = op[1]
            arg = self.pending[i]
            if not dry:
                seen.pop("last", None)
                r = lib.ft_leave(i)
                s = seen.get("last")
                if r != arg + 1 or s is None:
                    return {"kind": "callback-did-not-run-or-wrong-result", "op": k, "got": r}
                # the thread continues on the state it entered with: data and identity as before it parked
                if s.get("after_park") != s["prev"]:
                    return {"kind": "thread-local-changed-while-inside-callback", "saw": s.get("after_park"),
                            "expected": s["prev"]}
                if s.get("ident_after_park") != self.ident[i]:
                    return {"kind": "thread-identity-changed", "op": k}
            self.inside[i] = False
            self.temp[i] = False
            self.pending[i] = None
            self.local[i] = arg
        elif k == "exit":
            i = op[1]
            if not dry and lib.ft_exit(i) != 0:
                raise InfraError("ft_exit failed")
            if self.called[i]:
                self.zombies += 1
            self.alive[i] = False
            self.called[i] = False
            self.local[i] = None
            self.ident[i] = None
        elif k == "pycall":
            self.narg += 1
            if not dry:
                seen.pop("last", None)
                r = cb(self.narg)
                s = seen.get("last")
                if r != self.narg + 1 or s is None or s["ident"] != threading.get_ident():
                    return {"kind": "python-thread-callback-wrong"}
                if s["prev"] != self.main_local:
                    return {"kind": "main-thread-local-disturbed", "saw": s["prev"], "expected": self.main_local}
                bad = self._count_inside(s, self.zombies, k)
                if bad:
                    return bad
            self.main_local = self.narg
        elif k == "collect":
            if not dry:
                _gc.collect()
        else:
            raise InfraError("unknown op %r" % (op,))
        return None if dry else self._check()

    def _check(self):
        n = tstate_count()
        with_state = self._with_state()
        lo = self.base + with_state
        hi = lo + self.zombies
        if not (lo <= n <= hi):
            return {"kind": "thread-state-count", "count": n, "expected_min": lo, "expected_max": hi,
                    "alive_with_state": with_state, "unreclaimed_exits_allowed": self.zombies}
        return None

    def key(self):
        dirty = tuple((not c) and (v is not None) for c, v in zip(self.called, self.local))
        return (tuple(self.alive), tuple(self.called), self.zombies, tuple(self.inside), tuple(self.temp), dirty)

    def shape(self):
        """Model state up to thread renaming (used to pick the representatives of the `ending` family)."""
        per = sorted((self.called[i], self.inside[i]) for i in range(self.nt) if self.alive[i])
        return (tuple(per), self.zombies)

    def close(self):
        """End of history: let parked threads return, stop every thread, run one callback (reclaims exited
        threads), and the interpreter must be back to its initial number of thread states."""
        if self.dry:
            return None
        lib = _W["lib"]
        for i in range(self.nt):
            if self.alive[i] and self.inside[i]:
                bad = self._apply(("leave", i))
                if bad:
                    return dict(bad, cfg=self.cfg) if self.cfg else bad
        for i in range(self.nt):
            if self.alive[i]:
                lib.ft_exit(i)
                self.alive[i] = False
                self.called[i] = False
        lib.ft_spawn2(HELPER, _W["cb"], _W["xcb"])
        lib.ft_call(HELPER, 1)                # first call of a new thread: reclaims all exited threads
        n_mid = tstate_count()
        lib.ft_exit(HELPER)
        if n_mid != self.base + 1:
            bad = {"kind": "thread-state-leak", "count": n_mid, "expected": self.base + 1}
            return dict(bad, cfg=self.cfg) if self.cfg else bad
        return None


# ---- the `ending` family: processes that stop in the middle ---------------------------------------------------

HOWS = ("finalize", "fork-exit", "fork-finalize")
HOWS_QUICK = ("finalize", "fork-finalize")      # the child of "fork-exit" does strictly less than this one's
CHILD_HISTORY = [("spawn",), ("call", 0), ("xcall", 0), ("exit", 0), ("spawn",), ("xcall", 0)]


def ending_prefixes(nt, depth):
    """One shortest history (first in canonical order) for every model shape reachable within `depth`
    operations of the alphabet spawn / call / enter / exit (the model only; nothing is executed)."""
    from .. import hist
    cfg = {"fam": "end", "nt": nt, "dry": True}
    reps = {}
    level = [()]
    for d in range(depth + 1):
        nxt = []
        for h in level:
            s = hist.build(Sys, cfg, h)
            reps.setdefault(s.shape(), h)
            if d < depth:
                for op in s.enabled():
                    if op[0] != "leave":
                        nxt.append(h + (op,))
        level = nxt
    return [list(h) for _, h in sorted(reps.items(), key=lambda kv: (len(kv[1]), kv[1]))]


def start_endings(specs):
    """Start `ending` cases: one helper interpreter (which never runs a callback itself) forks one case process
    per spec from its top level."""
    import subprocess
    job = {"paths": _W["paths"], "specs": specs}
    return subprocess.Popen([sys.executable, "-m", "vlib.props._c36_end", json.dumps(job)],
                            stdout=subprocess.PIPE, stderr=subprocess.PIPE, text=True)


def collect_endings(proc, specs):
    """-> [(verdict-dict-or-None, raw observation)] in the order of specs."""
    import subprocess
    try:
        out, err = proc.communicate(timeout=3000)
    except subprocess.TimeoutExpired:
        proc.kill()
        raise InfraError("ending helper timed out")
    got = {}
    for line in out.splitlines():
        if line.startswith("C36END "):
            _, k, js = line.split(" ", 2)
            got[int(k)] = json.loads(js)
    if proc.returncode != 0 or len(got) != len(specs):
        raise InfraError("ending helper failed (status %r, %d of %d cases):\n%s"
                         % (proc.returncode, len(got), len(specs), err[-3000:]))
    return [(judge_ending(spec, got[k]), got[k]) for k, spec in enumerate(specs)]


def run_endings(specs):
    return collect_endings(start_endings(specs), specs)


def judge_ending(spec, obs):
    how = spec["how"]
    rc, err, recs = obs["returncode"], obs["stderr"], obs["records"]
    fatal = [m for m in ("Fatal Python error", "ThreadCanaryObj", "cffi: invalid") if m in err]
    if rc == 1 and "Traceback" in err and not fatal:
        raise InfraError("ending case failed in the harness:\n" + err)
    if rc != 0 or fatal:
        return {"kind": "process-ended-abnormally", "how": how, "process": "main",
                "status": "signal" if rc < 0 else ("nonzero" if rc else "zero"), "fatal_message": bool(fatal)}
    main = recs.get("main")
    if main is None:
        raise InfraError("ending case printed no record: %r" % (obs,))
    for role in ("main", "child"):
        r = recs.get(role)
        if r and r.get("bad"):
            return dict(r["bad"], how=how, process=role, stage=r.get("stage"))
    if how != "finalize":
        cs = main.get("child_status")
        if cs != 0 or "child" not in recs:
            return {"kind": "process-ended-abnormally", "how": how, "process": "child",
                    "status": "signal" if (cs or 0) < 0 else ("nonzero" if cs else "no-record"),
                    "fatal_message": bool(fatal)}
    return None


# ---- driver ---------------------------------------------------------------------------------------------------

def _plan(quick):
    """Groups (depth, d0, split, [(label, cfg)]) of E2 families; the families of one group share one pool run.
    A group of several families is explored without merging (d0 == depth); a family with a smaller depth of
    its own carries it in cfg["depth"]."""
    if quick:
        return [
            (6, 5, 2, [("base", {})]),
            (6, 6, 3, [("extern", {"fam": "extern", "nt": 2, "depth": 5}),
                       ("gstate", {"fam": "gstate", "nt": 2, "depth": 5}),
                       ("park", {"fam": "parkq", "nt": 2})]),
        ]
    return [
        (8, 6, 2, [("base", {})]),
        (6, 5, 3, [("extern", {"fam": "extern", "nt": 3})]),
        (6, 4, 3, [("gstate", {"fam": "gstatex", "nt": 3})]),
        (7, 4, 2, [("park", {"fam": "park", "nt": 3})]),
        (5, 3, 2, [("all", {"fam": "all", "nt": 3})]),
        (15, 15, 11, [("perm", {"fam": "perm", "nt": 5})]),
    ]


def _label_of(cfg, members):
    for label, c in members:
        if c == cfg:
            return label
    return "base"


def run(ctx):
    from .. import hist
    setup()
    base = tstate_count()
    # --opt only=extern,ending : run a subset of the families (for experiments; recorded in the evidence)
    only = [x for x in getattr(ctx, "opts", {}).get("only", "").split(",") if x]
    # the `ending` family runs in interpreters of its own: start them now, collect them at the end
    nt_e, depth_e = (2, 5) if ctx.quick else (3, 6)
    prefixes = ending_prefixes(nt_e, depth_e)
    hows = HOWS_QUICK if ctx.quick else HOWS
    specs = [{"cfg": {"fam": "end", "nt": nt_e}, "history": h, "how": how} for h in prefixes for how in hows]
    if only and "ending" not in only:
        prefixes, specs = [], []
    nz = max(1, min(8, len(specs) // 4))              # helper interpreters; each forks its cases one by one
    chunks = [c for c in (specs[i::nz] for i in range(nz)) if c]
    procs = [start_endings(c) for c in chunks]
    # leave the process in a known state: the closing sequence leaves exactly one zombie behind,
    # which the first callback of the next history reclaims; Sys() measures its base afterwards.
    tot = dict(states=0, transitions=0, merged=0, closed=0, max_depth=0)
    fams = {}
    for depth, d0, split, members in _plan(ctx.quick):
        if only:
            members = [m for m in members if m[0] in only]
            if not members:
                continue
        st, crashes = hist.run_parallel(Sys, [c for _, c in members], depth, d0, split=split)
        for item, cr, last in crashes:
            ctx.violation({"kind": "crash", "family": _label_of(item[0], members)},
                          {"cfg": item[0], "prefix": item[1], "last_history": last, "how": cr.describe()})
        for h, info in st.violations:
            cfg = info.get("cfg") or {}
            label = _label_of(cfg, members)
            sig = {"kind": info.get("kind")}
            if label != "base":
                sig["family"] = label
                for extra in ("op", "where"):
                    if extra in info:
                        sig[extra] = info[extra]
            ctx.violation(sig, {"cfg": cfg, "history": h, "info": info})
        for k, v in sorted(st.op_hist.items()):
            ctx.count("op_" + str(k), v)
        if len(members) == 1:
            sizes = {members[0][0]: (st.states, st.transitions, st.merged)}
        else:
            # the search is driven by the model alone, so the share of each family in the merged statistics is
            # what a model-only ("dry") run of that family visits; the totals must agree with what was executed
            if d0 < depth:
                raise InfraError("a group of several families must be explored unmerged")
            sizes = {}
            for label, cfg in members:
                dry = hist.explore(Sys, dict(cfg, dry=True), depth, d0)
                sizes[label] = (dry.states, dry.transitions, dry.merged)
            if not st.violations and not crashes and (
                    sum(v[1] for v in sizes.values()) != st.transitions or
                    sum(v[0] for v in sizes.values()) != st.states):
                raise InfraError("family sizes %r do not add up to the executed %d transitions / %d states"
                                 % (sizes, st.transitions, st.states))
        for label, cfg in members:
            n_states, n_trans, n_merged = sizes[label]
            ctx.count("family_%s_transitions" % label, n_trans)
            ctx.count("family_%s_states" % label, n_states)
            own = cfg.get("depth", depth)
            fams[label] = {"cfg": cfg, "depth": own, "unmerged_depth_d0": min(d0, own),
                           "states": n_states, "transitions": n_trans, "merged_states_skipped": n_merged}
            ctx.log("family %s: %d states, %d transitions" % (label, n_states, n_trans))
        for smp in st.samples[:2]:
            ctx.sample({"families": [l for l, _ in members], "history": smp})
        tot["states"] += st.states
        tot["transitions"] += st.transitions + len(crashes)      # a crashed item did execute the implementation
        tot["merged"] += st.merged
        tot["closed"] += st.histories_closed
        tot["max_depth"] = max(tot["max_depth"], st.max_depth)
    # collect the `ending` family
    n_end = 0
    for chunk, proc in zip(chunks, procs):
        for spec, (bad, obs) in zip(chunk, collect_endings(proc, chunk)):
            n_end += 1
            ctx.count("ending_" + spec["how"])
            if any(op[0] == "enter" for op in spec["history"]):
                ctx.count("ending_with_thread_inside_callback")
            if bad is not None:
                sig = {"family": "ending"}
                sig.update({k: v for k, v in bad.items() if k in ("kind", "how", "process", "status",
                                                                  "fatal_message", "stage", "op", "where")})
                ctx.violation(sig, {"family": "ending", "spec": spec, "info": bad, "observed": obs})
            elif len(spec["history"]) >= depth_e - 1:
                ctx.sample({"family": "ending", "history": [repr(tuple(o)) for o in spec["history"]],
                            "how": spec["how"], "returncode": obs["returncode"]})
    ctx.count("ending_model_shapes", len(prefixes))
    ctx.log("family ending: %d shapes x %d ways" % (len(prefixes), len(hows)))
    if not ctx.samples:
        ctx.sample({"note": "see class_histogram"})
    d0_base = min(f["unmerged_depth_d0"] for f in fams.values()) if only and fams else (
        fams["base"]["unmerged_depth_d0"] if fams else 0)
    cov = {
        "states": tot["states"] + n_end, "transitions": tot["transitions"] + n_end,
        "traces_validated_against_impl": tot["transitions"] + n_end,
        "max_depth": tot["max_depth"], "unmerged_depth_d0": d0_base, "merged_states_skipped": tot["merged"],
        "histories_closed": tot["closed"], "evaluations": tot["transitions"] + n_end,
        "distinct_nontrivial": tot["states"] + n_end,
        "families": fams,
        "ending": {"threads": nt_e, "prefix_depth": depth_e, "model_shapes": len(prefixes), "ways": list(hows),
                   "processes_run": n_end},
        "rule": "a state is an operation history (merged by model key beyond the family's d0); every transition drives "
                "real pthreads.  Families: base (spawn/call/ncall/exit/pycall/collect), extern (closure and extern "
                "\"Python\" entry alternating), gstate (caller-owned PyGILState around the callback), park (threads "
                "inside a callback while others run), all (union; thorough), perm (5 threads exiting in all 120 orders; "
                "thorough); ending = one interpreter per "
                "(model shape, way of ending) that stops without cleaning up, counted as one state and one "
                "transition each",
        "initial_thread_states": base, "exhaustive": True,
    }
    if only:
        cov["only_families"] = only
    return ctx.finish(cov, ["operations are serialised (see level_note)",
                            "PyThreadState count read with ctypes.pythonapi under the GIL",
                            "a thread state made by the C caller's PyGILState_Ensure belongs to that caller: its "
                            "disappearance at PyGILState_Release is CPython's contract, data stored on it may or may "
                            "not be seen later"])


def replay(detail):
    if not detail.get("_no_setup"):
        setup()
    if detail.get("family") == "ending":
        bad, obs = run_endings([detail["spec"]])[0]
        print("spec:", detail["spec"])
        print("observed:", json.dumps(obs, indent=1))
        print("verdict:", bad)
        return 1 if bad else 0
    h = detail.get("history")
    if h is None and detail.get("last_history"):
        # a crash: the journalled history the worker was executing; if it crashes again, so does this process
        import ast
        h = list(ast.literal_eval(detail["last_history"]))
        print("re-running the journalled history of the crashed worker in a child process:", h)
        sys.stdout.flush()
        pid = os.fork()
        if pid == 0:
            rc = 3
            try:
                rc = replay({"cfg": detail.get("cfg"), "history": h, "_no_setup": True})
                sys.stdout.flush()
            finally:
                os._exit(rc)
        _, status = os.waitpid(pid, 0)
        code = os.waitstatus_to_exitcode(status)
        print("child ended with", ("signal %d" % -code) if code < 0 else ("status %d" % code))
        return 1 if code != 0 else 0
    if h is None:
        print(detail)
        return 1
    s = Sys(detail.get("cfg") or {})
    for op in [tuple(o) for o in h if tuple(o) != ("<close>",)]:
        bad = s.apply(op)
        print(op, "->", bad, "tstates:", tstate_count())
        if bad:
            return 1
    bad = s.close()
    print("<close> ->", bad)
    return 1 if bad else 0
