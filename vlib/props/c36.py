"""C36 -- callbacks from threads not created by Python (engine E2).

A helper library owns up to 3 pthreads parked on semaphores.  The Python main
thread issues one command at a time (spawn / call the cffi callback from that
thread / exit+join / the same callback from the Python thread / gc.collect())
and all histories up to a depth are explored against a small thread-state
model: identity and threading.local data persist across calls of one thread, a
new thread never sees an old thread's data, exited threads leave no thread
state behind once a later callback has run, and the process survives.
"""
import ctypes
import gc as _gc
import os
import threading

from .. import build, cref, hist
from ..build import InfraError

ID = "C36"
LEVEL = "model_checking"
META = dict(
    engine="E2-hist", level="model_checking",
    technique="explicit-state breadth-first search over spawn/call/exit/collect histories of up to 3 real non-Python "
              "threads invoking a cffi callback, against a thread-state model (identity, thread-local data, number of "
              "PyThreadStates), with crash containment",
    text="All histories up to depth 5 (quick; thorough 7 with merging beyond the unmerged depth).  After every operation "
         "the number of PyThreadStates of the interpreter (read through ctypes.pythonapi) must equal 1 + the foreign "
         "threads that are alive and have made a call (+ at most the threads that exited since a thread last made its "
         "first call, which is when exited threads are reclaimed), get_ident() and a threading.local value must persist between the "
         "calls of one thread, and a freshly spawned thread must not see data of an exited one.",
    note="each operation runs to completion before the next one starts: instruction-level races between a thread's "
         "shutdown hook and the zombie reclamation in another thread are NOT explored (OS threads are not under a "
         "controlled scheduler here)")

NT = 3
NEST = 1000000
_W = {}


def setup():
    import cffi
    so = cref.compile_so(open(os.path.join(build.HARNESS, "c36_fthreads.c")).read(), flags=["-pthread"], name="c36ft")
    ffi = cffi.FFI()
    ffi.cdef("int ft_spawn(int, int(*)(int)); int ft_call(int, int); int ft_exit(int);")
    lib = ffi.dlopen(so)
    tl = threading.local()
    seen = {}

    nested = {}

    @ffi.callback("int(int)")
    def cb(arg):
        # runs in whichever thread calls it; records what that thread sees
        prev = getattr(tl, "value", None)
        if arg >= NEST:
            # re-enter the same cffi callback from Python code that HOLDS the GIL (ctypes.PYFUNCTYPE does
            # not release it): the nested entry finds the thread state already current
            nested["fn"](arg - NEST)
        tl.value = arg
        seen["last"] = {"ident": threading.get_ident(), "prev": prev,
                        "name_is_dummy": type(threading.current_thread()).__name__}
        return arg + 1
    api = ctypes.pythonapi
    api.PyInterpreterState_Main.restype = ctypes.c_void_p
    api.PyInterpreterState_ThreadHead.restype = ctypes.c_void_p
    api.PyInterpreterState_ThreadHead.argtypes = [ctypes.c_void_p]
    api.PyThreadState_Next.restype = ctypes.c_void_p
    api.PyThreadState_Next.argtypes = [ctypes.c_void_p]
    nested["fn"] = ctypes.PYFUNCTYPE(ctypes.c_int, ctypes.c_int)(int(ffi.cast("intptr_t", cb)))
    _W.update(ffi=ffi, lib=lib, cb=cb, tl=tl, seen=seen, api=api)
    _gc.disable()


def tstate_count():
    api = _W["api"]
    interp = api.PyInterpreterState_Main()
    n = 0
    ts = api.PyInterpreterState_ThreadHead(interp)
    while ts:
        n += 1
        ts = api.PyThreadState_Next(ts)
    return n


class Sys(object):
    def __init__(self, cfg):
        lib = _W["lib"]
        # a previous history (possibly abandoned half-way by the explorer) may have left threads running
        for i in range(NT + 1):
            lib.ft_exit(i)                # -1 if that slot has no thread
        # normalise: a helper thread (slot 3) makes a first call, which reclaims every thread state left
        # behind by exited threads of earlier histories; then it exits and is itself the only zombie
        if lib.ft_spawn(3, _W["cb"]) != 0:
            raise InfraError("helper spawn failed")
        lib.ft_call(3, 0)
        self.base = tstate_count() - 1   # the Python main thread (measured, not assumed)
        lib.ft_exit(3)
        self.zombies = 1                 # exited-with-state threads not yet reclaimed
        self.alive = [False] * NT
        self.called = [False] * NT      # has a PyThreadState (made at least one call)
        self.local = [None] * NT        # model of the thread's threading.local value
        self.ident = [None] * NT
        self.narg = 10
        self.main_local = getattr(_W["tl"], "value", None)

    def enabled(self):
        ops = []
        free = [i for i in range(NT) if not self.alive[i]]
        if free:
            ops.append(("spawn",))
        for i in range(NT):
            if self.alive[i]:
                ops.append(("call", i))
                ops.append(("ncall", i))       # a call whose Python body re-enters the callback with the GIL held
                ops.append(("exit", i))
        ops.append(("pycall",))
        ops.append(("collect",))
        return ops

    def apply(self, op):
        lib, cb, seen = _W["lib"], _W["cb"], _W["seen"]
        k = op[0]
        if k == "spawn":
            i = [j for j in range(NT) if not self.alive[j]][0]
            if lib.ft_spawn(i, cb) != 0:
                raise InfraError("pthread_create failed")
            self.alive[i] = True
            self.called[i] = False
            self.local[i] = None
            self.ident[i] = None
        elif k in ("call", "ncall"):
            i = op[1]
            self.narg += 1
            seen.pop("last", None)
            extra = NEST if k == "ncall" else 0
            r = lib.ft_call(i, self.narg + extra) - extra
            s = seen.get("last")
            if r != self.narg + 1 or s is None:
                return {"kind": "callback-did-not-run-or-wrong-result", "got": r}
            if s["prev"] != self.local[i]:
                return {"kind": "thread-local-lost-or-leaked", "first_call": not self.called[i],
                        "saw": s["prev"], "expected": self.local[i]}
            if self.ident[i] is not None and s["ident"] != self.ident[i]:
                return {"kind": "thread-identity-changed"}
            if s["ident"] == threading.get_ident():
                return {"kind": "foreign-thread-has-main-thread-identity"}
            self.ident[i] = s["ident"]
            self.local[i] = self.narg + extra
            if not self.called[i]:
                self.zombies = 0            # a thread registering its state first reclaims the exited threads' states
            self.called[i] = True
        elif k == "exit":
            i = op[1]
            if lib.ft_exit(i) != 0:
                raise InfraError("ft_exit failed")
            if self.called[i]:
                self.zombies += 1
            self.alive[i] = False
            self.called[i] = False
            self.local[i] = None
            self.ident[i] = None
        elif k == "pycall":
            self.narg += 1
            seen.pop("last", None)
            r = cb(self.narg)
            s = seen.get("last")
            if r != self.narg + 1 or s["ident"] != threading.get_ident():
                return {"kind": "python-thread-callback-wrong"}
            if s["prev"] != self.main_local:
                return {"kind": "main-thread-local-disturbed", "saw": s["prev"], "expected": self.main_local}
            self.main_local = self.narg
        elif k == "collect":
            _gc.collect()
        return self._check()

    def _check(self):
        n = tstate_count()
        with_state = sum(1 for i in range(NT) if self.alive[i] and self.called[i])
        lo = self.base + with_state
        hi = lo + self.zombies
        if not (lo <= n <= hi):
            return {"kind": "thread-state-count", "count": n, "expected_min": lo, "expected_max": hi,
                    "alive_with_state": with_state, "unreclaimed_exits_allowed": self.zombies}
        return None

    def key(self):
        return (tuple(self.alive), tuple(self.called), self.zombies)

    def close(self):
        """End of history: stop every thread, run one callback (reclaims exited threads), and the
        interpreter must be back to its initial number of thread states."""
        lib = _W["lib"]
        for i in range(NT):
            if self.alive[i]:
                lib.ft_exit(i)
                self.alive[i] = False
                self.called[i] = False
        lib.ft_spawn(3, _W["cb"])
        lib.ft_call(3, 1)                # first call of a new thread: reclaims all exited threads
        n_mid = tstate_count()
        lib.ft_exit(3)
        if n_mid != self.base + 1:
            return {"kind": "thread-state-leak", "count": n_mid, "expected": self.base + 1}
        return None


def run(ctx):
    setup()
    base = tstate_count()
    # leave the process in a known state: the closing sequence leaves exactly one zombie behind,
    # which the first callback of the next history reclaims; Sys() measures its base afterwards.
    depth, d0 = (6, 5) if ctx.quick else (8, 6)
    st, crashes = hist.run_parallel(Sys, [{}], depth, d0, split=2)
    for item, cr, last in crashes:
        ctx.violation({"kind": "crash"}, {"prefix": item[1], "last_history": last, "how": cr.describe()})
    for h, info in st.violations:
        ctx.violation({"kind": info.get("kind")}, {"history": h, "info": info})
    for k, v in sorted(st.op_hist.items()):
        ctx.count("op_" + str(k), v)
    for smp in st.samples:
        ctx.sample({"history": smp})
    if not st.samples:
        ctx.sample({"note": "see class_histogram"})
    cov = {
        "states": st.states, "transitions": st.transitions, "traces_validated_against_impl": st.transitions,
        "max_depth": st.max_depth, "unmerged_depth_d0": d0, "merged_states_skipped": st.merged,
        "histories_closed": st.histories_closed, "evaluations": st.transitions, "distinct_nontrivial": st.states,
        "rule": "a state is an operation history (merged by model key beyond d0); every transition drives real pthreads",
        "initial_thread_states": base, "exhaustive": True,
    }
    return ctx.finish(cov, ["operations are serialised (see level_note)",
                            "PyThreadState count read with ctypes.pythonapi under the GIL"])


def replay(detail):
    setup()
    h = detail.get("history")
    if h is None:
        print(detail)
        return 1
    s = Sys({})
    for op in [tuple(o) for o in h if tuple(o) != ("<close>",)]:
        bad = s.apply(op)
        print(op, "->", bad, "tstates:", tstate_count())
        if bad:
            return 1
    bad = s.close()
    print("<close> ->", bad)
    return 1 if bad else 0
