"""C03 -- integer stores accept exactly the type's range and round-trip.

E1: every integer type (standard, <stdint.h> names, _Bool, 4 enums) x every
store path (each separately implemented in cffi) x the boundary-complete value
set B(T).  One API-mode "universe" module is compiled per run; its shared
object is also dlopen()ed by an in-line and an out-of-line ABI-mode FFI and by
ctypes (which is how the reference side looks at memory and at the value a C
function received).

Oracle: accept iff lo <= v <= hi (range measured by gcc); accepted => read-back
== v, the target bytes hold v and the 8 bytes on either side (pre-filled 0xA5)
are untouched; rejected => OverflowError, all bytes untouched, the C function
was not called; a callback / extern "Python" function returning an
out-of-range value => the C caller receives the error= value (0 by default).
"""
import contextlib
import ctypes
import importlib.util
import io
import os
import sys

from .. import build, cref, pool
from ..build import InfraError

ID = "C03"
LEVEL = "exploration"
META = dict(
    engine="E1-enum", level="exploration",
    technique="exhaustive enumeration of integer type x store path x boundary value set against gcc-measured ranges, "
              "memory images read through ctypes",
    text="All 46 integer types (10 standard, _Bool, 31 <stdint.h>/<stddef.h> names, 4 enums) x 34 store paths (new, "
         "array item, p[i]=v, struct field, struct initializer, global variable and call argument through in-line ABI, "
         "out-of-line ABI and API mode, libffi call of an API function, variadic cdata argument, ffi.callback result, "
         "extern \"Python\" result) x B(T) (every range bound and its neighbours, +-2^k+-1 up to 2^128, +-10^30): "
         "acceptance iff in range, exact read-back, byte image, untouched neighbours, OverflowError on rejection, "
         "error value on bad callback results.",
    note="gcc 12 on this machine measures every range; ctypes reads memory and the value received by C; little-endian "
         "two's complement images are derived from those measured sizes")

STD = ["signed char", "unsigned char", "short", "unsigned short", "int", "unsigned int",
       "long", "unsigned long", "long long", "unsigned long long"]

ENUMS = {
    "enum e_s4": "enum e_s4 { ES4_A = -5, ES4_B = 7 };",
    "enum e_u4": "enum e_u4 { EU4_A = 0, EU4_B = 7 };",
    "enum e_s8": "enum e_s8 { ES8_A = -5, ES8_B = 0x100000000 };",
    "enum e_u8": "enum e_u8 { EU8_A = 0, EU8_B = 0x100000000 };",
}

HEADERS = "#include <stdint.h>\n#include <stddef.h>\n#include <sys/types.h>\n#include <stdarg.h>\n"

BG = 0xA5
GUARD = 8


def ident(t):
    return t.replace(" ", "_")


def all_types():
    """Every integer type name cffi accepts (taken from cffi's own table) + _Bool + enums."""
    from cffi import model
    names = [n for n, k in model.PrimitiveType.ALL_PRIMITIVE_TYPES.items() if k == "i"]
    rest = sorted(n for n in names if n not in STD and n != "_Bool")
    for t in STD:
        if t not in names:
            raise InfraError("cffi does not list %r as an integer type" % t)
    return STD + ["_Bool"] + rest + sorted(ENUMS)


def measure(types):
    """{type: (size, signed)} printed by gcc."""
    src = HEADERS + "#include <stdio.h>\n" + "".join(ENUMS[t] + "\n" for t in types if t in ENUMS)
    src += "int main(void){\n"
    for t in types:
        src += 'printf("%%s|%%d|%%d\\n", "%s", (int)sizeof(%s), (int)(((%s)-1) < (%s)0));\n' % (t, t, t, t)
    src += "return 0;}\n"
    res = {}
    for line in cref.run_c(src).splitlines():
        n, s, sg = line.split("|")
        res[n] = (int(s), bool(int(sg)))
    return res


def c_source(types, facts):
    out = [HEADERS]
    for t in types:
        if t in ENUMS:
            out.append(ENUMS[t] + "\n")
    for t in types:
        i = ident(t)
        size, sg = facts[t]
        wide = "long long" if sg else "unsigned long long"
        prom = "int" if (size < 4 or t == "_Bool") else t
        out.append("""
struct s_%(i)s { char pre[8]; %(t)s f; char post[8]; };
struct s_%(i)s w_%(i)s = {{0}};
extern %(t)s g_%(i)s;
__asm__(".globl g_%(i)s\\n\\t.set g_%(i)s, w_%(i)s+8\\n\\t.type g_%(i)s, @object\\n\\t.size g_%(i)s, %(size)d");
%(wide)s rec_%(i)s; int ncalls_%(i)s;
%(t)s id_%(i)s(%(t)s x) { rec_%(i)s = x; ncalls_%(i)s++; return x; }
%(t)s va_%(i)s(int n, ...) { va_list ap; %(prom)s x; va_start(ap, n); x = va_arg(ap, %(prom)s); va_end(ap);
    rec_%(i)s = (%(t)s)x; ncalls_%(i)s++; return (%(t)s)x; }
%(t)s call_cb_%(i)s(%(t)s (*cb)(void)) { %(t)s r = cb(); rec_%(i)s = r; return r; }
""" % dict(i=i, t=t, size=size, wide=wide, prom=prom))
    return "".join(out)


def c_source_api_extra(types):
    out = []
    for t in types:
        i = ident(t)
        out.append("static %(t)s ep_%(i)s(void);\n"
                   "%(t)s call_ep_%(i)s(void) { %(t)s r = ep_%(i)s(); rec_%(i)s = r; return r; }\n" % dict(i=i, t=t))
    return "".join(out)


def cdef_text(types, api):
    out = []
    for t in types:
        if t in ENUMS:
            out.append(ENUMS[t] + "\n")
    for t in types:
        i = ident(t)
        out.append("struct s_%(i)s { char pre[8]; %(t)s f; char post[8]; };\n"
                   "extern %(t)s g_%(i)s;\n"
                   "%(t)s id_%(i)s(%(t)s);\n"
                   "%(t)s va_%(i)s(int, ...);\n"
                   "%(t)s call_cb_%(i)s(%(t)s (*)(void));\n" % dict(i=i, t=t))
        if api:
            out.append('extern "Python" %(t)s ep_%(i)s(void);\n%(t)s call_ep_%(i)s(void);\n' % dict(i=i, t=t))
    return "".join(out)


def compile_universe(job):
    """Generate and compile one universe module.  job = (types, facts, tag, directory, extra compiler flags);
    returns what Universe needs."""
    import cffi
    types, facts, tag, d, cflags = job
    os.makedirs(d, exist_ok=True)
    name = "_c03u_%s" % tag
    fb = cffi.FFI()
    fb.cdef(cdef_text(types, True))
    fb.set_source(name, c_source(types, facts) + c_source_api_extra(types), extra_compile_args=cflags)
    so = fb.compile(tmpdir=d)
    oname = "_c03o_%s" % tag
    fo = cffi.FFI()
    fo.cdef(cdef_text(types, False))
    fo.set_source(oname, None)
    opath = os.path.join(d, oname + ".py")
    with contextlib.redirect_stdout(io.StringIO()):     # cffi announces the file name on stdout
        fo.emit_python_code(opath)
    return (types, facts, name, so, oname, opath)


class Universe(object):
    """A compiled module and the four views on it (API lib, in-line ABI lib, out-of-line ABI lib, ctypes)."""

    def __init__(self, compiled):
        import cffi
        types, facts, name, so, oname, opath = compiled
        self.types = types
        self.facts = facts
        self.so = so
        mod = _import(name, so)
        self.api_ffi, self.api_lib = mod.ffi, mod.lib
        # in-line ABI
        self.abi_ffi = cffi.FFI()
        self.abi_ffi.cdef(cdef_text(types, False))
        self.abi_lib = self.abi_ffi.dlopen(so)
        # out-of-line ABI
        omod = _import(oname, opath)
        self.ool_ffi = omod.ffi
        self.ool_lib = omod.ffi.dlopen(so)
        self.cdll = ctypes.CDLL(so)


def build_universes(types, facts, tag, cflags=()):
    """{type: Universe} (one module for all types: the fixed cost of a module build dominates)."""
    d = os.path.join(build.scratch_shared(), "c03_%s_%d" % (tag, os.getpid()))
    u = Universe(compile_universe((types, facts, "%s_%d" % (tag, os.getpid()), d, list(cflags))))
    return {t: u for t in types}


def _import(name, path):
    spec = importlib.util.spec_from_file_location(name, path)
    mod = importlib.util.module_from_spec(spec)
    spec.loader.exec_module(mod)
    sys.modules[name] = mod
    return mod


# ---------------------------------------------------------------------------------------

def type_class(t, size, sg):
    if t == "_Bool":
        return "bool"
    return ("enum_" if t in ENUMS else "") + ("s" if sg else "u") + str(8 * size)


def value_class(v, lo, hi):
    if v < lo:
        return "below_lo_beyond64" if v < -(1 << 63) else "below_lo"
    if v > hi:
        return "above_hi_beyond64" if v >= (1 << 64) else ("above_hi_beyond63" if v >= (1 << 63) else "above_hi")
    return "at_bound" if v in (lo, hi) else "inside"


def encode(v, size):
    return (v & ((1 << (8 * size)) - 1)).to_bytes(size, sys.byteorder)


class ReadError(object):
    """A read-back that raised: never equal to an int, printed with the exception."""

    def __init__(self, e):
        self.text = "%s: %s" % (type(e).__name__, e)

    def __repr__(self):
        return "<read-back raised %s>" % self.text


def _rd(f):
    try:
        return f()
    except Exception as e:
        return ReadError(e)


class Unraisable(object):
    def __init__(self):
        self.n = 0

    def __call__(self, *a):
        self.n += 1


def paths_for(u, t, errval):
    """Return [(path name, kind, fn)].

    kind 'mem': fn(v) performs the store on a location whose surroundings are observable and returns
        (exc or None, readback or None, image bytes of guard+target+guard or None, target offset)
    kind 'new': fn(v) allocates with an initializer and returns (exc, readback, image, offset)
    kind 'call': fn(v) -> (exc, result, received by C, number of calls made)
    kind 'cb': fn(v) -> (exc, result seen by python caller, value received by the C caller), with error value
    """
    i = ident(t)
    size, sg = u.facts[t]
    P = []
    fill = bytes([BG])
    img_len = 2 * GUARD + size

    for kind, ffi in (("inline", u.abi_ffi), ("ool", u.ool_ffi), ("api", u.api_ffi)):
        def new_ptr(v, ffi=ffi):
            try:
                p = ffi.new(t + " *", v)
            except Exception as e:
                return e, None, None, 0
            return None, _rd(lambda: p[0]), bytes(ffi.buffer(p)), 0

        def new_arr(v, ffi=ffi):
            try:
                p = ffi.new(t + "[1]", [v])
            except Exception as e:
                return e, None, None, 0
            return None, _rd(lambda: p[0]), bytes(ffi.buffer(p)), 0

        def new_struct(v, ffi=ffi):
            try:
                p = ffi.new("struct s_%s *" % i, {"f": v})
            except Exception as e:
                return e, None, None, 0
            return None, _rd(lambda: p.f), bytes(ffi.buffer(p)), None       # None: zero-filled background

        arr = ffi.new(t + "[]", 2 * (GUARD // size) + 1)
        abuf = ffi.buffer(arr)
        aidx = GUARD // size

        def setitem(v, arr=arr, abuf=abuf, aidx=aidx):
            abuf[:] = fill * len(abuf)
            try:
                arr[aidx] = v
            except Exception as e:
                return e, None, bytes(abuf), GUARD
            return None, _rd(lambda: arr[aidx]), bytes(abuf), GUARD

        ptr = ffi.cast(t + " *", arr) + aidx

        def deref(v, ptr=ptr, abuf=abuf):
            abuf[:] = fill * len(abuf)
            try:
                ptr[0] = v
            except Exception as e:
                return e, None, bytes(abuf), GUARD
            return None, _rd(lambda: ptr[0]), bytes(abuf), GUARD

        st = ffi.new("struct s_%s *" % i)
        sbuf = ffi.buffer(st)
        if len(sbuf) != img_len:
            raise InfraError("struct s_%s has size %d, expected %d" % (i, len(sbuf), img_len))

        def field(v, st=st, sbuf=sbuf):
            sbuf[:] = fill * img_len
            try:
                st.f = v
            except Exception as e:
                return e, None, bytes(sbuf), GUARD
            return None, _rd(lambda: st.f), bytes(sbuf), GUARD

        P += [("new_ptr/" + kind, "new", new_ptr), ("new_array/" + kind, "new", new_arr),
              ("new_struct/" + kind, "new", new_struct), ("setitem/" + kind, "mem", setitem),
              ("deref/" + kind, "mem", deref), ("field/" + kind, "mem", field)]

    wimg = (ctypes.c_ubyte * img_len).in_dll(u.cdll, "w_" + i)
    waddr = ctypes.addressof(wimg)
    recty = ctypes.c_longlong if sg else ctypes.c_ulonglong
    rec = recty.in_dll(u.cdll, "rec_" + i)
    ncalls = ctypes.c_int.in_dll(u.cdll, "ncalls_" + i)
    sentinel = -0x5A5A5A5A5A5A5A5B if sg else 0xA5A5A5A5A5A5A5A5

    for kind, lib in (("inline", u.abi_lib), ("ool", u.ool_lib), ("api", u.api_lib)):
        def glob(v, lib=lib):
            ctypes.memset(waddr, BG, img_len)
            try:
                setattr(lib, "g_" + i, v)
            except Exception as e:
                return e, None, bytes(wimg), GUARD
            return None, _rd(lambda: getattr(lib, "g_" + i)), bytes(wimg), GUARD
        P.append(("global/" + kind, "mem", glob))

    def mk_call(f):
        def call(v):
            rec.value = sentinel
            n0 = ncalls.value
            try:
                r = f(v)
            except Exception as e:
                return e, None, rec.value, ncalls.value - n0
            return None, r, rec.value, ncalls.value - n0
        return call

    P.append(("arg/api", "call", mk_call(getattr(u.api_lib, "id_" + i))))
    P.append(("arg/api_addressof", "call", mk_call(u.api_ffi.addressof(u.api_lib, "id_" + i))))
    P.append(("arg/inline", "call", mk_call(getattr(u.abi_lib, "id_" + i))))
    P.append(("arg/ool", "call", mk_call(getattr(u.ool_lib, "id_" + i))))
    P.append(("arg/inline_addressof", "call", mk_call(u.abi_ffi.addressof(u.abi_lib, "id_" + i))))

    for kind, ffi, lib in (("inline", u.abi_ffi, u.abi_lib), ("api", u.api_ffi, u.api_lib)):
        vf = getattr(lib, "va_" + i)
        P.append(("vararg_cdata/" + kind, "va",
                  mk_call(lambda v, ffi=ffi, vf=vf: vf(1, ffi.cast(t, v)))))

    box = [0]

    def ret():
        return box[0]

    for kind, ffi, lib in (("inline", u.abi_ffi, u.abi_lib), ("api", u.api_ffi, u.api_lib)):
        for ename, kw in (("default", {}), ("error", {"error": errval})):
            cb = ffi.callback("%s(void)" % t, ret, **kw)
            caller = getattr(lib, "call_cb_" + i)

            def call_cb(v, cb=cb, caller=caller):
                box[0] = v
                rec.value = sentinel
                try:
                    r = caller(cb)
                except Exception as e:
                    return e, None, rec.value
                return None, r, rec.value
            P.append(("callback_result/%s/%s" % (kind, ename), ("cb", kw.get("error", 0)), call_cb))

    # extern "Python": one C function, re-registered for the two error settings
    for ename, kw in (("default", {}), ("error", {"error": errval})):
        def call_ep(v, kw=kw):
            box[0] = v
            rec.value = sentinel
            try:
                r = getattr(u.api_lib, "call_ep_" + i)()
            except Exception as e:
                return e, None, rec.value
            return None, r, rec.value

        def arm(kw=kw):
            u.api_ffi.def_extern(name="ep_" + i, **kw)(ret)
        P.append(("extern_python_result/" + ename, ("cb", kw.get("error", 0), arm), call_ep))
    return P


def values_for(lo, hi, size, tier_quick):
    vals = set(cref.boundary_values(lo, hi))
    if not tier_quick:
        # the bounds of every other width, a dense band around every bound, every power of two up to 2^130
        for bits in (8, 16, 32, 64):
            for b in (-(1 << (bits - 1)), (1 << (bits - 1)) - 1, (1 << bits) - 1, 0):
                vals.update(range(b - 40, b + 41))
        for k in range(0, 131):
            for s in (1, -1):
                for d in (-1, 0, 1):
                    vals.add(s * (1 << k) + d)
        if size <= 2:
            vals.update(range(-(1 << 16) - 300, (1 << 16) + 301))
        else:
            vals.update(range(-3000, 3001))
    return sorted(vals)


def check_type(u, t, quick, only_path=None, only_values=None):
    """Run every path x value for one type.  Returns (ncases, histogram dict, nontrivial count, bad list)."""
    size, sg = u.facts[t]
    lo, hi = cref.int_range(size, sg, t == "_Bool")
    tc = type_class(t, size, sg)
    errval = 1 if t == "_Bool" else (hi - 41)
    vals = only_values if only_values is not None else values_for(lo, hi, size, quick)
    hist = {}
    bad = []
    n = nontriv = 0
    hook = Unraisable()
    old_hook = sys.unraisablehook
    sys.unraisablehook = hook

    def cnt(k, c=1):
        hist[k] = hist.get(k, 0) + c

    def viol(kind, path, v, **info):
        info.update(type=t, path=path, value=v, kind=kind)
        bad.append(({"kind": kind, "path": path, "type_class": tc, "value_class": value_class(v, lo, hi)}, info))

    try:
        for path, kind, fn in paths_for(u, t, errval):
            if only_path is not None and path != only_path:
                continue
            if isinstance(kind, tuple) and len(kind) == 3:
                kind[2]()                       # (re-)register the extern "Python" function
            kname = kind[0] if isinstance(kind, tuple) else kind
            for v in vals:
                ok_expected = lo <= v <= hi
                vc = value_class(v, lo, hi)
                if kname == "va" and not ok_expected:
                    cnt("vararg_cdata:not_applicable(out of range value cannot be held by a cdata)")
                    continue
                n += 1
                if not ok_expected or v in (lo, hi):
                    nontriv += 1
                cnt("%s:%s" % (tc, vc))
                res = fn(v)
                exc = res[0]
                if kname in ("cb",):
                    # the store is the conversion of the callback's result; the C caller observes it
                    err = kind[1]
                    want = v if ok_expected else err
                    cnt("%s:%s" % (path.split("/")[0], "result_passed" if ok_expected else "error_value"))
                    if exc is not None:
                        viol("callback-call-raised", path, v, error="%s: %s" % (type(exc).__name__, exc))
                        continue
                    if res[2] != want:
                        viol("callback-c-caller-received" + ("" if ok_expected else "-instead-of-error-value"),
                             path, v, received=res[2], expected=want, error_value=err)
                    elif res[1] != want:
                        viol("callback-result-readback", path, v, got=res[1], expected=want)
                    continue
                cnt("%s:%s" % (path.split("/")[0], "accept" if ok_expected else "reject"))
                if isinstance(exc, AttributeError) and path.startswith("global/"):
                    # the variable cannot even be reached through this library object: a different root
                    # cause than a wrong range check, classified separately
                    viol("variable-inaccessible", path, v, error="%s: %s" % (type(exc).__name__, exc))
                    continue
                if exc is not None and not isinstance(exc, OverflowError):
                    viol("wrong-exception", path, v, error="%s: %s" % (type(exc).__name__, exc))
                    continue
                if exc is None and not ok_expected:
                    viol("accepts-out-of-range", path, v, range=[lo, hi], readback=repr(res[1]))
                    continue
                if exc is not None and ok_expected:
                    viol("rejects-in-range", path, v, range=[lo, hi], error=str(exc))
                    continue
                if kname in ("call", "va"):
                    _, r, received, ncall = res
                    if exc is not None:
                        if ncall != 0 or received != (sentinel_of(sg)):
                            viol("rejected-but-called", path, v, received=received, calls=ncall)
                        continue
                    if ncall != 1:
                        viol("call-count", path, v, calls=ncall)
                    if received != v:
                        viol("c-received", path, v, received=received)
                    elif r != v:
                        viol("readback", path, v, got=r)
                    continue
                _, rb, img, off = res
                if exc is not None:
                    if img is not None and img != bytes([BG]) * len(img):
                        viol("rejected-but-modified", path, v, image=img.hex())
                    continue
                if rb != v:
                    viol("readback", path, v, got=repr(rb))
                bgb = BG
                if off is None:              # zero-initialised struct from ffi.new
                    off, bgb = GUARD, 0
                tgt = img[off:off + size]
                rest = img[:off] + img[off + size:]
                if tgt != encode(v, size):
                    viol("image", path, v, image=img.hex(), expected=encode(v, size).hex())
                if rest != bytes([bgb]) * len(rest):
                    viol("neighbour-modified", path, v, image=img.hex())
    finally:
        sys.unraisablehook = old_hook
    cnt("unraisable_reports_from_bad_callback_results", hook.n)
    return n, hist, nontriv, bad


def sentinel_of(sg):
    return -0x5A5A5A5A5A5A5A5B if sg else 0xA5A5A5A5A5A5A5A5


_U = None
_QUICK = True


def work(t):
    return check_type(_U[t], t, _QUICK)


def run(ctx):
    global _U, _QUICK
    types = all_types()
    facts = measure(types)
    _QUICK = ctx.quick
    ctx.log("building the universe modules for %d types" % len(types))
    # The generated module only instantiates cffi's conversion macros; the converters themselves live in the
    # backend, which is always built with the shipped flags.  The quick tier appends -O0 for the module (a third
    # of the compile time), the thorough tier uses exactly the flags a user's build gets.
    _U = build_universes(types, facts, "all", ["-O0"] if ctx.quick else [])
    ctx.log("universe built: one API-mode module, also opened in-line ABI, out-of-line ABI and by ctypes")
    # what cffi believes about the types must agree with gcc for the oracle to apply at all
    for t in types:
        u = _U[t]
        for kind, ffi in (("inline", u.abi_ffi), ("ool", u.ool_ffi), ("api", u.api_ffi)):
            if ffi.sizeof(t) != facts[t][0]:
                ctx.violation({"kind": "sizeof", "ffi": kind, "type_class": type_class(t, *facts[t])},
                              {"type": t, "kind": "sizeof", "cffi": ffi.sizeof(t), "gcc": facts[t][0]})
    total = nontrivial = 0
    npaths = None
    # thorough: the 1- and 2-byte types carry the long sweeps, start them first
    order = types if ctx.quick else sorted(types, key=lambda t: (facts[t][0], types.index(t)))
    results = {}
    # the quick tier is a few CPU-seconds of work: more than a handful of workers costs more than it saves
    for t, r in pool.pmap(work, [[t] for t in order], nproc=min(pool.NPROC, 4) if ctx.quick else None):
        if isinstance(r, pool.WorkerError):
            raise InfraError(r.tb)
        results[t] = r
    for t in types:                       # canonical order, smallest magnitude first: stable replay files
        r = results[t]
        if isinstance(r, pool.Crash):
            ctx.violation({"kind": "crash", "type_class": type_class(t, *facts[t])},
                          {"type": t, "kind": "crash", "how": r.describe()})
            continue
        n, hist, nt, bad = r
        total += n
        nontrivial += nt
        for k, c in hist.items():
            ctx.count(k, c)
        for sig, info in sorted(bad, key=lambda b: (abs(b[1]["value"]), b[1]["path"], b[1]["value"], b[1]["kind"])):
            ctx.violation(sig, info)
        size, sg = facts[t]
        lo, hi = cref.int_range(size, sg, t == "_Bool")
        ctx.sample({"type": t, "range": [lo, hi], "values": len(values_for(lo, hi, size, ctx.quick)),
                    "example_value": hi + 1})
    npaths = len(paths_for(_U["int"], "int", 1))
    cov = {
        "evaluations": total,
        "distinct_nontrivial": nontrivial,
        "types": len(types),
        "paths": npaths,
        "rule": "every integer type name in cffi's primitive table + _Bool + 4 enums (signed/unsigned x 4/8 bytes) x "
                "every store path x %s; the variadic-cdata path only for in-range values (a cdata cannot hold another); "
                "non-trivial = the expected outcome is rejection or v is exactly a range bound (distinct (type, path, "
                "value) triples)" % (
                    "B(T) = {lo-1,lo,lo+1,-2..2,hi-1,hi,hi+1} + {+-2^k, +-2^k+-1 : k in 7,8,15,16,31,32,63,64,65,127,128}"
                    " + {+-10^30}" if ctx.quick else
                    "B(T) + the bounds of every width +-40 + every +-2^k+-{0,1} for k<=130 + every integer in "
                    "[-2^16-300, 2^16+300] for 1- and 2-byte types and _Bool, [-3000,3000] for wider types"),
        "exhaustive": True,
        "bound": {"values": "B(T)" if ctx.quick else "B(T)+dense bands+full 17-bit sweep for small types"},
    }
    return ctx.finish(cov, [
        "gcc 12 on this machine measures sizeof/signedness of every type (including the enums); ranges follow from them",
        "ctypes reads the memory of the global variables and the value recorded by the C functions",
        "the globals are placed between two 8-byte guards with an assembler alias (g_T = w_T+8)",
        "the generated universe module is compiled with %s; the backend always with the shipped flags" % (
            "the default flags + -O0 (quick tier)" if ctx.quick else "the default flags of a user's build"),
        "little-endian two's complement byte images (sys.byteorder)"])


def replay(detail):
    t = detail["type"]
    if "path" not in detail:
        import cffi
        print("%s of %s: cffi %r" % (detail["kind"], t, detail.get("cffi", detail.get("how"))))
        if detail["kind"] == "sizeof":
            f = cffi.FFI()
            f.cdef("".join(ENUMS.values()))
            now = f.sizeof(t)
            print("now: cffi %d, gcc %d" % (now, measure([t])[t][0]))
            return 1 if now != measure([t])[t][0] else 0
        return 1
    types = [t]
    facts = measure(types)
    u = build_universes(types, facts, "replay")[t]
    n, hist, nt, bad = check_type(u, t, True, only_path=detail["path"], only_values=[detail["value"]])
    print("type %s (size %d, %s), path %s, value %d" % (t, facts[t][0], "signed" if facts[t][1] else "unsigned",
                                                          detail["path"], detail["value"]))
    for sig, info in bad:
        print("MISMATCH", info)
    if not bad:
        print("no mismatch")
    return 1 if bad else 0
