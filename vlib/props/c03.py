"""C03 -- integer stores accept exactly the type's range and round-trip.

E1: every integer type (standard, <stdint.h> names, _Bool, 4 enums) x every
store path (each separately implemented in cffi) x the boundary-complete value
set B(T).  One API-mode "universe" module is compiled per run; its shared
object is also dlopen()ed by an in-line and an out-of-line ABI-mode FFI and by
ctypes (which is how the reference side looks at memory and at the value a C
function received).

Oracle: accept iff lo <= v <= hi (range measured by gcc); accepted => read-back
== v, the target bytes hold v and the 8 bytes on either side (pre-filled 0xA5)
are untouched; rejected => OverflowError, all bytes untouched, the C function
was not called; a callback / extern "Python" function returning an
out-of-range value => the C caller receives the error= value (0 by default).

Families added after the audit (.cache/audit/C03.md), all with the same oracle:
  * onerror= handlers on ffi.callback / def_extern returning None, lo, hi, lo-1, hi+1 and hi+2**64 (the handler's
    result is a second integer store into the result slot; a rejected one leaves the error value there);
  * API-mode-only types whose size and signedness come from the C compiler: 8 "typedef int... T;" and 4 partial
    enums "enum e { A, ... };" whose hidden enumerators decide the base type;
  * slice assignment (list, tuple, iterator, through a pointer, and a two-item slice whose second item is rejected);
  * initializer container forms (struct from list/tuple, union from dict/list, array member, tuple and open-length
    array);
  * call-argument shapes (8th argument, fixed argument of a variadic function with and without extra arguments,
    list/tuple passed for a "T *" parameter);
  * error= values themselves (B(T): OverflowError iff out of range, else it is what C receives on failure);
  * value kinds: bool and an int subclass besides exact int.
"""
import contextlib
import ctypes
import importlib.util
import io
import os
import sys

from .. import build, cref, pool
from ..build import InfraError

ID = "C03"
LEVEL = "exploration"
META = dict(
    engine="E1-enum", level="exploration",
    technique="exhaustive enumeration of integer type x store path x boundary value set against gcc-measured ranges, "
              "memory images read through ctypes",
    text="All 46 integer types (10 standard, _Bool, 31 <stdint.h>/<stddef.h> names, 4 enums) x 110 store paths (new "
         "from a value / list / tuple / open-length array, struct and union initializers as dict / list / tuple incl. "
         "an array member, array item, p[i]=v, slice assignment from list / tuple / iterator / through a pointer / two "
         "items with a rejected second one, struct field, global variable and call argument through in-line ABI, "
         "out-of-line ABI and API mode, libffi call of an API function, 8th argument, fixed argument of a variadic "
         "function with and without extra arguments, list / tuple passed for a T* parameter, variadic cdata argument, "
         "ffi.callback and extern \"Python\" results without / with error= and with onerror= handlers returning None, "
         "lo, hi, lo-1, hi+1, hi+2^64, and the error= value itself), and 12 API-mode-only types whose size and "
         "signedness come from the C compiler (8 'typedef int... T', 4 partial enums) x their 48 API-mode paths, x "
         "B(T) (every range bound and its neighbours, +-2^k+-1 up to 2^128, +-10^30) as exact ints plus False/True "
         "and an int subclass at the bounds: acceptance iff in range, exact read-back, byte image, untouched "
         "neighbours, OverflowError on rejection, error value (or the handler's in-range replacement) on bad callback "
         "results.",
    note="gcc 12 on this machine measures every range; ctypes reads memory and the value received by C; little-endian "
         "two's complement images are derived from those measured sizes")

STD = ["signed char", "unsigned char", "short", "unsigned short", "int", "unsigned int",
       "long", "unsigned long", "long long", "unsigned long long"]

ENUMS = {
    "enum e_s4": "enum e_s4 { ES4_A = -5, ES4_B = 7 };",
    "enum e_u4": "enum e_u4 { EU4_A = 0, EU4_B = 7 };",
    "enum e_s8": "enum e_s8 { ES8_A = -5, ES8_B = 0x100000000 };",
    "enum e_u8": "enum e_u8 { EU8_A = 0, EU8_B = 0x100000000 };",
}

# Types that exist in API mode only: cffi learns size and signedness from the C compiler (_cffi_prim_int(),
# size_and_sign of partial enums), and _cffi_to_c_int() is instantiated with the user's type name.
# name -> (cdef text, C text).  What the cdef shows of the partial enums (one enumerator, value 0) would suggest
# 'unsigned int'; the hidden enumerators make them int / unsigned int / long / unsigned long.
APIDEFS = {}
for _bits, _n in ((8, 1), (16, 2), (32, 4), (64, 8)):
    APIDEFS["c03_s%d_t" % _n] = ("typedef int... c03_s%d_t;" % _n, "typedef int%d_t c03_s%d_t;" % (_bits, _n))
    APIDEFS["c03_u%d_t" % _n] = ("typedef int... c03_u%d_t;" % _n, "typedef uint%d_t c03_u%d_t;" % (_bits, _n))
APIDEFS.update({
    "enum pe_s4": ("enum pe_s4 { PES4_A, ... };", "enum pe_s4 { PES4_A, PES4_B = -5 };"),
    "enum pe_u4": ("enum pe_u4 { PEU4_A, ... };", "enum pe_u4 { PEU4_A, PEU4_B = 0x80000000 };"),
    "enum pe_s8": ("enum pe_s8 { PES8_A, ... };", "enum pe_s8 { PES8_A, PES8_B = -5, PES8_C = 0x100000000 };"),
    "enum pe_u8": ("enum pe_u8 { PEU8_A, ... };", "enum pe_u8 { PEU8_A, PEU8_C = 0x100000000 };"),
})

HEADERS = "#include <stdint.h>\n#include <stddef.h>\n#include <sys/types.h>\n#include <stdarg.h>\n"

BG = 0xA5
GUARD = 8

ALL_MODES = ("inline", "ool", "api")


def ident(t):
    return t.replace(" ", "_")


def modes_of(t):
    """The FFI kinds in which the type can be declared."""
    return ("api",) if t in APIDEFS else ALL_MODES


def all_types():
    """Every integer type name cffi accepts (taken from cffi's own table) + _Bool + enums.  (Also used by C04.)"""
    from cffi import model
    names = [n for n, k in model.PrimitiveType.ALL_PRIMITIVE_TYPES.items() if k == "i"]
    rest = sorted(n for n in names if n not in STD and n != "_Bool")
    for t in STD:
        if t not in names:
            raise InfraError("cffi does not list %r as an integer type" % t)
    return STD + ["_Bool"] + rest + sorted(ENUMS)


def api_only_types():
    return sorted(APIDEFS)


def c_defs(types):
    return "".join((ENUMS[t] if t in ENUMS else APIDEFS[t][1]) + "\n" for t in types if t in ENUMS or t in APIDEFS)


def cdef_defs(types, api):
    out = []
    for t in types:
        if t in ENUMS:
            out.append(ENUMS[t] + "\n")
        elif t in APIDEFS:
            if not api:
                raise InfraError("%r can only be declared in API mode" % t)
            out.append(APIDEFS[t][0] + "\n")
    return "".join(out)


def measure(types):
    """{type: (size, signed)} printed by gcc."""
    src = HEADERS + "#include <stdio.h>\n" + c_defs(types)
    src += "int main(void){\n"
    for t in types:
        src += 'printf("%%s|%%d|%%d\\n", "%s", (int)sizeof(%s), (int)(((%s)-1) < (%s)0));\n' % (t, t, t, t)
    src += "return 0;}\n"
    res = {}
    for line in cref.run_c(src).splitlines():
        n, s, sg = line.split("|")
        res[n] = (int(s), bool(int(sg)))
    return res


def c_source(types, facts):
    out = [HEADERS, c_defs(types)]
    for t in types:
        i = ident(t)
        size, sg = facts[t]
        wide = "long long" if sg else "unsigned long long"
        prom = "int" if (size < 4 or t == "_Bool") else t
        out.append("""
struct s_%(i)s { char pre[8]; %(t)s f; char post[8]; };
union u_%(i)s { %(t)s f; char c[16]; };
struct sa_%(i)s { char pre[8]; %(t)s a[1]; char post[8]; };
struct s_%(i)s w_%(i)s = {{0}};
extern %(t)s g_%(i)s;
__asm__(".globl g_%(i)s\\n\\t.set g_%(i)s, w_%(i)s+8\\n\\t.type g_%(i)s, @object\\n\\t.size g_%(i)s, %(size)d");
%(wide)s rec_%(i)s; int ncalls_%(i)s;
%(t)s id_%(i)s(%(t)s x) { rec_%(i)s = x; ncalls_%(i)s++; return x; }
%(t)s va_%(i)s(int n, ...) { va_list ap; %(prom)s x; va_start(ap, n); x = va_arg(ap, %(prom)s); va_end(ap);
    rec_%(i)s = (%(t)s)x; ncalls_%(i)s++; return (%(t)s)x; }
%(t)s call_cb_%(i)s(%(t)s (*cb)(void)) { %(t)s r = cb(); rec_%(i)s = r; return r; }
%(t)s last_%(i)s(int a1, int a2, int a3, int a4, int a5, int a6, int a7, %(t)s x) {
    rec_%(i)s = x; ncalls_%(i)s++; return x; }
%(t)s fx_%(i)s(%(t)s x, ...) { rec_%(i)s = x; ncalls_%(i)s++; return x; }
%(t)s first_%(i)s(%(t)s *p) { rec_%(i)s = p[0]; ncalls_%(i)s++; return p[0]; }
""" % dict(i=i, t=t, size=size, wide=wide, prom=prom))
    return "".join(out)


def c_source_api_extra(types):
    out = []
    for t in types:
        i = ident(t)
        out.append("static %(t)s ep_%(i)s(void);\n"
                   "%(t)s call_ep_%(i)s(void) { %(t)s r = ep_%(i)s(); rec_%(i)s = r; return r; }\n" % dict(i=i, t=t))
    return "".join(out)


def cdef_text(types, api):
    out = [cdef_defs(types, api)]
    for t in types:
        i = ident(t)
        out.append("struct s_%(i)s { char pre[8]; %(t)s f; char post[8]; };\n"
                   "union u_%(i)s { %(t)s f; char c[16]; };\n"
                   "struct sa_%(i)s { char pre[8]; %(t)s a[1]; char post[8]; };\n"
                   "extern %(t)s g_%(i)s;\n"
                   "%(t)s id_%(i)s(%(t)s);\n"
                   "%(t)s va_%(i)s(int, ...);\n"
                   "%(t)s call_cb_%(i)s(%(t)s (*)(void));\n"
                   "%(t)s last_%(i)s(int, int, int, int, int, int, int, %(t)s);\n"
                   "%(t)s fx_%(i)s(%(t)s, ...);\n"
                   "%(t)s first_%(i)s(%(t)s *);\n" % dict(i=i, t=t))
        if api:
            out.append('extern "Python" %(t)s ep_%(i)s(void);\n%(t)s call_ep_%(i)s(void);\n' % dict(i=i, t=t))
    return "".join(out)


def compile_universe(job):
    """Generate and compile one universe module.  job = (types, facts, tag, directory, extra compiler flags);
    returns what Universe needs.  The ABI-mode FFIs only see the types that can be declared there."""
    import cffi
    types, facts, tag, d, cflags = job
    os.makedirs(d, exist_ok=True)
    name = "_c03u_%s" % tag
    fb = cffi.FFI()
    fb.cdef(cdef_text(types, True))
    fb.set_source(name, c_source(types, facts) + c_source_api_extra(types), extra_compile_args=cflags)
    so = fb.compile(tmpdir=d)
    oname = "_c03o_%s" % tag
    fo = cffi.FFI()
    fo.cdef(cdef_text([t for t in types if t not in APIDEFS], False))
    fo.set_source(oname, None)
    opath = os.path.join(d, oname + ".py")
    with contextlib.redirect_stdout(io.StringIO()):     # cffi announces the file name on stdout
        fo.emit_python_code(opath)
    return (types, facts, name, so, oname, opath)


class Universe(object):
    """A compiled module and the four views on it (API lib, in-line ABI lib, out-of-line ABI lib, ctypes)."""

    def __init__(self, compiled):
        import cffi
        types, facts, name, so, oname, opath = compiled
        self.types = types
        self.facts = facts
        self.so = so
        mod = _import(name, so)
        self.api_ffi, self.api_lib = mod.ffi, mod.lib
        # in-line ABI
        self.abi_ffi = cffi.FFI()
        self.abi_ffi.cdef(cdef_text([t for t in types if t not in APIDEFS], False))
        self.abi_lib = self.abi_ffi.dlopen(so)
        # out-of-line ABI
        omod = _import(oname, opath)
        self.ool_ffi = omod.ffi
        self.ool_lib = omod.ffi.dlopen(so)
        self.cdll = ctypes.CDLL(so)

    def ffi_lib(self, mode):
        return {"inline": (self.abi_ffi, self.abi_lib), "ool": (self.ool_ffi, self.ool_lib),
                "api": (self.api_ffi, self.api_lib)}[mode]


def build_universes(types, facts, tag, cflags=()):
    """{type: Universe} (one module for all types: the fixed cost of a module build dominates)."""
    d = os.path.join(build.scratch_shared(), "c03_%s_%d" % (tag, os.getpid()))
    u = Universe(compile_universe((types, facts, "%s_%d" % (tag, os.getpid()), d, list(cflags))))
    return {t: u for t in types}


def _import(name, path):
    spec = importlib.util.spec_from_file_location(name, path)
    mod = importlib.util.module_from_spec(spec)
    spec.loader.exec_module(mod)
    sys.modules[name] = mod
    return mod


# ---------------------------------------------------------------------------------------

def type_class(t, size, sg):
    if t == "_Bool":
        return "bool"
    pre = ""
    if t in ENUMS:
        pre = "enum_"
    elif t in APIDEFS:
        pre = "partial_enum_" if t.startswith("enum ") else "apitypedef_"
    return pre + ("s" if sg else "u") + str(8 * size)


def value_class(v, lo, hi):
    if v < lo:
        return "below_lo_beyond64" if v < -(1 << 63) else "below_lo"
    if v > hi:
        return "above_hi_beyond64" if v >= (1 << 64) else ("above_hi_beyond63" if v >= (1 << 63) else "above_hi")
    return "at_bound" if v in (lo, hi) else "inside"


def encode(v, size):
    return (v & ((1 << (8 * size)) - 1)).to_bytes(size, sys.byteorder)


class IntSub(int):
    """A Python int that is not an exact int."""


def make_obj(vk, v):
    """The object handed to cffi for the value v of kind vk."""
    if vk == "int":
        return v
    if vk == "bool":
        return bool(v)
    if vk == "intsub":
        return IntSub(v)
    raise InfraError("unknown value kind %r" % (vk,))


class ReadError(object):
    """A read-back that raised: never equal to an int, printed with the exception."""

    def __init__(self, e):
        self.text = "%s: %s" % (type(e).__name__, e)

    def __repr__(self):
        return "<read-back raised %s>" % self.text


def _rd(f):
    try:
        return f()
    except Exception as e:
        return ReadError(e)


class Unraisable(object):
    def __init__(self):
        self.n = 0

    def __call__(self, *a):
        self.n += 1


ZERO = "zero"      # image background of a fresh ffi.new() object
SLICE_FIRST = 1    # the accepted first item of the two-item slice stores (in every type's range)


def paths_for(u, t, errval):
    """Return [(path name, kind, fn, opts)].

    kind 'mem': fn(v) performs the store on a location whose surroundings are observable and returns
        (exc or None, readback or None, image bytes of guard+target+guard or None, where[, complaint])
        where = offset of the target in an image pre-filled with BG, or (offset, ZERO) for a zero background;
        complaint = None or a text about memory outside the image (two-item slices)
    kind 'new': fn(v) allocates with an initializer and returns (exc, readback, image, where)
    kind 'call': fn(v) -> (exc, result, received by C, number of calls made)
    kind 'va': like 'call', v travels inside a cdata (in-range values only)
    kind 'cb': fn(v) -> (exc, result seen by python caller, value received by the C caller); opts: err = the
        error value, repl = what the onerror handler returns (absent: no handler), arm = function to call first
    kind 'cberr': fn(v) creates a callback with error=v whose function fails, calls it from C and returns
        (exc of the creation, result, value received by the C caller)
    """
    i = ident(t)
    size, sg = u.facts[t]
    lo, hi = cref.int_range(size, sg, t == "_Bool")
    P = []
    fill = bytes([BG])
    img_len = 2 * GUARD + size
    modes = modes_of(t)

    def add(name, kind, fn, **opts):
        P.append((name, kind, fn, opts))

    def mk_new(ffi, ctype, init, read, where):
        def new(v):
            try:
                p = ffi.new(ctype, init(v))
            except Exception as e:
                return e, None, None, where
            return None, _rd(lambda: read(p)), bytes(ffi.buffer(p)), where
        return new

    for kind in modes:
        ffi = u.ffi_lib(kind)[0]
        s_ = "struct s_%s *" % i
        sa_ = "struct sa_%s *" % i
        u_ = "union u_%s *" % i
        item0 = lambda p: p[0]
        fld = lambda p: p.f
        for name, ctype, init, read, where in (
                ("new_ptr", t + " *", lambda v: v, item0, 0),
                ("new_array", t + "[1]", lambda v: [v], item0, 0),
                ("new_struct", s_, lambda v: {"f": v}, fld, (GUARD, ZERO)),
                # container forms of the initializer: each is a separate branch of convert_struct_from_object /
                # convert_array_from_object
                ("new_array_tuple", t + "[1]", lambda v: (v,), item0, 0),
                ("new_array_open", t + "[]", lambda v: [v], item0, 0),
                ("new_struct_list", s_, lambda v: [b"", v], fld, (GUARD, ZERO)),
                ("new_struct_tuple", s_, lambda v: (b"", v), fld, (GUARD, ZERO)),
                ("new_union_dict", u_, lambda v: {"f": v}, fld, (0, ZERO)),
                ("new_union_list", u_, lambda v: [v], fld, (0, ZERO)),
                ("new_structarr_dict", sa_, lambda v: {"a": [v]}, lambda p: p.a[0], (GUARD, ZERO)),
                ("new_structarr_list", sa_, lambda v: [b"", [v]], lambda p: p.a[0], (GUARD, ZERO))):
            add("%s/%s" % (name, kind), "new", mk_new(ffi, ctype, init, read, where))

        g = GUARD // size
        arr = ffi.new(t + "[]", 2 * g + 1)
        abuf = ffi.buffer(arr)
        ptr = ffi.cast(t + " *", arr) + g

        def mk_mem(store, read, abuf=abuf):
            def mem(v):
                abuf[:] = fill * len(abuf)
                try:
                    store(v)
                except Exception as e:
                    return e, None, bytes(abuf), GUARD
                return None, _rd(read), bytes(abuf), GUARD
            return mem

        def st_item(v, arr=arr, g=g):
            arr[g] = v

        def st_deref(v, ptr=ptr):
            ptr[0] = v

        def st_slice_list(v, arr=arr, g=g):
            arr[g:g + 1] = [v]

        def st_slice_tuple(v, arr=arr, g=g):
            arr[g:g + 1] = (v,)

        def st_slice_iter(v, arr=arr, g=g):
            arr[g:g + 1] = iter([v])

        def st_slice_ptr(v, ptr=ptr):
            ptr[0:1] = [v]

        rd_item = lambda arr=arr, g=g: arr[g]
        rd_ptr = lambda ptr=ptr: ptr[0]
        add("setitem/" + kind, "mem", mk_mem(st_item, rd_item))
        add("deref/" + kind, "mem", mk_mem(st_deref, rd_ptr))
        add("setslice_list/" + kind, "mem", mk_mem(st_slice_list, rd_item))
        add("setslice_tuple/" + kind, "mem", mk_mem(st_slice_tuple, rd_item))
        add("setslice_iter/" + kind, "mem", mk_mem(st_slice_iter, rd_item))
        add("setslice_ptr/" + kind, "mem", mk_mem(st_slice_ptr, rd_ptr))

        # two-item slice [accepted, v]: the judged target is the second item.  The first item may or may not have
        # been written when the second is rejected (the statement is silent on the order), but it must hold either
        # its old bytes or the accepted value, and it is cut out of the image that the common oracle sees.
        arr2 = ffi.new(t + "[]", 2 * g + 2)
        abuf2 = ffi.buffer(arr2)

        def slice_pair(v, arr2=arr2, abuf2=abuf2, g=g):
            abuf2[:] = fill * len(abuf2)
            exc = rb = None
            try:
                arr2[g:g + 2] = [SLICE_FIRST, v]
            except Exception as e:
                exc = e
            else:
                rb = _rd(lambda: arr2[g + 1])
            whole = bytes(abuf2)
            first = whole[GUARD:GUARD + size]
            allowed = [encode(SLICE_FIRST, size)] + ([fill * size] if exc is not None else [])
            complaint = None if first in allowed else "first item holds %s" % first.hex()
            return exc, rb, whole[:GUARD] + whole[GUARD + size:], GUARD, complaint
        add("setslice_pair/" + kind, "mem", slice_pair)

        st = ffi.new("struct s_%s *" % i)
        sbuf = ffi.buffer(st)
        if len(sbuf) != img_len:
            raise InfraError("struct s_%s has size %d, expected %d" % (i, len(sbuf), img_len))

        def st_field(v, st=st):
            st.f = v
        add("field/" + kind, "mem", mk_mem(st_field, lambda st=st: st.f, abuf=sbuf))

    wimg = (ctypes.c_ubyte * img_len).in_dll(u.cdll, "w_" + i)
    waddr = ctypes.addressof(wimg)
    recty = ctypes.c_longlong if sg else ctypes.c_ulonglong
    rec = recty.in_dll(u.cdll, "rec_" + i)
    ncalls = ctypes.c_int.in_dll(u.cdll, "ncalls_" + i)
    sentinel = sentinel_of(sg)

    for kind in modes:
        lib = u.ffi_lib(kind)[1]

        def glob(v, lib=lib):
            ctypes.memset(waddr, BG, img_len)
            try:
                setattr(lib, "g_" + i, v)
            except Exception as e:
                return e, None, bytes(wimg), GUARD
            return None, _rd(lambda: getattr(lib, "g_" + i)), bytes(wimg), GUARD
        add("global/" + kind, "mem", glob)

    def mk_call(f):
        def call(v):
            rec.value = sentinel
            n0 = ncalls.value
            try:
                r = f(v)
            except Exception as e:
                return e, None, rec.value, ncalls.value - n0
            return None, r, rec.value, ncalls.value - n0
        return call

    def fns(name):
        """[(mode label, callable)] of one C function: the library attribute in each mode and addressof() of it."""
        out = []
        for kind in modes:
            ffi, lib = u.ffi_lib(kind)
            out.append((kind, getattr(lib, name)))
            if kind in ("api", "inline"):
                out.append((kind + "_addressof", ffi.addressof(lib, name)))
        order = ["api", "api_addressof", "inline", "ool", "inline_addressof"]
        return sorted(out, key=lambda e: order.index(e[0]))

    for kind, f in fns("id_" + i):
        add("arg/" + kind, "call", mk_call(f))

    for kind in modes:
        if kind == "ool":
            continue
        ffi, lib = u.ffi_lib(kind)
        vf = getattr(lib, "va_" + i)
        add("vararg_cdata/" + kind, "va", mk_call(lambda v, ffi=ffi, vf=vf: vf(1, ffi.cast(t, v))))

    # argument shapes: 8th argument (on the stack for libffi; PyArg_UnpackTuple + per-argument conversion in the
    # API wrapper), the declared argument of a variadic function (per-call cif; libffi also in API mode)
    for kind, f in fns("last_" + i):
        if kind != "inline_addressof":
            add("arg_last/" + kind, "call", mk_call(lambda v, f=f: f(1, 2, 3, 4, 5, 6, 7, v)))
    for kind in modes:
        ffi, lib = u.ffi_lib(kind)
        f = getattr(lib, "fx_" + i)
        extra = ffi.cast("int", 3)
        add("arg_fixed_of_variadic/%s/no_extra" % kind, "call", mk_call(f))
        add("arg_fixed_of_variadic/%s/one_extra" % kind, "call", mk_call(lambda v, f=f, extra=extra: f(v, extra)))
    # a list / tuple passed for a 'T *' parameter: v is stored into a temporary T[1]
    for kind, f in fns("first_" + i):
        if kind != "inline_addressof":
            add("ptrarg_list/" + kind, "call", mk_call(lambda v, f=f: f([v])))
        if kind in ("api", "inline"):
            add("ptrarg_tuple/" + kind, "call", mk_call(lambda v, f=f: f((v,))))

    box = [0]
    hbox = [None, 0]

    def ret():
        return box[0]

    def handler(exc, val, tb):
        hbox[1] += 1
        return hbox[0]

    # (variant name, keywords, value returned by the onerror handler); hi + 2**64 is congruent to hi: a handler
    # result stored without a range check would arrive as hi
    variants = [("default", {}, ()), ("error", {"error": errval}, ())]
    for hname, repl in (("onerror_none", None), ("onerror_lo", lo), ("onerror_hi", hi), ("onerror_below", lo - 1),
                        ("onerror_above", hi + 1), ("onerror_wrap64", hi + (1 << 64))):
        variants.append((hname, {"error": errval, "onerror": handler}, (repl,)))

    cb_modes = [m for m in modes if m != "ool"]
    for kind in cb_modes:
        ffi, lib = u.ffi_lib(kind)
        for ename, kw, repl in variants:
            caller = getattr(lib, "call_cb_" + i)

            def call_cb(v, ffi=ffi, kw=kw, caller=caller, repl=repl, cell=[]):
                box[0] = v
                hbox[0] = repl[0] if repl else None
                rec.value = sentinel
                try:
                    if not cell:        # created on first use: a refused (in-range) error= value is a finding
                        cell.append(ffi.callback("%s(void)" % t, ret, **kw))
                    r = caller(cell[0])
                except Exception as e:
                    return e, None, rec.value
                return None, r, rec.value
            add("callback_result/%s/%s" % (kind, ename), "cb", call_cb, err=kw.get("error", 0),
                **({"repl": repl[0]} if repl else {}))

    # extern "Python": one C function, re-registered for each setting
    def call_ep():
        rec.value = sentinel
        try:
            r = getattr(u.api_lib, "call_ep_" + i)()
        except Exception as e:
            return e, None, rec.value
        return None, r, rec.value

    for ename, kw, repl in variants:
        def run_ep(v, repl=repl):
            box[0] = v
            hbox[0] = repl[0] if repl else None
            return call_ep()

        def arm(kw=kw):
            u.api_ffi.def_extern(name="ep_" + i, **kw)(ret)
        add("extern_python_result/" + ename, "cb", run_ep, err=kw.get("error", 0), arm=arm,
            **({"repl": repl[0]} if repl else {}))

    # the error= value itself is an integer store into a T result slot; the function fails by returning hi+1
    def ret_bad():
        return hi + 1

    for kind in cb_modes:
        ffi, lib = u.ffi_lib(kind)
        caller = getattr(lib, "call_cb_" + i)

        def cb_error_value(v, ffi=ffi, caller=caller):
            rec.value = sentinel
            try:
                cb = ffi.callback("%s(void)" % t, ret_bad, error=v)
            except Exception as e:
                return e, None, rec.value
            r = _rd(lambda: caller(cb))
            return None, r, rec.value
        add("callback_error_value/" + kind, "cberr", cb_error_value)

    def ep_error_value(v):
        rec.value = sentinel
        try:
            u.api_ffi.def_extern(name="ep_" + i, error=v)(ret_bad)
        except Exception as e:
            return e, None, rec.value
        e, r, received = call_ep()
        return None, (r if e is None else ReadError(e)), received
    add("extern_python_error_value", "cberr", ep_error_value,
        arm=lambda: u.api_ffi.def_extern(name="ep_" + i)(ret_bad))
    return P


def values_for(lo, hi, size, tier_quick):
    vals = set(cref.boundary_values(lo, hi))
    if not tier_quick:
        # the bounds of every other width, a dense band around every bound, every power of two up to 2^130
        for bits in (8, 16, 32, 64):
            for b in (-(1 << (bits - 1)), (1 << (bits - 1)) - 1, (1 << bits) - 1, 0):
                vals.update(range(b - 40, b + 41))
        for k in range(0, 131):
            for s in (1, -1):
                for d in (-1, 0, 1):
                    vals.add(s * (1 << k) + d)
        if size <= 2:
            vals.update(range(-(1 << 16) - 300, (1 << 16) + 301))
        else:
            vals.update(range(-3000, 3001))
    return sorted(vals)


def cases_for(lo, hi, size, tier_quick):
    """[(value kind, value)]: every value as an exact int; False/True and an int subclass at the bounds."""
    out = [("int", v) for v in values_for(lo, hi, size, tier_quick)]
    out += [("bool", 0), ("bool", 1)]
    out += [("intsub", v) for v in sorted({lo - 1, lo, 0, 1, hi, hi + 1, hi + (1 << 64)})]
    return out


def check_type(u, t, quick, only_path=None, only_values=None):
    """Run every path x value for one type.  Returns (ncases, histogram dict, nontrivial count, bad list)."""
    size, sg = u.facts[t]
    lo, hi = cref.int_range(size, sg, t == "_Bool")
    tc = type_class(t, size, sg)
    errval = 1 if t == "_Bool" else (hi - 41)
    vals = only_values if only_values is not None else cases_for(lo, hi, size, quick)
    hist = {}
    bad = []
    n = nontriv = 0
    hook = Unraisable()
    old_hook = sys.unraisablehook
    sys.unraisablehook = hook

    def cnt(k, c=1):
        hist[k] = hist.get(k, 0) + c

    def viol(kind, path, vk, v, **info):
        info.update(type=t, path=path, value=v, value_kind=vk, kind=kind)
        sig = {"kind": kind, "path": path, "type_class": tc, "value_class": value_class(v, lo, hi)}
        if vk != "int":
            sig["value_kind"] = vk
        bad.append((sig, info))

    try:
        for path, kname, fn, opts in paths_for(u, t, errval):
            if only_path is not None and path != only_path:
                continue
            if "arm" in opts:
                try:
                    opts["arm"]()                   # (re-)register the extern "Python" function
                except Exception as e:
                    viol("extern-python-registration-raised", path, "int", errval,
                         error="%s: %s" % (type(e).__name__, e))
                    continue
            family = path.split("/")[0]
            for vk, v in vals:
                ok_expected = lo <= v <= hi
                vc = value_class(v, lo, hi)
                if kname == "va" and not ok_expected:
                    cnt("vararg_cdata:not_applicable(out of range value cannot be held by a cdata)")
                    continue
                n += 1
                if not ok_expected or v in (lo, hi):
                    nontriv += 1
                cnt("%s:%s" % (tc, vc))
                if vk != "int":
                    cnt("value_kind=%s:%s" % (vk, "accept" if ok_expected else "reject"))
                res = fn(make_obj(vk, v))
                exc = res[0]
                if kname == "cb":
                    # the store is the conversion of the callback's result; the C caller observes it
                    err = opts["err"]
                    if ok_expected:
                        want, how = v, "result_passed"
                    elif "repl" not in opts:
                        want, how = err, "error_value"
                    else:
                        # the onerror handler ran: None keeps the error value, an int replaces it iff it fits
                        # (its conversion is one more store into the result slot, rejected => slot unchanged)
                        repl = opts["repl"]
                        if repl is not None and lo <= repl <= hi:
                            want, how = repl, "onerror_value_passed"
                        else:
                            want, how = err, ("error_value_after_onerror_none" if repl is None else
                                              "error_value_after_onerror_value_rejected")
                    cnt("%s:%s" % (family, how))
                    if exc is not None:
                        viol("callback-call-raised", path, vk, v, error="%s: %s" % (type(exc).__name__, exc))
                        continue
                    if res[2] != want:
                        viol("callback-c-caller-received" + ("" if ok_expected else "-instead-of-error-value"),
                             path, vk, v, received=res[2], expected=want, error_value=err,
                             **({"onerror_returns": opts["repl"]} if "repl" in opts else {}))
                    elif res[1] != want:
                        viol("callback-result-readback", path, vk, v, got=repr(res[1]), expected=want)
                    continue
                cnt("%s:%s" % (family, "accept" if ok_expected else "reject"))
                if isinstance(exc, AttributeError) and path.startswith("global/"):
                    # the variable cannot even be reached through this library object: a different root
                    # cause than a wrong range check, classified separately
                    viol("variable-inaccessible", path, vk, v, error="%s: %s" % (type(exc).__name__, exc))
                    continue
                if exc is not None and not isinstance(exc, OverflowError):
                    viol("wrong-exception", path, vk, v, error="%s: %s" % (type(exc).__name__, exc))
                    continue
                if exc is None and not ok_expected:
                    viol("accepts-out-of-range", path, vk, v, range=[lo, hi], readback=repr(res[1]))
                    continue
                if exc is not None and ok_expected:
                    viol("rejects-in-range", path, vk, v, range=[lo, hi], error=str(exc))
                    continue
                if kname == "cberr":
                    if exc is None:
                        # accepted error value: it is what the C caller gets when the function's result is bad
                        if res[2] != v:
                            viol("error-value-c-caller-received", path, vk, v, received=res[2])
                        elif res[1] != v:
                            viol("error-value-readback", path, vk, v, got=repr(res[1]))
                    continue
                if kname in ("call", "va"):
                    _, r, received, ncall = res
                    if exc is not None:
                        if ncall != 0 or received != (sentinel_of(sg)):
                            viol("rejected-but-called", path, vk, v, received=received, calls=ncall)
                        continue
                    if ncall != 1:
                        viol("call-count", path, vk, v, calls=ncall)
                    if received != v:
                        viol("c-received", path, vk, v, received=received)
                    elif r != v:
                        viol("readback", path, vk, v, got=r)
                    continue
                _, rb, img, where = res[:4]
                if len(res) > 4 and res[4] is not None:
                    viol("slice-first-item", path, vk, v, problem=res[4])
                if exc is not None:
                    if img is not None and img != bytes([BG]) * len(img):
                        viol("rejected-but-modified", path, vk, v, image=img.hex())
                    continue
                if rb != v:
                    viol("readback", path, vk, v, got=repr(rb))
                bgb = BG
                off = where
                if isinstance(where, tuple):              # zero-initialised object from ffi.new
                    off, bgb = where[0], 0
                tgt = img[off:off + size]
                rest = img[:off] + img[off + size:]
                if tgt != encode(v, size):
                    viol("image", path, vk, v, image=img.hex(), expected=encode(v, size).hex())
                if rest != bytes([bgb]) * len(rest):
                    viol("neighbour-modified", path, vk, v, image=img.hex())
    finally:
        sys.unraisablehook = old_hook
    cnt("unraisable_reports_from_bad_callback_results", hook.n)
    return n, hist, nontriv, bad


def sentinel_of(sg):
    return -0x5A5A5A5A5A5A5A5B if sg else 0xA5A5A5A5A5A5A5A5


_U = None
_QUICK = True


def work(t):
    return check_type(_U[t], t, _QUICK)


def run(ctx):
    global _U, _QUICK
    std_types = all_types()
    types = std_types + api_only_types()
    facts = measure(types)
    _QUICK = ctx.quick
    ctx.log("building the universe modules for %d types" % len(types))
    # The generated module only instantiates cffi's conversion macros; the converters themselves live in the
    # backend, which is always built with the shipped flags.  The quick tier appends -O0 for the module (a third
    # of the compile time), the thorough tier uses exactly the flags a user's build gets.
    _U = build_universes(types, facts, "all", ["-O0"] if ctx.quick else [])
    ctx.log("universe built: one API-mode module, also opened in-line ABI, out-of-line ABI and by ctypes")
    # what cffi believes about the types must agree with gcc for the oracle to apply at all
    for t in types:
        u = _U[t]
        for kind in modes_of(t):
            ffi = u.ffi_lib(kind)[0]
            if ffi.sizeof(t) != facts[t][0]:
                ctx.violation({"kind": "sizeof", "ffi": kind, "type_class": type_class(t, *facts[t])},
                              {"type": t, "kind": "sizeof", "cffi": ffi.sizeof(t), "gcc": facts[t][0]})
            elif t != "_Bool" and (int(ffi.cast(t, -1)) < 0) != facts[t][1]:
                ctx.violation({"kind": "signedness", "ffi": kind, "type_class": type_class(t, *facts[t])},
                              {"type": t, "kind": "signedness", "cffi": int(ffi.cast(t, -1)) < 0, "gcc": facts[t][1]})
    total = nontrivial = 0
    # thorough: the 1- and 2-byte types carry the long sweeps, start them first
    order = types if ctx.quick else sorted(types, key=lambda t: (facts[t][0], types.index(t)))
    results = {}
    # the quick tier is a few CPU-seconds of work: more than a handful of workers costs more than it saves
    for t, r in pool.pmap(work, [[t] for t in order], nproc=min(pool.NPROC, 6) if ctx.quick else None):
        if isinstance(r, pool.WorkerError):
            raise InfraError(r.tb)
        results[t] = r
    for t in types:                       # canonical order, smallest magnitude first: stable replay files
        r = results[t]
        if isinstance(r, pool.Crash):
            ctx.violation({"kind": "crash", "type_class": type_class(t, *facts[t])},
                          {"type": t, "kind": "crash", "how": r.describe()})
            continue
        n, hist, nt, bad = r
        total += n
        nontrivial += nt
        for k, c in hist.items():
            ctx.count(k, c)
        for sig, info in sorted(bad, key=lambda b: (abs(b[1]["value"]), b[1]["path"], b[1]["value"],
                                                     b[1]["value_kind"], b[1]["kind"])):
            ctx.violation(sig, info)
        size, sg = facts[t]
        lo, hi = cref.int_range(size, sg, t == "_Bool")
        ctx.sample({"type": t, "range": [lo, hi], "values": len(cases_for(lo, hi, size, ctx.quick)),
                    "example_value": hi + 1})
    npaths = len(paths_for(_U["int"], "int", 1))
    npaths_api = len(paths_for(_U["c03_s2_t"], "c03_s2_t", 1))
    cov = {
        "evaluations": total,
        "distinct_nontrivial": nontrivial,
        "types": len(types),
        "paths": npaths,
        "paths_of_api_only_types": npaths_api,
        "rule": "every integer type name in cffi's primitive table + _Bool + 4 enums (signed/unsigned x 4/8 bytes) x "
                "every store path (%d), and 8 'typedef int... T' + 4 partial enums x every API-mode store path (%d), x "
                "%s, each as an exact int, plus False/True and an int subclass at {lo-1, lo, 0, 1, hi, hi+1, hi+2^64}; "
                "store paths include slice assignment (list, tuple, iterator, pointer, two-item with rejected second "
                "item), initializer container forms (array tuple/open length, struct list/tuple, union dict/list, "
                "array member dict/list), argument shapes (8th argument, fixed argument of a variadic function "
                "with/without extra arguments, list/tuple for a T* parameter), callback / extern \"Python\" results "
                "with onerror handlers returning None, lo, hi, lo-1, hi+1, hi+2^64, and error= values themselves; "
                "the variadic-cdata path only for in-range values (a cdata cannot hold another); "
                "non-trivial = the expected outcome is rejection or v is exactly a range bound (distinct (type, path, "
                "value kind, value) tuples)" % (
                    npaths, npaths_api,
                    "B(T) = {lo-1,lo,lo+1,-2..2,hi-1,hi,hi+1} + {+-2^k, +-2^k+-1 : k in 7,8,15,16,31,32,63,64,65,127,128}"
                    " + {+-10^30}" if ctx.quick else
                    "B(T) + the bounds of every width +-40 + every +-2^k+-{0,1} for k<=130 + every integer in "
                    "[-2^16-300, 2^16+300] for 1- and 2-byte types and _Bool, [-3000,3000] for wider types"),
        "exhaustive": True,
        "bound": {"values": "B(T)" if ctx.quick else "B(T)+dense bands+full 17-bit sweep for small types"},
    }
    return ctx.finish(cov, [
        "gcc 12 on this machine measures sizeof/signedness of every type (including the enums and the C side of the "
        "'typedef int...' / partial enum types); ranges follow from them",
        "ctypes reads the memory of the global variables and the value recorded by the C functions",
        "the globals are placed between two 8-byte guards with an assembler alias (g_T = w_T+8)",
        "the generated universe module is compiled with %s; the backend always with the shipped flags" % (
            "the default flags + -O0 (quick tier)" if ctx.quick else "the default flags of a user's build"),
        "little-endian two's complement byte images (sys.byteorder)",
        "when the second item of a two-item slice store is rejected, the first item may hold either its old bytes or "
        "the accepted value (the statement does not fix the order)",
        "an onerror handler's int result is judged as one more store into the result slot: it replaces the error "
        "value iff it is in range"])


def replay(detail):
    t = detail["type"]
    if "path" not in detail:
        import cffi
        print("%s of %s: cffi %r" % (detail["kind"], t, detail.get("cffi", detail.get("how"))))
        if detail["kind"] == "sizeof" and t not in APIDEFS:
            f = cffi.FFI()
            f.cdef("".join(ENUMS.values()))
            now = f.sizeof(t)
            print("now: cffi %d, gcc %d" % (now, measure([t])[t][0]))
            return 1 if now != measure([t])[t][0] else 0
        if detail["kind"] == "sizeof":
            facts = measure([t])
            now = build_universes([t], facts, "replay")[t].api_ffi.sizeof(t)
            print("now: cffi %d, gcc %d" % (now, facts[t][0]))
            return 1 if now != facts[t][0] else 0
        if detail["kind"] == "signedness":
            facts = measure([t])
            u = build_universes([t], facts, "replay")[t]
            now = [int(u.ffi_lib(m)[0].cast(t, -1)) < 0 for m in modes_of(t)]
            print("now: cffi signed=%r, gcc signed=%r" % (now, facts[t][1]))
            return 1 if any(x != facts[t][1] for x in now) else 0
        return 1
    types = [t]
    facts = measure(types)
    u = build_universes(types, facts, "replay")[t]
    vk = detail.get("value_kind", "int")
    n, hist, nt, bad = check_type(u, t, True, only_path=detail["path"], only_values=[(vk, detail["value"])])
    print("type %s (size %d, %s), path %s, value %d (%s)" % (t, facts[t][0], "signed" if facts[t][1] else "unsigned",
                                                               detail["path"], detail["value"], vk))
    for sig, info in bad:
        print("MISMATCH", info)
    if not bad:
        print("no mismatch")
    return 1 if bad else 0
