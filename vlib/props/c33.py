"""C33 -- verify() produces the same library behaviour as set_source().

E1: a declaration alphabet restricted to what verify() supports (20 items);
programs = every singleton, every unordered pair (thorough) and the universe
of all items.  Every program is built three ways -- set_source()+compile(),
verify() with the CPython engine, verify() with the generic engine -- and a
fixed list of probes (calls over a boundary / wrong-type argument alphabet,
global reads and writes, constants, layouts) is executed on each; the three
observation lists must be equal (exception TYPE compared, never the message).
"""
import importlib.util
import itertools
import os
import sys
import warnings

from .. import build, cref, pool
from ..build import InfraError
from . import _c33_items as IT

ID = "C33"
LEVEL = "exploration"
META = dict(
    engine="E1-enum", level="exploration",
    technique="differential execution of three builders (set_source, verify/CPython engine, verify/generic engine) over "
              "all singletons, all pairs and the union of a 20-item declaration alphabet, with boundary and wrong-type "
              "argument alphabets",
    text="Every program (singletons; thorough: all 190 pairs; the universe of all items) is compiled three ways and "
         "every function is called over boundary-complete and wrong-type arguments, every global read/written, every "
         "constant and layout read; outcomes (value with its type, or exception type) must be identical across the "
         "three builds.",
    note="differential: set_source() is the reference the statement names; pointer values are compared through what "
         "they point to, never as addresses; exception messages are not compared")

CFLAGS = ["-O0", "-g0", "-w"]
BUILDERS = ("set_source", "verify_cpy", "verify_gen")
G = {}
_counter = itertools.count()


class _Quiet(object):
    def __enter__(self):
        sys.stdout.flush()
        sys.stderr.flush()
        self.saved = (os.dup(1), os.dup(2))
        nul = os.open(os.devnull, os.O_WRONLY)
        os.dup2(nul, 1)
        os.dup2(nul, 2)
        os.close(nul)

    def __exit__(self, *a):
        sys.stdout.flush()
        sys.stderr.flush()
        os.dup2(self.saved[0], 1)
        os.dup2(self.saved[1], 2)
        os.close(self.saved[0])
        os.close(self.saved[1])


def program_text(keys):
    cdef = "".join(IT.ITEM[k]["cdef"] for k in keys)
    src = IT.PRELUDE + "".join(IT.ITEM[k]["src"] for k in keys)
    return cdef, src


def build_one(keys, builder):
    """Returns (ffi, lib)."""
    import cffi
    cdef, src = program_text(keys)
    n = next(_counter)
    tmp = os.path.join(build.scratch(), "c33_%d_%d" % (os.getpid(), n))
    ffi = cffi.FFI()
    with _Quiet(), warnings.catch_warnings():
        warnings.simplefilter("ignore")
        ffi.cdef(cdef)
        if builder == "set_source":
            name = "c33s_%d_%d" % (os.getpid(), n)
            ffi.set_source(name, src, extra_compile_args=CFLAGS)
            path = ffi.compile(tmpdir=tmp)
            spec = importlib.util.spec_from_file_location(name, path)
            m = importlib.util.module_from_spec(spec)
            spec.loader.exec_module(m)
            return m.ffi, m.lib
        os.makedirs(tmp, exist_ok=True)
        lib = ffi.verify(src, tmpdir=tmp, force_generic_engine=(builder == "verify_gen"),
                         extra_compile_args=CFLAGS)
        return ffi, lib


def work(job):
    keys, builder = job
    try:
        ffi, lib = build_one(keys, builder)
    except Exception as e:
        return {"__build__": ("exc", type(e).__name__, str(e)[:300])}
    obs = {"__build__": "ok"}
    with warnings.catch_warnings():
        warnings.simplefilter("ignore")
        for k in keys:
            P = IT.Probe(ffi, lib, k, obs, G["intfacts"])
            IT.ITEM[k]["probe"](P)
    return obs


def programs(quick):
    keys = [it["key"] for it in IT.ITEMS]
    progs = [(k,) for k in keys]
    if not quick:
        progs += list(itertools.combinations(keys, 2))
    progs.append(tuple(keys))
    return progs


def classify(label):
    # label = item|kind|detail
    p = label.split("|")
    return p[0], (p[1] if len(p) > 1 else "build")


def compare(ctx, prog, res):
    """res: {builder: obs}.  Reports differences against set_source."""
    ref = res["set_source"]
    ndiff = 0
    if ref.get("__build__") != "ok":
        raise InfraError("set_source() cannot build program %r: %r" % (prog, ref.get("__build__")))
    for b in BUILDERS[1:]:
        o = res[b]
        if o.get("__build__") != "ok":
            ctx.violation({"kind": "build-differs", "builder": b, "items": list(prog) if len(prog) < 3 else "universe"},
                          {"program": list(prog), "builder": b, "label": "__build__", "set_source": "ok",
                           "other": o.get("__build__")})
            ndiff += 1
            continue
        labels = list(ref)
        for extra in o:
            if extra not in ref:
                labels.append(extra)
        for lab in labels:
            a, c = ref.get(lab, "<no observation>"), o.get(lab, "<no observation>")
            if a != c:
                item, kind = classify(lab)
                oc = "exc-vs-value" if (IT.is_exc(a) != IT.is_exc(c)) else ("exc-type" if IT.is_exc(a) else "value")
                ctx.violation({"kind": "differs", "builder": b, "what": IT.sig_class(lab), "probe": kind, "how": oc},
                              {"program": list(prog), "builder": b, "label": lab, "set_source": a, "other": c})
                ndiff += 1
    return ndiff


def run(ctx):
    G["intfacts"] = cref.int_facts(extra_types=("wchar_t",))
    progs = programs(ctx.quick)
    jobs = [[(p, b)] for p in sorted(progs, key=len, reverse=True) for b in BUILDERS]
    ctx.log("%d items, %d programs, %d builds" % (len(IT.ITEMS), len(progs), len(jobs)))
    res = {}
    nobs = 0
    distinct = set()
    for (prog, b), r in pool.pmap(work, jobs, item_timeout=900):
        if isinstance(r, pool.WorkerError):
            raise InfraError("worker failed: %s" % r.tb)
        if isinstance(r, pool.Crash):
            ctx.violation({"kind": "crash", "builder": b}, {"program": list(prog), "builder": b, "how": r.describe()})
            r = {"__build__": ("crash", r.describe())}
        res.setdefault(prog, {})[b] = r
        if len(res[prog]) == 3:
            three = res.pop(prog)
            ref = three["set_source"]
            for lab, v in ref.items():
                if lab == "__build__":
                    continue
                nobs += 1
                item, kind = classify(lab)
                ctx.count("probe_" + kind)
                ctx.count("outcome_" + ("exception_" + v[1] if IT.is_exc(v) else "value"))
                if IT.is_exc(v) or kind in ("layout", "global-write", "call"):
                    distinct.add(lab)
            ctx.count("programs_of_size_%s" % (len(prog) if len(prog) < 3 else "all"))
            compare(ctx, prog, three)
            if len(prog) == 1:
                labs = [l for l in ref if l != "__build__"]
                if labs:
                    lab = labs[len(labs) // 2]
                    ctx.sample({"program": list(prog), "probe": lab, "outcome": ref[lab]})
    cov = {
        "evaluations": nobs * 3,
        "distinct_nontrivial": len(distinct),
        "programs": len(progs),
        "builds": len(jobs),
        "rule": "programs = every singleton%s and the union of the %d-item declaration alphabet; each built by "
                "set_source()+compile(), verify(force_generic_engine=False) and verify(force_generic_engine=True); "
                "evaluations = probes executed x 3 builds; non-trivial = distinct probes that are calls, global writes, "
                "layout reads or that end in an exception under set_source()" % (
                    "" if ctx.quick else ", every unordered pair", len(IT.ITEMS)),
        "exhaustive": True,
        "bound": {"items": len(IT.ITEMS), "pairs": not ctx.quick},
    }
    return ctx.finish(cov, ["set_source()+compile() is the reference behaviour named by the statement",
                            "integer ranges for the argument alphabets are measured with gcc"])


def replay(detail):
    G["intfacts"] = cref.int_facts(extra_types=("wchar_t",))
    prog = tuple(detail["program"])
    lab = detail["label"]
    out = {}
    for b in ("set_source", detail["builder"]):
        out[b] = work((prog, b))
    a = out["set_source"].get(lab, "<no observation>")
    c = out[detail["builder"]].get(lab, "<no observation>")
    cdef, src = program_text(prog if len(prog) < 3 else (lab.split("|")[0],))
    print("program items:", list(prog))
    print("probe:", lab)
    print("set_source      ->", a)
    print("%-15s ->" % detail["builder"], c)
    return 1 if a != c else 0
