"""Side families of C07: finite sets of type strings that lie inside the statement's grammar
but outside the cost bound of the recursive enumeration of _typegrammar (or, for the named
parameters, next to it).  Every family is a fixed product, enumerated completely.

  named      every TypeName derivation of cost <= b of the extended grammar as a *named*
             parameter (the name stands at the hole of the declarator: `int a`, `char *a`,
             `int a[3]`, `int (*a)(void)`, `int (*a)[K]`), in five parameter-list shapes
  arity      parameter lists of three and four parameters, and parameter lists whose parameters
             have parameter lists with commas themselves (number_of_commas() must count only the
             commas of its own nesting level), under three hosts, with and without `...`
  lengths    array lengths: literal forms (several digits, hex letters in both cases, 0X, 00,
             invalid 08 / 0x / 1a, the thresholds 2**31, 2**32, SSIZE_MAX, SSIZE_MAX+1,
             2**64-1, 2**64, item size x length overflow) and every kind of named constant
             of the extended contexts, in nine declarator shapes

  tdparam    every typedef of the extended contexts (of int, pointer, tagged and anonymous struct,
             array, function, function pointer, void, anonymous enum, pointer to anonymous struct)
             as the type specifier of a parameter, under eleven parameter declarators (bare,
             qualified, pointer, array, open array, array of arrays, pointer to array, array of
             pointers, function pointer), in five parameter-list shapes, the result type being int
             or the same typedef: a parameter of array or function type decays, a sole parameter of
             type void means "no parameters" -- both parsers must decide that on the *resolved* type

Not enumerated, because the statement does not list them as lengths: binary literals (0b11),
integer suffixes (1u, 1L), character constants ('a'), signs and expressions (+1, 1+1) -- the
in-line parser accepts all of them, the C parser none.
"""
import itertools

PARAM_NAMES = ("a", "b")

# ---------------------------------------------------------------------------------------
# named parameters

NAMED_SHAPES = ("P", "P,int", "int,P", "P,...", "P,Q")


def _with_name(t, name):
    return tuple(name if x == "&" else x for x in t)


def named(g, budget):
    """[(shape, tokens)]: `int ( * ) ( <list> )` for every derivation with hole of cost <= budget."""
    out = []
    head = ("int", "(", "*", ")", "(")
    for c, t in g.typenames(budget, hole=True):
        if sum(1 for x in t if x not in ("const", "volatile")) == 2 and t[-1] == "&" and \
                any(x in ("void", "td_v") for x in t):
            # `void a`: an object of type void is no parameter in C (and `(void)` means no parameter)
            continue
        h = t.index("&")
        if h and t[h - 1] == "(":
            # `int (a[3])`, `int (a)(void)`: parentheses that open directly before the name.  The C parser
            # takes '(' + identifier for a parameter list (parse_sequel: grouping only before * const
            # volatile [) and rejects; the in-line parser accepts.  Parameter names are outside the
            # statement's grammar, so nothing is demanded here (reported in the C07 notes, not compared).
            continue
        pa = _with_name(t, "a")
        pb = _with_name(t, "b")
        out.append(("P", head + pa + (")",)))
        out.append(("P,int", head + pa + (",", "int", ")")))
        out.append(("int,P", head + ("int", ",") + pa + (")",)))
        out.append(("P,...", head + pa + (",", "...", ")")))
        out.append(("P,Q", head + pa + (",",) + pb + (")",)))
    return out


def strip_names(tokens):
    return tuple(t for t in tokens if t not in PARAM_NAMES)


# ---------------------------------------------------------------------------------------
# three and four parameters, nested commas

def _join(params):
    out = ()
    for i, p in enumerate(params):
        if i:
            out += (",",)
        out += p
    return out


def arity():
    """[tokens]"""
    i = ("int",)
    cp = ("char", "*")

    def fp(*params):          # a parameter of type pointer to function
        return ("int", "(", "*", ")", "(") + _join(params) + (")",)

    lists = []
    for n in (3, 4):
        for combo in itertools.product((i, cp), repeat=n):
            lists.append(list(combo))
    p2, p3, p4 = fp(i, i), fp(i, i, i), fp(i, cp, i, cp)
    pn = fp(fp(i, i), i)                 # two levels of nesting
    pnn = fp(i, fp(i, fp(i, i, i), i))   # three levels
    lists += [[p2], [p3], [p4], [pn], [pnn],
              [p2, i], [i, p2], [p3, i], [i, p3], [p2, p2], [p2, p3, i], [p3, i, p2], [i, p2, i, p3],
              [pn, i], [i, pn], [pn, pn], [pnn, i, i], [i, i, pnn], [fp(), i, i], [i, fp(), fp(i, i)]]
    hosts = [
        lambda pl: ("int", "(", "*", ")", "(") + pl + (")",),
        lambda pl: ("int", "(", "*", "[", "2", "]", ")", "(") + pl + (")",),
        lambda pl: ("int", "(", "*", "(", "*", ")", "(", "void", ")", ")", "(") + pl + (")",),
        lambda pl: ("int", "(", "*", "(", "*", ")", "(") + pl + (")", ")", "(", "int", ",", "int", ")"),
    ]
    out = []
    for lst in lists:
        for tail in ((), (",", "...")):
            pl = _join(lst) + tail
            for h in hosts:
                out.append(h(pl))
    return out


# ---------------------------------------------------------------------------------------
# array lengths

LEN_LITERALS = [
    "1", "9", "10", "255", "4096", "65536", "0X10", "0xAb", "0xfF", "0XFF", "0xabcdef", "00", "007", "0777",
    "08", "09", "0x", "0X", "1a", "0xg", "0x1g",
    "2147483647", "2147483648", "4294967295", "4294967296", "0x7fffffff", "0x80000000", "0xffffffff", "0x100000000",
    "9223372036854775807", "9223372036854775808", "0x7fffffffffffffff", "0x8000000000000000",
    "0777777777777777777777", "01000000000000000000000",
    "18446744073709551615", "18446744073709551616", "0xffffffffffffffff", "0x10000000000000000",
    "2305843009213693951", "2305843009213693952", "4611686018427387904", "1152921504606846976",
]
LEN_NAMES = ["K", "Z", "E0", "E2", "NEG", "BIG", "HUGE", "AN", "EM", "EP", "SK", "X0", "X1", "gfunc", "gvar", "td_i"]


def lengths():
    """[tokens]"""
    out = []
    for n in LEN_LITERALS + LEN_NAMES:
        for b in ("char", "int"):
            out.append((b, "[", n, "]"))
            out.append((b, "*", "[", n, "]"))
            out.append((b, "(", "*", ")", "[", n, "]"))
            out.append((b, "[", n, "]", "[", "3", "]"))
            out.append((b, "[", "3", "]", "[", n, "]"))
            out.append((b, "[", n, "]", "[", n, "]"))
            out.append(("int", "(", "*", ")", "(", b, "[", n, "]", ")"))
            out.append((b, "(", "*", "[", n, "]", ")", "(", "void", ")"))
        out.append(("td_arr", "[", n, "]"))
    return out


# ---------------------------------------------------------------------------------------
# typedefs as parameter types

TD_NAMES = ["td_i", "td_p", "td_s", "td_a", "td_arr", "td_fn", "td_fp", "td_v", "td_e", "td_np"]


def tdparam():
    """[tokens]"""
    out = []
    for T in TD_NAMES:
        decls = [
            (T,), ("const", T), (T, "const"), (T, "*"), (T, "[", "2", "]"), (T, "[", "]"),
            (T, "[", "2", "]", "[", "3", "]"), (T, "(", "*", ")", "[", "2", "]"), (T, "*", "[", "2", "]"),
            (T, "(", "*", ")", "(", "void", ")"), (T, "(", "*", ")", "(", T, ")"),
        ]
        for p in decls:
            for lst in ((p,), (p, ("int",)), (("int",), p), (p, ("...",)), (p, p)):
                for res in ("int", T):
                    out.append((res, "(", "*", ")", "(") + _join(lst) + (")",))
    return out
