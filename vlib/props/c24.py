"""C24 -- cffi-gen-src output is byte-identical to FFI.emit_c_code().

E1: every (cdef text, prelude, module name, sub-command/binding mode, invocation,
output target) over small alphabets is run as a real subprocess of the command
line; the bytes that arrive in the output file / on stdout are compared with the
bytes FFI.emit_c_code() writes in this process for the same inputs.

A second, smaller dimension re-runs part of the space with a non-UTF-8 locale in
the child (LC_ALL=C with locale coercion and UTF-8 mode switched off): the
statement is not parametrised by the locale, so the bytes must not depend on it.
"""
import contextlib
import io
import itertools
import os
import shutil
import subprocess
import sys

from .. import build, pool
from ..build import InfraError

ID = "C24"
LEVEL = "exploration"
META = dict(
    engine="E1-enum", level="exploration",
    technique="exhaustive enumeration of command lines (inputs x sub-command x binding mode x invocation x output "
              "target x locale) run as real subprocesses, bytes compared with in-process emit_c_code()",
    text="Every combination of 6 (quick: 3) cdef texts (one with non-ASCII comments), 5 preludes (empty, ASCII, non-ASCII incl. a "
         "non-BMP character, no trailing newline with %/backslash, first character U+FEFF), 2 module names, 5 ways of naming the FFI "
         "(read-sources; exec-python binding an FFI or a callable, under the default name or under --ffi-var with a "
         "decoy bound to the default name), both invocations (console entry point, python -m cffi.gen_src) and both "
         "output targets (file, '-') is executed; exit status must be 0 and the bytes written must equal what "
         "FFI.emit_c_code() writes for the same inputs.  Thorough: 640 of the 960 command lines (4 of the 6 cdef texts) are "
         "real subprocesses and all 960 also run in-process.  "
         "Quick: 40 command lines are real subprocesses and the full product over 3 cdef texts (480) is run inside forked "
         "workers with argv/stdout/cwd substituted, the two routes being cross-checked.  40 more subprocesses run under an ASCII locale (LC_ALL=C, "
         "no coercion, no UTF-8 mode) and 24 (thorough 48) under six other string-hash seeds than the reference process.",
    note="reference bytes come from FFI.emit_c_code(path) in the check process (UTF-8 locale, cross-checked against "
         "emit_c_code(StringIO) encoded as UTF-8); input files are UTF-8 with LF line ends, no BOM")

# ---------------------------------------------------------------------------
# alphabets

CDEFS = [
    ("empty", ""),
    ("func", "int square(int n);\n"),
    ("struct", "struct pt { int x; short y; ...; };\nstruct bf { unsigned a:3, b:5; };\n#define K 42\nextern int gv;\nstatic const int C7;\n"),
    ("enum_cb", "typedef int (*cb_t)(int, ...);\nenum e { A, B=5, ... };\ntypedef struct opq *h_t;\n"
                "extern \"Python\" int onev(int);\n"),
    ("nonascii", "/* héllo – 日本 \U0001f600 */ int f(void); // ünï\nlong g(long, char *);"),
    ("nonl_tabs", "\tdouble\thyp ( double a ,\n\n double b ) ;  typedef unsigned char u8;"),
]
PRELUDES = [
    ("empty", ""),
    ("include", "#include <math.h>\n"),
    ("nonascii", "/* préambule — 前文 \U0001f600 */\nstatic int helper(int x) { return x + 1; }\n"),
    ("nonl_pct", "static const char *s = \"a\\tb%d%%s\\\\\";\t/* 100% {0} no newline at end */"),
    # the text starts with U+FEFF: it is a character of the prelude like any other (the input file then starts
    # with the bytes EF BB BF, which the tool must not take for an encoding signature)
    ("bom_first", "\ufeff/* starts with U+FEFF */\nstatic int after_bom;\n"),
]
NAMES = ["m", "pkg.m"]
NAMES_THOROUGH = ["m", "pkg.m", "a.b.c_d9", "_x"]
CDEFS_THOROUGH_EXTRA = [
    ("union_arr", "union u { char c[8]; long long q; };\nint sum(int n, int a[]);\nextern const char *const names[];\n"),
    ("big", "".join("int fn%d(int, struct s%d *);\nstruct s%d { int a%d; };\n" % (i, i, i, i) for i in range(12))),
]
PRELUDES_THOROUGH_EXTRA = [
    ("only_nl", "\n"),
    ("latin1_range", "/* éÿ\u0080 */ #define X 1\n"),
]
MODES = ["read", "exec-direct", "exec-direct-ffivar", "exec-callable", "exec-callable-ffivar"]
INVOCATIONS = ["script", "module"]
OUTS = ["file", "stdout"]
HASHSEEDS = [1, 2, 3, 4, 5, 6]
ENVS = ["inherit", "ascii-locale"] + ["hashseed-%d" % k for k in HASHSEEDS]

ASCII_ENV = {"LC_ALL": "C", "LANG": "C", "PYTHONCOERCECLOCALE": "0", "PYTHONUTF8": "0"}

DECOY = ('decoy = FFI()\ndecoy.cdef("int decoy_function(void);")\n'
         'decoy.set_source("decoy_module", "/* decoy prelude */")\n')
TAIL = '\nsomething_else = 42\nif __name__ == "__main__":\n    raise SystemExit(3)\n'


def script_text(mode, name, cdef, prelude):
    """The exec-python script for a binding mode.  Strings go in as Python literals
    (repr keeps printable non-ASCII characters literal, so the file is real UTF-8)."""
    def build_ffi(var, indent=""):
        lines = [var + " = FFI()", var + ".cdef(" + repr(cdef) + ")",
                 var + ".set_source(" + repr(name) + ", " + repr(prelude) + ")"]
        return "".join(indent + ln + "\n" for ln in lines)
    head = "from cffi import FFI\n" + DECOY
    if mode == "exec-direct":
        return head + build_ffi("ffibuilder") + TAIL
    if mode == "exec-direct-ffivar":
        return head + "ffibuilder = decoy\n" + build_ffi("my_ffi") + TAIL
    if mode == "exec-callable":
        return head + "def ffibuilder():\n" + build_ffi("f", "    ") + "    return f\n" + TAIL
    if mode == "exec-callable-ffivar":
        return (head + "def ffibuilder():\n    return decoy\n"
                "class Maker(object):\n    def __call__(self):\n" + build_ffi("f", "        ") +
                "        return f\nmake_ffi = Maker()\n" + TAIL)
    raise AssertionError(mode)


def is_ascii(s):
    return all(ord(c) < 128 for c in s)


# ---------------------------------------------------------------------------
# reference (in this process, no code of the tool involved)

def reference_bytes(name, cdef, prelude, workdir):
    import cffi
    ffi = cffi.FFI()
    ffi.cdef(cdef)
    ffi.set_source(name, prelude)
    path = os.path.join(workdir, "ref.c")
    if os.path.exists(path):
        os.unlink(path)
    sio = io.StringIO()
    with contextlib.redirect_stdout(io.StringIO()):
        ffi.emit_c_code(path)
        ffi2 = cffi.FFI()
        ffi2.cdef(cdef)
        ffi2.set_source(name, prelude)
        ffi2.emit_c_code(sio)
    with open(path, "rb") as f:
        data = f.read()
    os.unlink(path)
    if sio.getvalue().encode("utf-8") != data:
        raise InfraError("emit_c_code(path) and emit_c_code(StringIO) disagree in the check process: the check "
                         "needs a UTF-8 locale with '\\n' line ends")
    return data


# ---------------------------------------------------------------------------
# the command

def entry_point():
    """(module, function) named by [project.scripts] cffi-gen-src in the tree under test."""
    import tomllib
    try:
        with open(os.path.join(build.REPO, "pyproject.toml"), "rb") as f:
            data = tomllib.load(f)
        spec = data["project"]["scripts"]["cffi-gen-src"]
        mod, func = spec.split(":")
        return mod.strip(), func.strip()
    except (OSError, KeyError, ValueError):
        return None


LAUNCHER = """#!%s
import sys
from %s import %s
if __name__ == '__main__':
    sys.argv[0] = sys.argv[0].removesuffix('.exe')
    sys.exit(%s())
"""


def make_launcher(dirname, ep):
    """What pip installs for the console entry point, generated from the pyproject of
    the tree under test (so a worktree is honoured)."""
    path = os.path.join(dirname, "cffi-gen-src")
    with open(path, "w") as f:
        f.write(LAUNCHER % (build.PY, ep[0], ep[1].split(".")[0], ep[1]))
    os.chmod(path, 0o755)
    return path


def child_environment(envname, pycache):
    env = dict(os.environ)        # PYTHONPATH etc. as the check itself runs
    # byte-code cache outside /repo: saves recompiling the cffi package in every child
    env.pop("PYTHONDONTWRITEBYTECODE", None)
    env["PYTHONPYCACHEPREFIX"] = pycache
    if envname == "ascii-locale":
        for k in ("LC_ALL", "LC_CTYPE", "LANG", "LANGUAGE", "PYTHONIOENCODING", "PYTHONUTF8", "PYTHONCOERCECLOCALE"):
            env.pop(k, None)
        env.update(ASCII_ENV)
    if envname.startswith("hashseed-"):
        # the statement is not parametrised by the string-hash seed of the tool's process either: the bytes
        # must equal what emit_c_code() writes in THIS process (whose seed is another one)
        env["PYTHONHASHSEED"] = envname.split("-")[1]
    return env


_G = {}      # set in the driver before the workers are forked


def classify_diff(got, ref):
    """Shape of the difference (no raw values): where the reference sits inside what was written."""
    if got == ref:
        return "equal"
    if not got:
        return "nothing-written"
    idx = got.find(ref) if ref else -1
    if idx >= 0:
        pre, suf = got[:idx], got[idx + len(ref):]
        if not pre:
            pc = "none"
        elif pre.endswith(b"\n") and pre.count(b"\n") == 1:
            pc = "one-extra-line"
        else:
            pc = "other"
        sc = "none" if not suf else "newline" if suf == b"\n" else "other"
        return "reference-embedded(before=%s,after=%s)" % (pc, sc)
    if ref.startswith(got):
        return "truncated"
    try:
        got.decode("utf-8")
    except UnicodeDecodeError:
        try:
            if got.decode("latin-1") == ref.decode("utf-8"):
                return "encoded-as-latin1"
        except UnicodeDecodeError:
            pass
        return "content-differs-not-utf8"
    return "content-differs"


def last_exception(stderr):
    """Class name of the exception a traceback on stderr ends with (classification only)."""
    lines = stderr.decode("utf-8", "replace").strip().splitlines()
    if lines and "Traceback (most recent call last)" in stderr.decode("utf-8", "replace"):
        head = lines[-1].split(":", 1)[0].strip()
        if head.replace(".", "").replace("_", "").isalnum():
            return head
    return None


class InProcessResult(object):
    def __init__(self, returncode, stdout, stderr):
        self.returncode, self.stdout, self.stderr = returncode, stdout, stderr


def call_in_process(inv, cmd, cwd):
    """The same command line without a new interpreter: sys.argv, sys.stdout/stderr and the cwd are set as
    the child would see them (stdout = UTF-8 text layer over a byte buffer, as in the inherited environment)
    and the entry point is reached the way the launcher / `python -m` reaches it.  Used only for the
    inherited environment; the subprocess route is the authority and the two are cross-checked."""
    import importlib
    import runpy
    import traceback
    saved = (sys.argv, sys.stdout, sys.stderr, os.getcwd(), sys.path[:])
    obuf, ebuf = io.BytesIO(), io.BytesIO()
    wout = werr = None
    rc = 0
    try:
        wout = sys.stdout = io.TextIOWrapper(obuf, encoding="utf-8", errors="strict", write_through=True)
        werr = sys.stderr = io.TextIOWrapper(ebuf, encoding="utf-8", errors="backslashreplace", write_through=True)
        os.chdir(cwd)
        try:
            if inv == "module":
                sys.argv = [os.path.join(build.REPO, "src", "cffi", "gen_src.py")] + cmd[3:]
                runpy.run_module("cffi.gen_src", run_name="__main__", alter_sys=True)
            else:
                sys.argv = [cmd[0]] + cmd[1:]
                mod = importlib.import_module(_G["ep"][0])
                func = mod
                for part in _G["ep"][1].split("."):
                    func = getattr(func, part)
                sys.exit(func())
        except SystemExit as e:
            rc = 0 if e.code is None else e.code if isinstance(e.code, int) else 1
        except BaseException:
            traceback.print_exc()
            rc = 1
    finally:
        sys.argv, sys.stdout, sys.stderr = saved[0], saved[1], saved[2]
        for w in (wout, werr):
            try:
                w.flush()
                w.detach()          # keep the byte buffer open when the text layer goes away
            except Exception:
                pass
        os.chdir(saved[3])
        sys.path[:] = saved[4]
    return InProcessResult(rc, obuf.getvalue(), ebuf.getvalue())


def run_case(case, keep=False):
    """Execute one command line.  Returns the verdict dict."""
    route, ci, pi, name, mode, inv, out, envname = case
    cdef = _G["cdefs"][ci][1]
    prelude = _G["preludes"][pi][1]
    ref = _G["ref"][(ci, pi, name)]
    base = _G.get("workbase") or build.scratch()
    d = os.path.join(base, "case-%d-%d" % (os.getpid(), _G.setdefault("n", 0)))
    _G["n"] += 1
    os.makedirs(d)
    try:
        outpath = os.path.join(d, "out_dir", "generated.c")
        os.makedirs(os.path.dirname(outpath))
        target = outpath if out == "file" else "-"
        if mode == "read":
            with open(os.path.join(d, "decls.cdef.txt"), "wb") as f:
                f.write(cdef.encode("utf-8"))
            with open(os.path.join(d, "prelude.csrc.c"), "wb") as f:
                f.write(prelude.encode("utf-8"))
            args = ["read-sources", name, os.path.join(d, "decls.cdef.txt"), os.path.join(d, "prelude.csrc.c"), target]
        else:
            with open(os.path.join(d, "build_script.py"), "wb") as f:
                f.write(script_text(mode, name, cdef, prelude).encode("utf-8"))
            args = ["exec-python"]
            if mode == "exec-direct-ffivar":
                args += ["--ffi-var", "my_ffi"]
            elif mode == "exec-callable-ffivar":
                args += ["--ffi-var=make_ffi"]
            args += [os.path.join(d, "build_script.py"), target]
        if inv == "script":
            cmd = [_G["launcher"]] + args
        else:
            cmd = [build.PY, "-m", "cffi.gen_src"] + args
        cwd = os.path.join(d, "cwd")
        os.makedirs(cwd)
        if route == "in-process":
            p = call_in_process(inv, cmd, cwd)
        else:
            try:
                p = subprocess.run(cmd, stdin=subprocess.DEVNULL, stdout=subprocess.PIPE, stderr=subprocess.PIPE,
                                   env=_G["env"][envname], cwd=cwd, timeout=600)
            except subprocess.TimeoutExpired:
                raise InfraError("cffi-gen-src did not finish within 600 s: %r" % (cmd,))
        if out == "file":
            try:
                with open(outpath, "rb") as f:
                    got = f.read()
            except FileNotFoundError:
                got = None
        else:
            got = p.stdout
        stray = sorted(os.listdir(cwd)) + [x for x in sorted(os.listdir(os.path.dirname(outpath)))
                                           if x != "generated.c" or out != "file"]
        v = {"rc": p.returncode, "ok": True, "kinds": []}
        if p.returncode != 0:
            v["kinds"].append("exit-status")
            v["exception"] = last_exception(p.stderr)
        if got is None:
            v["kinds"].append("no-output-file")
            v["diff"] = "nothing-written"
        else:
            dc = classify_diff(got, ref)
            v["diff"] = dc
            if dc != "equal":
                v["kinds"].append("bytes-differ")
                k = next((i for i, (a, b) in enumerate(zip(got, ref)) if a != b), min(len(got), len(ref)))
                v["first_diff_offset"] = k
                v["len_got"] = len(got)
                v["len_ref"] = len(ref)
                v["got_at_diff"] = got[max(0, k - 20):k + 80]
                v["ref_at_diff"] = ref[max(0, k - 20):k + 80]
        v["stray"] = stray       # recorded, not judged: the statement is silent about other files
        if v["kinds"]:
            v["ok"] = False
            v["stderr_tail"] = p.stderr[-600:].decode("utf-8", "replace")
            v["cmd"] = cmd
        if keep:
            v["got"] = got
            v["stdout_head"] = p.stdout[:200]
        return v
    finally:
        shutil.rmtree(d, ignore_errors=True)


def work(block):
    return [(case, run_case(case)) for case in block]


# ---------------------------------------------------------------------------

def setup(cdefs, preludes, names, workbase):
    ep = entry_point()
    _G["cdefs"] = cdefs
    _G["preludes"] = preludes
    _G["workbase"] = workbase
    pyc = os.path.join(workbase, "pycache")
    os.makedirs(pyc, exist_ok=True)
    _G["env"] = {e: child_environment(e, pyc) for e in ENVS}
    _G["ep"] = ep
    if ep is not None:
        _G["launcher"] = make_launcher(workbase, ep)
    ref = {}
    for ci, pi, name in itertools.product(range(len(cdefs)), range(len(preludes)), names):
        ref[(ci, pi, name)] = reference_bytes(name, cdefs[ci][1], preludes[pi][1], workbase)
    _G["ref"] = ref
    # the children must import the tree under test (and this also warms the byte-code cache)
    for e in ENVS:
        p = subprocess.run([build.PY, "-c", "import cffi._cffi_gen_src as m, cffi.gen_src; print(m.__file__)"],
                           env=_G["env"][e], stdout=subprocess.PIPE, stderr=subprocess.PIPE, text=True)
        want = os.path.join(build.REPO, "src", "cffi")
        if p.returncode != 0 or os.path.dirname(p.stdout.strip()) != want:
            raise InfraError("children would not import cffi from %s (%s): %s %s" % (want, e, p.stdout, p.stderr[-500:]))


def enumerate_cases(ctx, cdefs, preludes, names):
    """in-process route: the full product (inherited environment only).
    subprocess route: quick = the sub-product {func} x {nonascii, nonl_pct} x {pkg.m}; thorough = the
    full product; both tiers add {func} x {include, nonascii} x {m} under the ASCII locale."""
    cases = []
    allc, allp = range(len(cdefs)), range(len(preludes))
    for ci, pi, name, mode, inv, out in itertools.product(allc, allp, names, MODES, INVOCATIONS, OUTS):
        cases.append(("in-process", ci, pi, name, mode, inv, out, "inherit"))
    cidx = {c[0]: i for i, c in enumerate(cdefs)}
    pidx = {c[0]: i for i, c in enumerate(preludes)}
    if ctx.quick:
        sub_c = [cidx["func"]]
        sub_p = [pidx["nonascii"], pidx["nonl_pct"], pidx["bom_first"]]
        sub_n = names[1:2]
    else:
        sub_c = [cidx[k] for k in ("func", "struct", "nonascii", "nonl_tabs") if k in cidx]
        sub_p, sub_n = allp, names
    for ci, pi, name, mode, inv, out in itertools.product(sub_c, sub_p, sub_n, MODES, INVOCATIONS, OUTS):
        cases.append(("subprocess", ci, pi, name, mode, inv, out, "inherit"))
    for ci, pi, name, mode, inv, out in itertools.product([cidx["func"]], [pidx["include"], pidx["nonascii"]],
                                                          names[:1], MODES, INVOCATIONS, OUTS):
        cases.append(("subprocess", ci, pi, name, mode, inv, out, "ascii-locale"))
    # other string-hash seeds in the tool's process: cdefs with pointer arguments, structs and enums (whatever the
    # generator keeps in sets or dicts keyed by strings), invocation alternating with the seed
    seed_c = [cidx[k] for k in (("nonascii", "enum_cb") if ctx.quick else ("nonascii", "enum_cb", "struct", "nonl_tabs"))
              if k in cidx]
    for ci, mode, k in itertools.product(seed_c, ["read", "exec-direct"], HASHSEEDS):
        cases.append(("subprocess", ci, pidx["include"], names[0], mode, INVOCATIONS[k % 2], "file", "hashseed-%d" % k))
    return cases


def sig_of(case, v, cdefs, preludes):
    route, ci, pi, name, mode, inv, out, envname = case
    nonascii = not (is_ascii(cdefs[ci][1]) and is_ascii(preludes[pi][1]))
    return {"kind": "+".join(v["kinds"]), "diff": v.get("diff"), "exception": v.get("exception"), "out": out,
            "env": envname.split("-")[0] if envname.startswith("hashseed-") else envname, "route": route,
            "nonascii_input": nonascii, "mode": "read-sources" if mode == "read" else "exec-python"}


def agree(v1, v2):
    return (v1["ok"], v1["kinds"], v1.get("diff")) == (v2["ok"], v2["kinds"], v2.get("diff"))


def run(ctx):
    cdefs, preludes, names = CDEFS, PRELUDES, NAMES
    if ctx.quick:
        cdefs = [c for c in CDEFS if c[0] in ("func", "enum_cb", "nonascii")]
    if ctx.opts.get("wide"):          # --opt wide=1: larger alphabets (about 3.5x)
        cdefs = CDEFS + CDEFS_THOROUGH_EXTRA
        preludes = PRELUDES + PRELUDES_THOROUGH_EXTRA
        names = NAMES_THOROUGH
    workbase = build.scratch_shared()
    setup(cdefs, preludes, names, workbase)
    if _G["ep"] is None:
        ctx.violation({"kind": "entry-point-missing"}, {"what": "no [project.scripts] cffi-gen-src in pyproject.toml"})
        return ctx.finish({"evaluations": 0, "distinct_nontrivial": 0, "rule": "entry point missing", "exhaustive": False})
    cases = enumerate_cases(ctx, cdefs, preludes, names)
    nsub = sum(1 for c in cases if c[0] == "subprocess")
    ctx.log("%d command lines (%d as subprocesses, %d in-process), %d reference outputs (%d distinct), entry point %s:%s" % (
        len(cases), nsub, len(cases) - nsub, len(_G["ref"]), len(set(_G["ref"].values())), _G["ep"][0], _G["ep"][1]))
    results = {}

    def explore(route, per_block, nproc):
        mine = [c for c in cases if c[0] == route]
        nblk = max(nproc, len(mine) // per_block)
        blocks = [mine[i::nblk] for i in range(nblk)]          # interleaved: every block mixes modes
        for block, r in pool.pmap(work, [[b] for b in blocks], nproc=nproc):
            if isinstance(r, (pool.WorkerError, pool.Crash)):
                raise InfraError("worker failed (%s route): %r" % (route, r))
            for case, v in r:
                results[case] = v

    # process creation does not scale with the number of workers on this machine: few workers for the subprocesses
    explore("subprocess", 3, 6)
    ctx.log("subprocess route done")
    explore("in-process", 24, 8)
    if len(results) != len(cases):
        raise InfraError("lost cases: %d of %d" % (len(results), len(cases)))
    # the in-process route is only believed if it agrees with the subprocess route wherever both ran
    both = disagree = 0
    for case in cases:
        if case[0] == "subprocess" and case[7] == "inherit":
            sib = ("in-process",) + case[1:]
            if sib in results:
                both += 1
                if not agree(results[case], results[sib]):
                    disagree += 1
    trusted = disagree == 0
    ctx.count("routes_compared", both)
    ctx.count("routes_disagree", disagree)
    if not trusted:
        ctx.log("in-process route disagrees with the subprocess route on %d of %d common cases: its verdicts are "
                "DISCARDED, only the subprocess cases are judged" % (disagree, both))
    judged = [c for c in cases if c[0] == "subprocess" or trusted]
    nontrivial = set()
    for case in judged:
        route, ci, pi, name, mode, inv, out, envname = case
        ctx.count("route_" + route)
        ctx.count("mode_" + mode)
        ctx.count("invocation_" + inv)
        ctx.count("out_" + out)
        ctx.count("env_" + envname)
        ctx.count("name_dotted" if "." in name else "name_plain")
        na = not (is_ascii(cdefs[ci][1]) and is_ascii(preludes[pi][1]))
        ctx.count("input_nonascii" if na else "input_ascii")
        if not preludes[pi][1]:
            ctx.count("prelude_empty")
        if na or out == "stdout" or mode not in ("read", "exec-direct") or envname != "inherit":
            nontrivial.add(case)
        ctx.sample({"route": route, "cdef": cdefs[ci][1], "prelude": preludes[pi][1], "name": name, "mode": mode,
                    "invocation": inv, "out": out, "env": envname})
    for case in sorted(judged, key=lambda c: (c[0] != "subprocess", cases.index(c))):
        v = results[case]
        ctx.count("outcome_%s_%s" % (case[0], "exit0_bytes_equal" if v["ok"] else "+".join(v["kinds"]) + ":" + str(v.get("diff"))))
        if not v["ok"]:
            route, ci, pi, name, mode, inv, out, envname = case
            ctx.violation(sig_of(case, v, cdefs, preludes),
                          {"route": route, "cdef": cdefs[ci][1], "prelude": preludes[pi][1], "name": name, "mode": mode,
                           "invocation": inv, "out": out, "env": envname, "observed": v})
    sub_rule = ("the sub-product {func} x {nonascii, nonl_pct} x {pkg.m}" if ctx.quick else
                "the full product over the cdef texts {func, struct, nonascii, nonl_tabs}")
    cov = {
        "evaluations": len(judged),
        "distinct_nontrivial": len(nontrivial),
        "rule": "command lines = %d cdef texts x %d preludes x %d module names x 5 binding modes (read-sources; exec-python "
                "with an FFI / a callable under the default name; the same under --ffi-var with a decoy FFI bound to the "
                "default name) x {console entry point, python -m cffi.gen_src} x {file, '-'}.  Route 'subprocess' (the "
                "authority): %s, one new interpreter each, inherited (UTF-8) environment, plus {func} x {include, nonascii} x "
                "{m} under LC_ALL=C PYTHONCOERCECLOCALE=0 PYTHONUTF8=0.  Route 'in-process': the full product, the same "
                "command line run inside a forked worker with sys.argv / sys.stdout / cwd substituted (entry point called "
                "as the launcher does, or runpy for -m); believed only if it agrees with the subprocess route on every "
                "common case (%d compared, %d disagreements).  non-trivial = not the shape the unit tests cover: non-ASCII "
                "text, or output '-', or --ffi-var / callable binding, or the ASCII locale (distinct cases counted)" % (
                    len(cdefs), len(preludes), len(names), sub_rule, both, disagree),
        "exhaustive": True,
        "bound": {"cdefs": [c[0] for c in cdefs], "preludes": [c[0] for c in preludes], "names": names,
                  "modes": MODES, "invocations": INVOCATIONS, "outputs": OUTS, "envs": ENVS},
        "subprocess_runs": nsub,
        "in_process_runs": len(cases) - nsub,
        "in_process_route_trusted": trusted,
        "reference_outputs": len(_G["ref"]),
        "distinct_reference_outputs": len(set(_G["ref"].values())),
        "entry_point": "%s:%s" % _G["ep"],
    }
    return ctx.finish(cov, [
        "reference = bytes FFI.emit_c_code(path) writes in the check process (UTF-8 locale), equal to "
        "emit_c_code(StringIO).encode('utf-8') (asserted)",
        "the console script is the launcher pip generates for the [project.scripts] entry of the tree under test",
        "input files are UTF-8, LF line ends, no BOM (how CR/BOM map to text is not stated and not judged)",
        "the statement does not mention the locale, so the expected bytes are the same under every locale",
        "in-process route: stdout is a UTF-8 text layer over a byte buffer; writes that bypass sys.stdout would be missed "
        "there, which is why it is cross-checked against real subprocesses on the common sub-product"])


def replay(detail):
    cdefs = [("x", detail["cdef"])]
    preludes = [("x", detail["prelude"])]
    setup(cdefs, preludes, [detail["name"]], build.scratch_shared())
    route = detail.get("route", "subprocess")
    case = (route, 0, 0, detail["name"], detail["mode"], detail["invocation"], detail["out"], detail["env"])
    v = run_case(case, keep=True)
    ref = _G["ref"][(0, 0, detail["name"])]
    print("route   :", route)
    print("command :", " ".join(v.get("cmd") or ["(conforming run)"]))
    print("env     :", detail["env"], ASCII_ENV if detail["env"] == "ascii-locale" else "")
    print("exit    :", v["rc"])
    print("verdict :", "OK" if v["ok"] else "+".join(v["kinds"]), "/", v.get("diff"))
    if not v["ok"]:
        print("expected %d bytes, got %s" % (len(ref), "no file" if v.get("got") is None else "%d bytes" % len(v["got"])))
        if "first_diff_offset" in v:
            print("first difference at offset", v["first_diff_offset"])
            print("  got :", v["got_at_diff"])
            print("  want:", v["ref_at_diff"])
        if v.get("stderr_tail"):
            print("stderr  :", v["stderr_tail"].strip().splitlines()[-1:])
    return 0 if v["ok"] else 1
