"""C19 helper: the operation families added after the audit (.cache/audit/C19.md).

Everything here is driven by c19.Sys (`s` below): s.ffi, s.b (current cffi buffer), s.bufwin = (off, n),
s.lo (offset of the 12 bytes inside the model s.M), s.M (model of the whole memory), s._ptr(off),
s._bad(kind, **kw), s.keep, s.base_addr, s.obj / s.p.  The oracle is the same as in c19.py: the
expression is evaluated on a Python bytearray holding the model's bytes; where the statement is silent
about an input (object kinds a bytearray would take but cffi need not, extended slices, index objects for
a size) the rule is "either refused with every byte unchanged, or exactly the bytearray's result"
(called TOLERANT below); where a bytearray itself refuses, or the operation would change the length,
the rule is "must be refused, every byte unchanged" (REFUSE).  The memory comparison after every step
is done by Sys.apply (s._memcheck), so a handler only has to leave s.M as the model predicts.

    gap 2  del / dels / gs3 / ss3      deletion and three-part slices
    gap 3  setv / geti / seti / gsi / ssi   value kinds of an item assignment, index objects
    gap 4  fb / fbf / fbx              from_buffer: more item sizes, windows, call forms, external objects
    gap 5  rd / cmp / mvset / mvset1 / pack / unpack / readinto   the other slots of the buffer type
    gap 6  mmx (+ kinds "i", "v" of mm in c19.py)   memmove operand kinds, keywords, refusals
    gap 7  bufp                        ffi.buffer over int* / void* / struct* cdata, keyword form
    gap 1 (more sources of a slice assignment) lives in c19.py's "ss" handler; gap 8 in c19.large_slices.
"""
import array
import ctypes
import io
import operator
import struct

from ..build import InfraError

N = 12
MAXS = 2 ** 63 - 1
BIG = 2 ** 63
EXT = bytes(range(0xE0, 0xE0 + N))

_ffis = {}


def get_ffi(kind):
    if kind not in _ffis:
        import _cffi_backend
        import cffi
        if kind == "inline":
            f = cffi.FFI()
            f.cdef("struct c19s { char a, b, c; };")
        else:
            f = _cffi_backend.FFI()
        _ffis[kind] = f
    return _ffis[kind]


class Idx(object):
    """An object that is an index only through __index__."""

    def __init__(self, v):
        self.v = v

    def __index__(self):
        return self.v

    def __repr__(self):
        return "Idx(%r)" % (self.v,)


def dedupe(seq):
    out = []
    for x in seq:
        if x not in out:
            out.append(x)
    return out


def _try(f):
    try:
        return f(), None
    except Exception as e:
        return None, e.with_traceback(None)


def addr_of_bytes(obj):
    return ctypes.cast(ctypes.c_char_p(obj), ctypes.c_void_p).value or 0


# ---------------------------------------------------------------------------
# tables

STEPS = {"None": None, "1": 1, "idx1": Idx(1), "true": True, "2": 2, "-1": -1, "0": 0, "big": BIG, "-big": -BIG - 1}
STEP1 = ("None", "1", "idx1", "true")            # an ordinary slice
VALKINDS = ("int", "bytearray1", "mview1", "empty", "two", "str1", "none")
VAL_TOLERANT = ("int", "bytearray1", "mview1")   # a single byte in another wrapping
RD = ("len", "iter", "reversed", "in-first", "in-absent", "mv-list", "mv-meta", "bytearray", "join", "bytes-mv")
CMPOPS = {"lt": operator.lt, "le": operator.le, "eq": operator.eq, "ne": operator.ne, "gt": operator.gt,
          "ge": operator.ge}
CMP_OTHERS = ("eq", "longer", "shorter", "flip0", "fliplast", "bytearray", "mview", "cffi", "cffi-whole",
              "refl-eq", "refl-flip0")

# from_buffer: name -> (item struct code, item size, fixed count | None | "ptr", inner count of a nested item)
FB_TYPES = {
    "char[]": ("c", 1, None, 0), "short[]": ("h", 2, None, 0), "int[]": ("i", 4, None, 0),
    "int[2]": ("i", 4, 2, 0), "int[3]": ("i", 4, 3, 0), "int[4]": ("i", 4, 4, 0),
    "char[12]": ("c", 1, 12, 0), "char[13]": ("c", 1, 13, 0),
    # added: item sizes 8, 3 and 16, nested items, a zero-length array, an item of size 0, a pointer type
    "long long[]": ("q", 8, None, 0), "char[][3]": ("c", 3, None, 3), "int[][2]": ("i", 8, None, 2),
    "short[3][2]": ("h", 4, 3, 2), "int[2][2]": ("i", 8, 2, 2), "long long[][2]": ("q", 16, None, 2),
    "int[0]": ("i", 4, 0, 0), "int[][0]": ("i", 0, None, 0), "int *": ("i", 4, "ptr", 0),
}
FB_OLD_TYPES = ("char[]", "short[]", "int[]", "int[2]", "int[3]", "int[4]", "char[12]", "char[13]")
FB_WINS = [(0, 12), (0, 5), (4, 7), (0, 8), (2, 0), (0, 3), (1, 11)]   # (offset, length); (0, 12) is the object itself
FB_OLD_WINS = FB_WINS[:5]
FB_FORMS = ("ctype", "rwpos", "rwkw", "rwfalse", "kw", "onearg", "onearg-rw")
FBX_KINDS = ("bytes", "bytes5", "bytes0", "romview", "2d", "arrayI", "noncontig", "str")
FBX_TYPES = ("char[]", "short[]", "int[]", "int[3]", "char[13]", "int *")
_FBV = {"c": [b"Z", b"\xfe"], "h": [0x5A5B, -2], "i": [0x51525354, -3], "q": [0x5152535455565758, -4]}

MMX = {
    # variant -> list of (doff, soff, cnt)
    "kw": [(1, 0, 11), (0, 1, 11), (3, 3, 0), (4, 2, 5)],
    "kw-rev": [(1, 0, 11), (4, 2, 5)],
    "n-idx": [(1, 0, 11), (0, 1, 11), (3, 3, 0)],
    "n-true": [(1, 0, 1), (0, 11, 1)],
    "n-float": [(1, 0, 11)],
    "n-neg": [(1, 0, 11), (0, 0, 0)],
    "n-huge": [(1, 0, 11)],
    "dst-bytes": [(1, 0, 11), (0, 0, 0), (4, 2, 5)],
    "dst-romview": [(1, 0, 11), (0, 0, 0)],
    "dst-prim": [(0, 0, 4), (0, 0, 0)],
    "dst-struct": [(0, 0, 3)],
    "src-struct": [(0, 0, 3)],
    "src-prim": [(0, 0, 4)],
    "src-str": [(0, 0, 5)],
    "src-noncontig": [(1, 0, 11), (0, 0, 12), (5, 0, 1)],
    "dst-noncontig": [(0, 1, 5)],
    "dst-owner": [(0, 1, 11), (0, 4, 5), (0, 0, 12)],
    "src-owner": [(1, 0, 11), (4, 0, 5)],
    "dst-int3": [(0, 1, 11), (0, 8, 4)],
    "sptr": [(1, 0, 11), (0, 1, 11), (4, 2, 5)],
}
BUFP_WINS = [(0, 12), (3, 5), (0, 0), (11, 1), (12, 0)]
BUFP_TYPES = ("int", "void", "struct", "kw", "idx")


def gen_ext_ops(bufwin):
    """[(level, op)] for the buffer window `bufwin`; level 1 narrow, 2 wide (never core)."""
    off, n = bufwin
    out = []
    core_gs = dedupe([(None, None), (3, -1), (-1, n + 1), (-n - 1, 3), (3, 0)])

    def add(op, narrow=False):
        out.append((1 if narrow else 2, op))
    # -- gap 2
    for i in dedupe([0, -1, n - 1, n, -n - 1, BIG]):
        add(("del", i), i == 0)
    for (i, j) in dedupe(core_gs + [(0, 0), (n, None), (0, BIG), (0, 1)]):
        add(("dels", i, j), (i, j) in ((3, -1), (3, 0)))
    for (i, j) in core_gs:
        for st in STEPS:
            add(("gs3", i, j, st), (i, j) == (3, -1) and st in ("1", "2"))
            # "span": as many bytes as the contiguous range start:stop has (what an implementation that ignores the
            # step would want); only different from "bytes" for a real step
            for src in ("bytes", "long") + (("span",) if st not in STEP1 and st != "0" else ()):
                add(("ss3", i, j, st, src), ((i, j), st, src) in (((3, -1), "None", "bytes"), ((None, None), "-1", "bytes"),
                                                                  ((3, -1), "idx1", "long"), ((3, -1), "2", "span")))
    # -- gap 3
    for i in dedupe([0, -1, n]):
        for vk in VALKINDS:
            add(("setv", i, vk), (i, vk) in ((0, "int"), (-1, "two")))
    for kind, vals in (("bool", (0, 1)), ("idx", dedupe([0, -1, n - 1, n, -n, -n - 1, BIG, -BIG - 1])),
                       ("float", (0, 1)), ("str", (0,)), ("none", (0,))):
        for i in vals:
            add(("geti", kind, i), (kind, i) in (("idx", -1), ("bool", 1)))
            add(("seti", kind, i), (kind, i) in (("idx", n),))
    for (i, j) in dedupe(core_gs + [(0, BIG), (-BIG - 1, 3)]):
        add(("gsi", "idx", i, j), (i, j) == (-1, n + 1))
        add(("ssi", "idx", i, j), (i, j) == (3, -1))
    add(("gsi", "float", 0, 3))
    add(("ssi", "float", 0, 3))
    add(("gsi", "bool", 0, 1))
    # -- gap 5
    for what in RD:
        add(("rd", what), what in ("iter", "in-first"))
    for opn in CMPOPS:
        for other in CMP_OTHERS:
            add(("cmp", opn, other), (opn, other) in (("lt", "longer"), ("eq", "cffi"), ("ge", "flip0")))
    for (i, j) in core_gs:
        for src in ("bytes", "long"):
            add(("mvset", i, j, src), (i, j) == (3, -1))
    for i in dedupe([0, -1, n]):
        add(("mvset1", i))
    for o in dedupe([0, n - 2, n - 1, n, -2, -n - 1]):
        add(("pack", o), o == n - 2)
        add(("unpack", o))
    for k in dedupe([0, 5, n, n + 3]):
        add(("readinto", k), k == 5)
    # -- gap 4
    for fk in ("inline", "ool"):
        for T in FB_TYPES:
            for w in FB_WINS:
                if T in FB_OLD_TYPES and w in FB_OLD_WINS:
                    continue              # enumerated by c19._gen_ops
                for wk in ("none", "last"):
                    add(("fb", fk, T, w[0], w[1], wk),
                        (fk, T, w, wk) in (("inline", "int[]", (0, 3), "none"), ("ool", "char[][3]", (1, 11), "last"),
                                           ("ool", "long long[]", (0, 12), "last"), ("inline", "int *", (4, 7), "last")))
            if FB_TYPES[T][3] or FB_TYPES[T][2] == "ptr":
                add(("fb", fk, T, 4, 7, "first"))
            for form in FB_FORMS:
                if form.startswith("onearg") and T != "char[]":
                    continue
                for w in ((0, 12), (0, 5), (0, 3)):
                    add(("fbf", fk, T, w[0], w[1], "last", form),
                        (fk, T, w, form) in (("ool", "int[]", (0, 5), "ctype"), ("inline", "short[]", (0, 12), "kw"),
                                             ("ool", "char[]", (0, 5), "onearg")))
        for T in FBX_TYPES:
            for kind in FBX_KINDS:
                for rw in (0, 1):
                    add(("fbx", fk, T, kind, rw), (fk, T, kind, rw) in (("inline", "int[]", "bytes", 0),
                                                                       ("ool", "short[]", "bytes", 1)))
    # -- gap 6
    for var, triples in MMX.items():
        for k, t in enumerate(triples):
            add(("mmx", var) + t, k == 0 and var in ("kw", "dst-bytes", "n-neg", "sptr"))
    # -- gap 7
    for pt in BUFP_TYPES:
        for w in BUFP_WINS:
            add(("bufp", pt) + w, (pt, w) in (("void", (3, 5)), ("int", (0, 12))))
    return out


# ---------------------------------------------------------------------------
# lock-step helper

def _lock(s, what, fimpl, fmodel, mode="exact", index_error=False, **kw):
    """Run fmodel on a bytearray V holding the window's bytes and fimpl on the cffi buffer.
    mode exact: same outcome (result equal, or both raise); tolerant: cffi may also refuse where the
    bytearray accepts; refuse: must raise whatever the bytearray does."""
    off, n = s.bufwin
    a = s.lo + off
    V = bytearray(s.M[a:a + n])
    want, wexc = _try(lambda: fmodel(V))
    if len(V) != n:
        if mode != "refuse":
            raise InfraError("model length changed in %s" % what)
        wexc = wexc or ValueError("length")
    got, gexc = _try(lambda: fimpl(s.b))
    out = "ok" if gexc is None else "refused"
    s.last_class = "%s/%s" % (s.last_class, out)
    if mode == "refuse" or wexc is not None:
        if gexc is None:
            return s._bad(what + "-accepted", got=repr(got), model_error=repr(wexc), **kw)
        if index_error and isinstance(wexc, IndexError) and not isinstance(gexc, IndexError):
            return s._bad(what + "-wrong-exception", error=repr(gexc), model_error=repr(wexc), **kw)
        return None                    # refused: Sys.apply checks that no byte changed
    if gexc is not None:
        if mode == "tolerant":
            return None
        return s._bad(what + "-rejected", error=repr(gexc), **kw)
    if got != want or type(got) is not type(want):
        return s._bad(what + "-value", got=repr(got), want=repr(want), **kw)
    s.M[a:a + n] = V
    return None


def _mkidx(kind, v):
    if v is None:
        return None
    if kind == "bool":
        return bool(v)
    if kind == "idx":
        return Idx(v)
    if kind == "float":
        return float(v)
    if kind == "str":
        return str(v)
    if kind == "none":
        return None
    raise InfraError("index kind %r" % (kind,))


def _setitem(x, k, v):
    x[k] = v


def _delitem(x, k):
    del x[k]


def _slen(i, j, step, n):
    try:
        return len(range(*slice(i, j, step).indices(n)))
    except ValueError:
        return 0


# ---------------------------------------------------------------------------
# from_buffer (system memory and external objects)

def fb_check(s, F, T, obj, form, wlen, addr, mem, mo, wk, readonly=False):
    """F.from_buffer(T, obj) in the given call form; obj has `wlen` bytes at address `addr`, modelled by
    mem[mo:mo+wlen].  Returns a violation dict or None; a write goes to `mem` as well."""
    code, size, fixed, inner = FB_TYPES[T]
    if form == "str":
        def call(): return F.from_buffer(T, obj)
    elif form == "ctype":
        def call(): return F.from_buffer(F.typeof(T), obj)
    elif form == "rwpos":
        def call(): return F.from_buffer(T, obj, True)
    elif form == "rwkw":
        def call(): return F.from_buffer(T, obj, require_writable=True)
    elif form == "rwfalse":
        def call(): return F.from_buffer(T, obj, False)
    elif form == "kw":
        def call(): return F.from_buffer(cdecl=T, python_buffer=obj, require_writable=False)
    elif form == "onearg":
        def call(): return F.from_buffer(obj)
    elif form == "onearg-rw":
        def call(): return F.from_buffer(obj, require_writable=True)
    else:
        raise InfraError("form %r" % (form,))
    if form.startswith("onearg") and T != "char[]":
        raise InfraError("one-argument form is char[]")
    wants_writable = form in ("rwpos", "rwkw", "onearg-rw")
    c, exc = _try(call)
    cls = "fb/%s" % T
    if size == 0:
        # len(obj) // sizeof(T) has no value: nothing is compared except that no byte changes
        s.last_class = cls + "/item-size-0/" + ("raises" if exc is not None else "accepted")
        return None
    if readonly and wants_writable:
        s.last_class = cls + "/readonly-require_writable"
        if exc is None:
            return s._bad("from_buffer-readonly-accepted-with-require_writable", T=T, form=form)
        return None
    if fixed == "ptr":
        ok, want_len = True, (1 if wlen >= size else 0)
    else:
        want_len = wlen // size if fixed is None else fixed
        ok = fixed is None or wlen >= fixed * size
    s.last_class = "%s/%s/%s" % (cls, "ok" if ok else "too-small",
                                 "exact" if wlen % size == 0 else "remainder") + \
        ("/empty" if ok and want_len == 0 else "") + ("" if form == "str" else "/" + form) + \
        ("/readonly" if readonly else "")
    if not ok:
        if exc is None:
            return s._bad("from_buffer-too-small-accepted", T=T, nbytes=wlen, form=form)
        if not isinstance(exc, ValueError):
            return s._bad("from_buffer-wrong-exception", T=T, nbytes=wlen, error=repr(exc), form=form)
        return None
    if exc is not None:
        return s._bad("from_buffer-rejected", T=T, nbytes=wlen, error=repr(exc), form=form)
    s.keep.append(c)
    if fixed != "ptr" and len(c) != want_len:
        return s._bad("from_buffer-length", T=T, nbytes=wlen, got=len(c), want=want_len, form=form)
    if F.typeof(c) is not F.typeof(T) or int(F.cast("uintptr_t", c)) != addr:
        return s._bad("from_buffer-alias", T=T, type=F.typeof(c).cname, form=form,
                      delta=int(F.cast("uintptr_t", c)) - addr, want_delta=0)
    sub = size // inner if inner else size
    for k in range(want_len):
        item = c[k]
        if inner:
            if len(item) != inner or int(F.cast("uintptr_t", item)) != addr + k * size:
                return s._bad("from_buffer-item", T=T, k=k, got="nested item of length %d at +%d" % (
                    len(item), int(F.cast("uintptr_t", item)) - addr), want="length %d at +%d" % (inner, k * size))
            got = [item[m] for m in range(inner)]
            want = [struct.unpack_from("<" + code, mem, mo + k * size + m * sub)[0] for m in range(inner)]
        else:
            got = item
            want = struct.unpack_from("<" + code, mem, mo + k * size)[0]
        if got != want:
            return s._bad("from_buffer-item", T=T, k=k, got=repr(got), want=repr(want), form=form)
    if wk != "none" and want_len > 0 and not readonly:
        k = want_len - 1 if wk == "last" else 0
        m = (inner - 1 if wk == "last" else 0) if inner else 0
        v = _FBV[code][0 if wk == "last" else 1]
        try:
            if inner:
                c[k][m] = v
            else:
                c[k] = v
        except Exception as e:
            return s._bad("from_buffer-write", T=T, k=k, error=repr(e), form=form)
        o = mo + k * size + m * sub
        mem[o:o + sub] = v if code == "c" else struct.pack("<" + code, v)
    return None


def _fb(s, op):
    fk, T, woff, wlen, wk = op[1:6]
    form = op[6] if len(op) > 6 else "str"
    obj = s._window_obj(woff, wlen)
    return fb_check(s, get_ffi(fk), T, obj, form, wlen, s.base_addr + woff, s.M, s.lo + woff, wk)


def _fbx(s, op):
    _, fk, T, kind, rw = op
    F = get_ffi(fk)
    form = "rwkw" if rw else "str"
    back = bytearray(EXT)
    hold = (ctypes.c_char * N).from_buffer(back)
    readonly = False
    wlen = N
    actual = lambda: bytes(back)
    addr = ctypes.addressof(hold)
    if kind in ("bytes", "bytes5", "bytes0"):
        wlen = {"bytes": N, "bytes5": 5, "bytes0": 0}[kind]
        obj = bytes(back[:wlen])
        addr = addr_of_bytes(obj)
        readonly = True
        actual = lambda: obj + EXT[wlen:]
    elif kind == "romview":
        obj = memoryview(back).toreadonly()
        readonly = True
    elif kind == "2d":
        obj = memoryview(back).cast("B", (3, 4))
    elif kind == "arrayI":
        obj = array.array("I")
        obj.frombytes(EXT)
        addr = obj.buffer_info()[0]
        actual = obj.tobytes
    elif kind in ("noncontig", "str"):
        # no C array can alias a strided buffer, a str has no buffer: must be refused
        obj = memoryview(bytearray(2 * N))[::2] if kind == "noncontig" else "x" * N
        c, exc = _try(lambda: F.from_buffer(T, obj, require_writable=bool(rw)))
        s.last_class = "fbx/%s/%s" % (kind, "refused" if exc is not None else "accepted")
        if exc is None:
            return s._bad("from_buffer-%s-accepted" % kind, T=T, got_type=F.typeof(c).cname)
        return None
    else:
        raise InfraError("fbx kind %r" % (kind,))
    mem = bytearray(EXT)
    info = fb_check(s, F, T, obj, form, wlen, addr, mem, 0, "last", readonly=readonly)
    s.last_class = "fbx/%s/%s" % (kind, s.last_class)
    if info is None and actual() != bytes(mem):
        return s._bad("from_buffer-external-memory", T=T, objkind=kind, actual=actual().hex(), model=bytes(mem).hex())
    if info is not None:
        info["objkind"] = kind
    return info


# ---------------------------------------------------------------------------
# memmove: keywords, size objects, refusals, other cdata types

def _mmx(s, op):
    _, var, doff, soff, cnt = op
    ffi = s.ffi
    lo = s.lo
    dst, src, n = s._ptr(doff), s._ptr(soff), cnt
    data = bytes(s.M[lo + soff:lo + soff + cnt])
    mode = "exact"
    after = None
    keep = []

    def call():
        return ffi.memmove(dst, src, n)
    if var == "kw":
        def call(): return ffi.memmove(dest=dst, src=src, n=n)
    elif var == "kw-rev":
        def call(): return ffi.memmove(n=n, src=src, dest=dst)
    elif var == "n-idx":
        n, mode = Idx(cnt), "tolerant"
    elif var == "n-true":
        n, mode = True, "tolerant"
    elif var == "n-float":
        n, mode = float(cnt), "tolerant"
    elif var == "n-neg":
        n, mode = -1 - cnt, "refuse"
    elif var == "n-huge":
        n, mode = BIG, "refuse"
    elif var == "dst-bytes":
        dst, mode = bytes(bytearray(EXT)), "refuse"
        tgt = dst
        after = lambda: None if tgt == EXT else tgt.hex()
    elif var == "dst-romview":
        back = bytearray(EXT)
        dst, mode = memoryview(back).toreadonly(), "refuse"
        after = lambda: None if back == EXT else bytes(back).hex()
    elif var == "dst-prim":
        dst, mode = ffi.cast("int", 5), "refuse"
    elif var == "src-prim":
        src, mode = ffi.cast("int", 5), "refuse"
    elif var == "dst-struct":
        keep.append(ffi.new("struct c19s *"))
        dst, mode = keep[0][0], "refuse"
    elif var == "src-struct":
        keep.append(ffi.new("struct c19s *"))
        src, mode = keep[0][0], "refuse"
    elif var == "src-str":
        src, mode = "x" * N, "refuse"
    elif var == "src-noncontig":
        raw = bytearray(2 * N)
        raw[::2] = EXT
        src, mode = memoryview(raw)[::2], "tolerant"
        data = EXT[:cnt]            # soff is 0: the logical content of the strided view
    elif var == "dst-noncontig":
        raw = bytearray(2 * N)
        dst, mode = memoryview(raw)[::2], "tolerant"
        want = bytearray(2 * N)
        want[:2 * cnt:2] = data
        after = lambda: None if raw in (bytearray(2 * N), want) else bytes(raw).hex()
        data = None                 # the system's memory is not the destination
    elif var == "dst-owner":
        dst = s.obj if s.obj is not None else s.p
    elif var == "src-owner":
        src = s.obj if s.obj is not None else s.p
    elif var == "dst-int3":
        dst = get_ffi("inline").from_buffer("int[3]", s._window_obj(0, N))
    elif var == "sptr":
        dst, src = ffi.cast("struct c19s *", dst), ffi.cast("short *", src)
    else:
        raise InfraError("mmx variant %r" % (var,))
    r, exc = _try(call)
    s.last_class = "mmx/%s/%s" % (var, "ok" if exc is None else "refused")
    if after is not None:
        bad = after()
        if bad is not None:
            return s._bad("memmove-external-object-changed", variant=var, now=bad)
    if mode == "refuse":
        if exc is None:
            return s._bad("memmove-accepted", variant=var)
        return None
    if exc is not None:
        if mode == "tolerant":
            return None
        return s._bad("memmove-raises", variant=var, error=repr(exc))
    if r is not None:
        return s._bad("memmove-result", got=repr(r))
    if data is not None:
        s.M[lo + doff:lo + doff + cnt] = data
    return None


# ---------------------------------------------------------------------------
# ffi.buffer over other pointer types / call forms

def _bufp(s, op):
    _, pt, woff, wn = op
    ffi = s.ffi
    p = s._ptr(woff)
    mode = "exact"
    if pt == "int":
        def call(): return ffi.buffer(ffi.cast("int *", p), wn)
    elif pt == "void":
        def call(): return ffi.buffer(ffi.cast("void *", p), wn)
    elif pt == "struct":
        def call(): return ffi.buffer(ffi.cast("struct c19s *", p), wn)
    elif pt == "kw":
        def call(): return ffi.buffer(cdata=p, size=wn)
    elif pt == "idx":
        mode = "tolerant"
        def call(): return ffi.buffer(p, Idx(wn))
    else:
        raise InfraError("bufp %r" % (pt,))
    nb, exc = _try(call)
    s.last_class = "bufp/%s/n=%d/%s" % (pt, wn, "ok" if exc is None else "refused")
    if exc is not None:
        if mode == "tolerant":
            return None
        return s._bad("buffer-raises", ptype=pt, error=repr(exc))
    want = bytes(s.M[s.lo + woff:s.lo + woff + wn])
    if len(nb) != wn or bytes(nb) != want or nb[:] != want:
        return s._bad("buffer-view", ptype=pt, want_len=wn, got_len=len(nb), got=bytes(nb).hex(), want=want.hex())
    s.b = nb
    s.bufwin = (woff, wn)
    return None


# ---------------------------------------------------------------------------

def apply_ext(s, op):
    """Returns (handled, info)."""
    name = op[0]
    ffi = s.ffi
    off, n = s.bufwin
    a = s.lo + off

    if name in ("fb", "fbf"):
        return True, _fb(s, op)
    if name == "fbx":
        return True, _fbx(s, op)
    if name == "mmx":
        return True, _mmx(s, op)
    if name == "bufp":
        return True, _bufp(s, op)

    if name == "del":
        i = op[1]
        s.last_class = "del"
        return True, _lock(s, "delete-item", lambda b: _delitem(b, i), lambda V: _delitem(V, i), "refuse", i=i)

    if name == "dels":
        i, j = op[1], op[2]
        L = _slen(i, j, None, n)
        s.last_class = "dels/%s" % ("empty" if L == 0 else "nonempty")
        sl = slice(i, j)
        # an empty deletion keeps the length: refusing it and doing nothing are both within the statement
        return True, _lock(s, "delete-slice", lambda b: _delitem(b, sl), lambda V: _delitem(V, sl),
                           "tolerant" if L == 0 else "refuse", slice=[i, j])

    if name in ("gs3", "ss3"):
        i, j, st = op[1], op[2], op[3]
        step = STEPS[st]
        sl = slice(i, j, step)
        plain = st in STEP1
        if name == "gs3":
            s.last_class = "gs3/step=%s" % st
            return True, _lock(s, "slice3-read", lambda b: b[sl], lambda V: bytes(V[sl]),
                               "exact" if plain else "tolerant", slice=[i, j, st])
        src = op[4]
        istep = 1 if plain else step
        L = _slen(i, j, istep, n)
        Ld = _slen(i, j, None, n) if src == "span" else L + (src == "long")
        data = bytes(0xD0 + k for k in range(Ld))
        s.last_class = "ss3/step=%s/%s" % (st, src)
        if Ld != L or istep == 0:
            mode = "refuse"              # would change the length (or is no slice at all)
        else:
            mode = "exact" if plain else "tolerant"
        return True, _lock(s, "slice3-assign", lambda b: _setitem(b, sl, data), lambda V: _setitem(V, sl, data),
                           mode, slice=[i, j, st], src=src)

    if name == "setv":
        i, vk = op[1], op[2]
        val = {"int": 0xC5, "bytearray1": bytearray(b"\xc5"), "mview1": memoryview(b"\xc5"), "empty": b"",
               "two": b"\xc5\xc6", "str1": "A", "none": None}[vk]
        s.last_class = "setv/%s/%s" % (vk, "in" if -n <= i < n else "out")
        return True, _lock(s, "item-assign-value", lambda b: _setitem(b, i, val), lambda V: _setitem(V, i, 0xC5),
                           "tolerant" if vk in VAL_TOLERANT else "refuse", i=i, value=vk)

    if name in ("geti", "seti"):
        kind, i = op[1], op[2]
        k = _mkidx(kind, i)
        s.last_class = "%s/%s" % (name, kind)
        if name == "geti":
            return True, _lock(s, "index-object-read", lambda b: b[k], lambda V: bytes([V[k]]),
                               index_error=True, ikind=kind, i=i)
        return True, _lock(s, "index-object-write", lambda b: _setitem(b, k, b"\xc9"), lambda V: _setitem(V, k, 0xC9),
                           index_error=True, ikind=kind, i=i)

    if name in ("gsi", "ssi"):
        kind, i, j = op[1], op[2], op[3]
        sl = slice(_mkidx(kind, i), _mkidx(kind, j))
        s.last_class = "%s/%s" % (name, kind)
        if name == "gsi":
            return True, _lock(s, "slice-index-object-read", lambda b: b[sl], lambda V: bytes(V[sl]),
                               ikind=kind, slice=[i, j])
        data = bytes(0xD0 + k for k in range(_slen(i, j, None, n)))
        return True, _lock(s, "slice-index-object-assign", lambda b: _setitem(b, sl, data),
                           lambda V: _setitem(V, sl, data), ikind=kind, slice=[i, j])

    if name == "rd":
        what = op[1]
        s.last_class = "rd/%s" % what
        V0 = bytes(s.M[a:a + n])
        if what == "len":
            f, g = len, len
        elif what == "iter":
            f, g = list, (lambda V: [bytes([x]) for x in V])
        elif what == "reversed":
            f, g = (lambda b: list(reversed(b))), (lambda V: [bytes([x]) for x in reversed(V)])
        elif what in ("in-first", "in-absent"):
            if what == "in-first":
                x = V0[0] if n else 0
            else:
                x = next(v for v in range(256) if v not in V0)
            f, g = (lambda b: bytes([x]) in b), (lambda V: x in V)
        elif what == "mv-list":
            f, g = (lambda b: memoryview(b).tolist()), list
        elif what == "mv-meta":
            def f(b):
                m = memoryview(b)
                return (m.nbytes, m.format, m.itemsize, m.ndim, m.shape, m.strides, m.readonly, m.contiguous)
            g = f
        elif what == "bytearray":
            f = g = bytearray
        elif what == "join":
            f = g = lambda x: b"-".join([x, x])
        elif what == "bytes-mv":
            f = g = lambda x: bytes(memoryview(x))
        else:
            raise InfraError("rd %r" % (what,))
        return True, _lock(s, "read-" + what, f, g)

    if name == "cmp":
        opn, other = op[1], op[2]
        fn = CMPOPS[opn]
        V0 = bytes(s.M[a:a + n])
        refl = other.startswith("refl-")
        flip0 = bytes([V0[0] ^ 0x80]) + V0[1:] if n else b"\x80"
        if other in ("eq", "refl-eq"):
            oi = om = V0
        elif other == "longer":
            oi = om = V0 + b"\0"
        elif other == "shorter":
            oi = om = V0[:-1]
        elif other in ("flip0", "refl-flip0"):
            oi = om = flip0
        elif other == "fliplast":
            oi = om = V0[:-1] + bytes([V0[-1] ^ 0x80]) if n else b"\x7f"
        elif other == "bytearray":
            oi = om = bytearray(V0)
        elif other == "mview":
            oi = om = memoryview(V0)
        elif other == "cffi":
            oi, om = ffi.buffer(s._ptr(off), n), V0
        elif other == "cffi-whole":
            oi, om = ffi.buffer(s._ptr(0), N), bytes(s.M[s.lo:s.lo + N])
        else:
            raise InfraError("cmp other %r" % (other,))
        s.last_class = "cmp/%s/%s" % (opn, other)
        if refl:
            return True, _lock(s, "compare", lambda b: fn(oi, b), lambda V: fn(om, V), opname=opn, other=other)
        return True, _lock(s, "compare", lambda b: fn(b, oi), lambda V: fn(V, om), opname=opn, other=other)

    if name == "mvset":
        i, j, src = op[1], op[2], op[3]
        L = _slen(i, j, None, n)
        data = bytes(0xD0 + k for k in range(L + (src == "long")))
        s.last_class = "mvset/%s" % src

        def w(x):
            memoryview(x)[i:j] = data
        return True, _lock(s, "memoryview-slice-assign", w, w, slice=[i, j], src=src)

    if name == "mvset1":
        i = op[1]
        s.last_class = "mvset1"

        def w1(x):
            memoryview(x)[i] = 0xC7
        return True, _lock(s, "memoryview-item-assign", w1, w1, index_error=True, i=i)

    if name in ("pack", "unpack"):
        o = op[1]
        s.last_class = name
        if name == "pack":
            return True, _lock(s, "pack_into", lambda x: struct.pack_into("<H", x, o, 0xABCD),
                               lambda x: struct.pack_into("<H", x, o, 0xABCD), offset=o)
        return True, _lock(s, "unpack_from", lambda x: struct.unpack_from("<H", x, o),
                           lambda x: struct.unpack_from("<H", x, o), offset=o)

    if name == "readinto":
        k = op[1]
        s.last_class = "readinto"
        data = bytes(0x30 + q for q in range(k))
        return True, _lock(s, "readinto", lambda x: io.BytesIO(data).readinto(x), lambda x: io.BytesIO(data).readinto(x),
                           count=k)

    return False, None
