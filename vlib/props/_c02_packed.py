"""C02 supplement (family P): bitfields in packed structs (cdef(..., packed=True) / pack=2).

With packing, the storage unit of a bitfield may start at any byte.  Every shape x
type x width below is judged on what does not depend on the placement (which the
layout property leaves open for packed bitfields): range, read-back, the other
fields and the neighbouring objects -- and on the bytes cffi touches: a field is accessed through a
unit of sizeof(type) bytes at the field's byte offset, which must lie inside the
object.  That last clause is decided twice: from the field table (offset +
sizeof(type) <= sizeof(struct)) and, for the shapes where it fails, by reading and
writing the field of a struct placed in the last bytes before an unmapped page
(in a forked child; a SIGSEGV there is the observation).
"""
import ctypes
import mmap
import os


TYPES = [("unsigned char", 8, False), ("short", 16, True), ("int", 32, True), ("unsigned int", 32, False),
         ("long long", 64, True)]
SHAPES = {
    "byte-then-field": "char a; %(T)s f:%(w)d;",
    "field8-then-field": "%(T)s a:8; %(T)s f:%(w)d;",
    "byte-short-field-field": "char a; short h; %(T)s f:%(w)d; %(T)s g:7;",
    "field-then-byte": "%(T)s f:%(w)d; char z;",
    "three-bytes-then-field": "char a[3]; %(T)s f:%(w)d; char z;",
}


def shapes():
    out = []
    for pack in ("packed", 2):
        for sname in sorted(SHAPES):
            for T, bits, sg in TYPES:
                for w in sorted({1, 3, 7, 8, bits - 8, bits}):
                    if 1 <= w <= bits:
                        out.append((pack, sname, T, bits, sg, w, SHAPES[sname] % {"T": T, "w": w}))
    return out


def _guard_page_probe(ffi, tn, size, v):
    """True if reading+writing field f of a struct in the last `size` bytes before an unmapped page survives."""
    pid = os.fork()
    if pid == 0:
        rc = 3
        try:
            libc = ctypes.CDLL(None, use_errno=True)
            libc.mmap.restype = ctypes.c_void_p
            libc.mmap.argtypes = [ctypes.c_void_p, ctypes.c_size_t, ctypes.c_int, ctypes.c_int, ctypes.c_int, ctypes.c_long]
            libc.mprotect.argtypes = [ctypes.c_void_p, ctypes.c_size_t, ctypes.c_int]
            base = libc.mmap(None, 8192, 3, mmap.MAP_PRIVATE | mmap.MAP_ANONYMOUS, -1, 0)
            if base in (None, ctypes.c_void_p(-1).value) or libc.mprotect(base + 4096, 4096, 0) != 0:
                os._exit(4)
            p = ffi.cast(tn + " *", base + 4096 - size)
            p.f = v
            rc = 0 if p.f == v else 5
        except BaseException:
            rc = 6
        os._exit(rc)
    _, st = os.waitpid(pid, 0)
    if os.WIFSIGNALED(st):
        return ("signal", os.WTERMSIG(st))
    code = os.WEXITSTATUS(st)
    if code in (3, 4):
        raise RuntimeError("guard page could not be set up")
    return ("exit", code)


def _val(x):
    try:
        return list(x)
    except TypeError:
        return x


def work(_arg):
    import cffi
    items = shapes()
    bad = []
    probed = {}
    ncases = nrefused = 0
    for i, it in enumerate(items):
        pack, sname, T, bits, sg, w, body = it
        ffi = cffi.FFI()
        tn = "struct q%d" % i
        try:
            ffi.cdef("%s { %s };" % (tn, body), **({"packed": True} if pack == "packed" else {"pack": pack}))
            size = ffi.sizeof(tn)
            p = ffi.new(tn + " *")
        except NotImplementedError:
            nrefused += 1           # "gcc would compile field ... to reuse some bits": a declared refusal, nothing accessed
            continue
        except Exception as e:
            bad.append((it, "rejected", {"error": "%s: %s" % (type(e).__name__, e)}))
            continue
        fld = dict(ffi.typeof(tn).fields)["f"]
        unit = ffi.sizeof(fld.type)
        lo, hi = (-(1 << (w - 1)), (1 << (w - 1)) - 1) if sg else (0, (1 << w) - 1)
        if fld.offset + unit > size:
            # the dynamic confirmation once per (packing, type): a fork each
            if (pack, T) not in probed:
                probed[(pack, T)] = _guard_page_probe(ffi, tn, size, hi)
                g = probed[(pack, T)]
            else:
                g = ("not-run", "see the first shape of this type")
            bad.append((it, "storage-unit-past-object",
                        {"field_offset": fld.offset, "unit_bytes": unit, "sizeof_struct": size, "guard_page_probe": list(g)}))
        # three structs side by side; the placement itself is cffi's own (the layout of packed bitfields is
        # not compared with gcc: the layout property excludes packing together with bitfields): what is judged
        # is range, read-back, the other fields of the object and the neighbouring objects
        arr = ffi.new(tn + "[3]")
        buf = ffi.buffer(arr)
        others = [n for n, _f in ffi.typeof(tn).fields if n != "f"]
        for bgbyte in (0x00, 0xFF):
            for v in sorted({lo, hi, 0, hi // 2, lo // 2, hi + 1, lo - 1}):
                ncases += 1
                buf[:] = bytes([bgbyte]) * (3 * size)
                before = [_val(getattr(arr[1], n)) for n in others]
                try:
                    arr[1].f = v
                    ok = True
                except OverflowError:
                    ok = False
                except Exception as e:
                    bad.append((it, "store-raises", {"v": v, "error": "%s: %s" % (type(e).__name__, e)}))
                    continue
                img = bytes(buf)
                if ok != (lo <= v <= hi or (sg and w == 1 and v == 1)):
                    bad.append((it, "accepts-out-of-range" if ok else "rejects-in-range", {"v": v}))
                    continue
                if img[:size] != bytes([bgbyte]) * size or img[2 * size:] != bytes([bgbyte]) * size:
                    bad.append((it, "neighbour-object-modified", {"v": v, "bg": bgbyte, "image": img.hex()}))
                if not ok:
                    if img != bytes([bgbyte]) * (3 * size):
                        bad.append((it, "rejected-but-modified", {"v": v}))
                    continue
                want = -1 if (sg and w == 1 and v == 1) else v
                if arr[1].f != want:
                    bad.append((it, "readback", {"v": v, "got": arr[1].f}))
                after = [_val(getattr(arr[1], n)) for n in others]
                if after != before:
                    bad.append((it, "other-field-changed", {"v": v, "fields": others, "before": before, "after": after}))
    return len(items), ncases, nrefused, bad
