"""C27 helper: the finite table of type expressions, the ways to build each of them and their spellings.

A type is described by a TERM (the model's structural key):
    ("prim", name) | ("void",) | ("ptr", T) | ("arr", T, n|None) | ("fn", (T...), T, ellipsis, abi|None)
    | ("struct", 1|2) | ("enum",)
("struct", 1) and ("struct", 2) are two DIFFERENT struct types that are both called 'struct S' (aggregates are not
unique-cached: pointers to them must differ although they print the same).  The registry gives every term a short
NAME, which is what operations, histories and violation signatures show.
"""
from ..build import InfraError

INT, CHAR, VOID = ("prim", "int"), ("prim", "char"), ("void",)
S1, S2, EN = ("struct", 1), ("struct", 2), ("enum",)


def Ptr(t):
    return ("ptr", t)


def Arr(t, n):
    return ("arr", t, n)


def Fn(args, res, ell=False, abi=None):
    return ("fn", tuple(args), res, bool(ell), abi)


TERMS = {}      # name -> term
NAMES = {}      # term -> name
CNAME = {}      # name -> expected ctype.cname without blanks (None: not compared)
GROUP = {}      # name -> group label


def _reg(group, name, term, cname=""):
    if name in TERMS or term in NAMES:
        raise InfraError("duplicate type %r" % name)
    TERMS[name] = term
    NAMES[term] = name
    GROUP[name] = group
    CNAME[name] = (name.split("@")[0] if cname == "" else cname)


IP = Ptr(INT)
FII = Fn((INT,), INT)
# the 12 expressions the check started with
_reg("base", "int", INT)
_reg("base", "char", CHAR)
_reg("base", "int*", IP)
_reg("base", "char*", Ptr(CHAR))
_reg("base", "int**", Ptr(IP))
_reg("base", "int[2]", Arr(INT, 2))
_reg("base", "int[]", Arr(INT, None))
_reg("base", "int*[2]", Arr(IP, 2))
_reg("base", "int(*)(int)", FII)
_reg("base", "int(*)(int,...)", Fn((INT,), INT, True))
_reg("base", "char(*)(int)", Fn((INT,), CHAR))
# (the printed name of this one keeps the spelling of the arguments it was first built with -- 'int(*)(int[])' --
#  which the statement does not speak about: cname not compared)
_reg("base", "int(*)(int*)", Fn((IP,), INT), cname=None)
# the ABI component of the function-type key (x86-64 Linux: 2 = default, 3 = win64, 4 = gnuw64)
_reg("abi", "int(*)(int)@3", Fn((INT,), INT, False, 3))
_reg("abi", "int(*)(int)@4", Fn((INT,), INT, False, 4))
_reg("abi", "int(*)(int,...)@3", Fn((INT,), INT, True, 3))
# shapes with constructor branches of their own
_reg("shape", "void", VOID)
_reg("shape", "void*", Ptr(VOID))
_reg("shape", "int(*)(void)", Fn((), INT), cname="int(*)()")
_reg("shape", "void(*)(int,char)", Fn((INT, CHAR), VOID))
_reg("shape", "void(*)(char,int)", Fn((CHAR, INT), VOID))
_reg("shape", "int[3]", Arr(INT, 3))
_reg("shape", "int[2][3]", Arr(Arr(INT, 3), 2))
_reg("shape", "int(*)[2]", Ptr(Arr(INT, 2)))
_reg("shape", "int[0]", Arr(INT, 0))
_reg("shape", "int(*(*)(int))[2]", Fn((INT,), Ptr(Arr(INT, 2))))
_reg("shape", "int(*)(int(*)(int))", Fn((FII,), INT))
_reg("shape", "S1*", Ptr(S1), cname="structS*")
_reg("shape", "S2*", Ptr(S2), cname="structS*")
_reg("shape", "S1[2]", Arr(S1, 2), cname="structS[2]")
_reg("shape", "int(*)(S1)", Fn((S1,), INT), cname="int(*)(structS)")
_reg("shape", "S1(*)(int)", Fn((INT,), S1), cname="structS(*)(int)")
_reg("shape", "E*", Ptr(EN), cname="enumE*")
# further primitives (several spellings each)
_reg("prim", "unsigned int", ("prim", "unsigned int"), cname="unsignedint")
_reg("prim", "long", ("prim", "long"))
_reg("prim", "_Bool", ("prim", "_Bool"))
# reached by navigation / by the weakref callbacks only
_reg("nav", "char[]", Arr(CHAR, None))
_reg("nav", "int*[]", Arr(IP, None))
_reg("nav", "int(*)[]", Ptr(Arr(INT, None)))
_reg("nav", "int***", Ptr(Ptr(IP)))
_reg("nav", "int**[2]", Arr(Ptr(IP), 2))
_reg("nav", "int(*)[3]", Ptr(Arr(INT, 3)))

BASE12 = [n for n in TERMS if GROUP[n] == "base"]
ABI3 = [n for n in TERMS if GROUP[n] == "abi"]
SHAPES = [n for n in TERMS if GROUP[n] == "shape"]


class Env(object):
    """The aggregates of one system (never unique-cached, so they are created once and kept)."""

    def __init__(self):
        self._s = {}
        self._e = None

    def struct(self, n):
        if n not in self._s:
            import _cffi_backend as B
            s = B.new_struct_type("struct S")
            B.complete_struct_or_union(s, [("x", B.new_primitive_type("int"), -1)])
            self._s[n] = s
        return self._s[n]

    def enum(self):
        if self._e is None:
            import _cffi_backend as B
            self._e = B.new_enum_type("enum E", ("EA",), (0,), B.new_primitive_type("unsigned int"))
        return self._e


def construct_term(t, env):
    """Build through the backend constructors only (no parser involved)."""
    import _cffi_backend as B
    k = t[0]
    if k == "prim":
        return B.new_primitive_type(t[1])
    if k == "void":
        return B.new_void_type()
    if k == "ptr":
        return B.new_pointer_type(construct_term(t[1], env))
    if k == "arr":
        return B.new_array_type(B.new_pointer_type(construct_term(t[1], env)), t[2])
    if k == "fn":
        args = tuple(construct_term(a, env) for a in t[1])
        res = construct_term(t[2], env)
        if t[4] is None:
            return B.new_function_type(args, res, t[3])
        return B.new_function_type(args, res, t[3], t[4])
    if k == "struct":
        return env.struct(t[1])
    if k == "enum":
        return env.enum()
    raise InfraError(t)


def construct(name, env):
    return construct_term(TERMS[name], env)


# ---- spellings --------------------------------------------------------------------------------
# PLAIN[name] = type strings accepted by BOTH parsers (pycparser + cparser.py; parse_c_type.c); index 0 is the
# canonical one.  INLINE_ONLY: only the in-line parser evaluates constant expressions.  TYPEDEF: need the cdef below
# (shared in-line FFI, generated module).
PLAIN = {
    "int": ["int", "signed int", "signed", "int const", "  int "],
    "char": ["char"],
    "unsigned int": ["unsigned int", "unsigned"],
    "long": ["long", "long int"],
    "_Bool": ["_Bool", "bool"],
    "int*": ["int *", "int const *", "int *restrict", "int*", "  int  *  "],
    "char*": ["char *"],
    "int**": ["int * *", "int * const *"],
    "int[2]": ["int[2]", "volatile int[2]", "int[0x2]", "int[02]"],
    "int[]": ["int[]", "int const[]"],
    "int*[2]": ["int *[2]", "int *[0x2]"],
    "int(*)(int)": ["int(*)(int)", "int(*)(const int)", "int(__stdcall *)(int)", "int(*const)(int)",
                    "int (*) (int x)"],
    "int(*)(int,...)": ["int(*)(int, ...)", "int (*) (int,...)"],
    "char(*)(int)": ["char(*)(int)"],
    "int(*)(int*)": ["int(*)(int *)", "int(*)(int[5])", "int(*)(int[])", "int(*)(int const *)"],
    "void": ["void"],
    "void*": ["void *", "const void *"],
    "int(*)(void)": ["int(*)(void)", "int(*)()"],
    "void(*)(int,char)": ["void(*)(int, char)", "void (*)(int a, char b)"],
    "void(*)(char,int)": ["void(*)(char, int)"],
    "int[3]": ["int[3]"],
    "int[2][3]": ["int[2][3]", "int[0x2][3]"],
    "int(*)[2]": ["int(*)[2]", "int const (*)[2]"],
    "int[0]": ["int[0]"],
    "int(*(*)(int))[2]": ["int(*(*)(int))[2]"],
    "int(*)(int(*)(int))": ["int(*)(int(*)(int))", "int(*)(int(int))"],
}
INLINE_ONLY = {"int[2]": ["int[1+1]"], "int[3]": ["int[2+1]"]}
CDEF = "typedef int myint_t; typedef int *ip_t; typedef int arr2_t[2]; typedef int fn_t(int); int abs(int);"
MODULE_TYPENAMES = ["myint_t", "ip_t", "arr2_t", "fn_t *"]
TYPEDEF = {
    "int": ["myint_t", "const myint_t"],
    "int*": ["ip_t", "myint_t *", "ip_t const"],
    "int**": ["ip_t *"],
    "int[2]": ["arr2_t", "myint_t[2]"],
    "int*[2]": ["ip_t[2]"],
    "int(*)(int)": ["fn_t *", "int(*)(myint_t)", "myint_t(*)(myint_t)"],
    "int(*)(int,...)": ["myint_t(*)(myint_t, ...)"],
    "int(*)(int*)": ["int(*)(ip_t)", "int(*)(arr2_t)"],
    "int(*)(int(*)(int))": ["int(*)(fn_t *)"],
    "int(*)[2]": ["arr2_t *"],
}
PARSER_VIAS = ("inline", "compiled", "inline-shared", "compiled-shared", "module")
HOLDERS = ("inline-shared", "compiled-shared", "module")


_spell_cache = {}


def spellings(name, via):
    """The type strings by which `via` can be asked for `name` ([] = this route cannot build it)."""
    try:
        return _spell_cache[name, via]
    except KeyError:
        r = _spell_cache[name, via] = _spellings(name, via)
        return r


def _spellings(name, via):
    if via == "ctor":
        return [None]
    if via in ("ctor-arr", "ctor-arr5"):
        return [None] if name == "int(*)(int*)" else []
    if via == "module-func":          # typeof(lib.abs) of the generated module: realize_c_type of a function global
        return [None] if name == "int(*)(int)" else []
    if via == "addressof":            # ffi.addressof(array cdata): new_pointer_type(array type)
        return [None] if name in ("int(*)[2]", "int(*)[3]") else []
    if via not in PARSER_VIAS:
        raise InfraError(via)
    sp = list(PLAIN.get(name, ()))
    if via in ("inline", "inline-shared"):
        sp += INLINE_ONLY.get(name, [])
    if via in ("inline-shared", "module"):
        sp += TYPEDEF.get(name, [])
    return sp


_modsrc = [None]


def module_source():
    """Python source of an out-of-line ABI-mode module for CDEF (generated once per process; no C compiler)."""
    if _modsrc[0] is None:
        import contextlib
        import io
        import os
        import cffi
        from .. import build
        f = cffi.FFI()
        f.cdef(CDEF)
        f.set_source("_c27_mod", None)
        path = os.path.join(build.scratch(), "_c27_mod_%d.py" % os.getpid())
        with contextlib.redirect_stdout(io.StringIO()):
            f.emit_python_code(path)
        with open(path) as fp:
            _modsrc[0] = compile(fp.read(), path, "exec")
    return _modsrc[0]


def new_module_ffi():
    """A fresh instance of the generated module's FFI (own types[] table, own types_dict)."""
    ns = {}
    exec(module_source(), ns)
    return ns["ffi"]
