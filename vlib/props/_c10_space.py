"""C10: the enumerated space -- value alphabet, enumerator options, declaration forms, name
styles, and the finite families built from them.  No cffi, no gcc in here.

A *spec* is a tuple (family, form, style, seq):

  seq    tuple of enumerator options
           ("v", i)   explicit value VALUES[i] (decimal spelling)
           ("i",)     implicit (previous + 1)
           ("r", j)   = the j-th enumerator of the same enum
           ("x", i)   = PRE_i, the enumerator of the earlier tagged enum  `enum pre<i> { PRE_<i> = VALUES[i] };`
           ("a", i)   = AN_i,  the enumerator of the earlier anonymous enum `enum { AN_<i> = VALUES[i] };`
           ("d", i)   = DEF_i, from the earlier `#define DEF_<i> <VALUES[i]>`
           ("h", j)   explicit value in the non-decimal / suffixed spelling SPELLINGS[j]
           ("w", n)   explicit value n (any int), decimal spelling
  form   where / how the enum is declared (FORMS)
  style  how the enumerators are named
           ("L",)        <tag>a, <tag>b, ...                      (sorted = declaration order, no prefix relation)
           ("N",)        <tag>n0, <tag>n1, ... <tag>n10 ...        (prefix related; sorted != declaration order)
           ("P", perm)   <tag> + SHAPES[perm[k]]                   (prefix related inside the enum)
           ("S", perm)   SHAPES[perm[k]] + <tag>                   (enumerators of all enums of the FFI interleave in
                                                                    sorted order; prefix related across enums)
  family label used for the evidence counters only
"""
import itertools

# value alphabet: (label, value, C spelling valid for both gcc and the statement's literal forms)
VALUES = [
    ("-2^63", -2 ** 63, "(-9223372036854775807-1)"),
    ("-2^31-1", -2 ** 31 - 1, "-2147483649"),
    ("-2^31", -2 ** 31, "-2147483648"),
    ("-1", -1, "-1"),
    ("0", 0, "0"),
    ("1", 1, "1"),
    ("2^31-1", 2 ** 31 - 1, "2147483647"),
    ("2^31", 2 ** 31, "2147483648"),
    ("2^32-1", 2 ** 32 - 1, "4294967295"),
    ("2^32", 2 ** 32, "4294967296"),
    ("2^63-1", 2 ** 63 - 1, "9223372036854775807"),
    ("2^63", 2 ** 63, "9223372036854775808u"),
    ("2^64-1", 2 ** 64 - 1, "18446744073709551615u"),
]
FULL = list(range(len(VALUES)))
SUBSET = [3, 4, 6, 7, 8, 11]        # -1, 0, 2^31-1, 2^31, 2^32-1, 2^63
SUBSET5 = [3, 6, 8, 11]             # -1, 2^31-1, 2^32-1, 2^63 (length 5, thorough)
NSUB3 = [3, 7, 11]                  # -1, 2^31, 2^63 (name family, length 1; length 2 in the thorough tier)
NSUB2 = [3, 7]                      # -1, 2^31       (name family, length 3; length 2 in the quick tier)
LETTERS = "abcdefgh"

# other spellings of non-negative values (the negative / arithmetic ones belong to C09: K09-unsigned-arith)
SPELLINGS = [
    ("hex 2^31", 2 ** 31, "0x80000000"),
    ("hex 2^32-1", 2 ** 32 - 1, "0xffffffff"),
    ("hex 2^63", 2 ** 63, "0x8000000000000000"),
    ("HEX 2^64-1 ull", 2 ** 64 - 1, "0xFFFFFFFFFFFFFFFFull"),
    ("octal 2^31", 2 ** 31, "020000000000"),
    ("2^31 UL", 2 ** 31, "2147483648UL"),
    # quotients and remainders of operands beyond 2^53 (all signed, all results in range: no unsigned arithmetic)
    ("quotient (2^63-1)/3", (2 ** 63 - 1) // 3, "9223372036854775807 / 3"),
    ("quotient (2^62+1)/1", 2 ** 62 + 1, "4611686018427387905 / 1"),
    ("remainder (2^63-1)%1000003", (2 ** 63 - 1) % 1000003, "9223372036854775807 % 1000003"),
]

# '#define DEF_0 <-2^63>' has no spelling that is an integer literal in C (the one cdef accepts, "-9223372036854775808",
# is the negation of an *unsigned* constant for gcc): not part of the space.
DEFINE_IDX = [i for i in FULL if i != 0]

SHAPES = ["A", "AB", "A_", "_A", "a", "Z9"]

FORMS = {
    # form: the declaration, one line ({body} = "{ name [= value], ... }")
    "tag": "enum {tag} {body};",
    "tdanon": "typedef enum {body} {tag}_t;",
    "tdtag": "typedef enum {tag} {body} {tag}_t;",
    "anon": "enum {body};",
    "later": "enum {tag} {body}; typedef enum {tag} {tag}_u;",
    "tdtwo": "typedef enum {body} {tag}_t, *{tag}_p;",
    "field": "struct h{tag} {{ char c; enum {tag} {body} f; }};",
    "fieldanon": "struct h{tag} {{ char c; enum {body} f; }};",
    "func": "enum {tag} {body} f{tag}(void);",
    "var": "extern enum {tag} {body} v{tag};",
}
# what the C source of the API module says where it cannot be the cdef text (a definition is needed)
FORM_CSOURCE = {"func": "enum {tag} {body} f{tag}(void) {{ return (enum {tag})0; }}",
                "var": "enum {tag} {body} v{tag};"}
FORM_TYPE = {          # how the enum type is named afterwards: (cffi side, C side)
    "tag": ("enum {tag}", "enum {tag}"),
    "tdanon": ("{tag}_t", "{tag}_t"),
    "tdtag": ("{tag}_t", "{tag}_t"),
    "anon": (None, None),                         # constants only
    "later": ("{tag}_u", "{tag}_u"),
    "tdtwo": ("{tag}_t", "{tag}_t"),
    "field": ("enum {tag}", "enum {tag}"),
    "fieldanon": (("field", "struct h{tag}", "f"), "__typeof__(((struct h{tag} *)0)->f)"),
    "func": ("enum {tag}", "enum {tag}"),
    "var": ("enum {tag}", "enum {tag}"),
}
FORM_STRUCT = {"field": "struct h{tag}", "fieldanon": "struct h{tag}"}
# ("fieldanon" and "anon" are the ones whose size / signedness come from cffi's own model in API mode: an enum that has a
# typedef name is measured by the C compiler through that name)
MAIN_FORMS = ["tdanon", "tdtag", "anon", "field", "fieldanon"]
MORE_FORMS = ["later", "tdtwo", "func", "var"]

# values cast to the enum type for ffi.string(): type minima / maxima of all four candidate types, wrapped casts
CASTS = [7, -7, 11, -11, 13, -1, 2 ** 31 - 1, 2 ** 31, -2 ** 31, 2 ** 32 - 1, 2 ** 63 - 1, -2 ** 63, 2 ** 64 - 1]

BIG_N = 300
# (gcc refuses the runs that cross INT_MAX, LONG_MAX and ULONG_MAX -- "overflow in enumeration values" -- but widens
# across UINT_MAX; the refused ones stay in the space and are counted as excluded)
BIG_STARTS = [-150, -2 ** 31, -2 ** 31 - 150, -2 ** 63, 0, 2 ** 31 - 150, 2 ** 31, 2 ** 32 - 150, 2 ** 63 - 150, 2 ** 63,
              2 ** 64 - 150]


def lit(v):
    """decimal C spelling of any value in [-2^63, 2^64)"""
    if v == -2 ** 63:
        return "(-9223372036854775807-1)"
    if v > 2 ** 63 - 1:
        return "%du" % v
    return "%d" % v


def prelude():
    """The earlier constants that ("x"|"a"|"d", i) refer to: one line each."""
    lines = []
    for i, (_, v, sp) in enumerate(VALUES):
        lines.append("enum pre%d { PRE_%d = %s };" % (i, i, sp))
        lines.append("enum { AN_%d = %s };" % (i, sp))
        if i in DEFINE_IDX:
            lines.append("#define DEF_%d %s" % (i, sp))
    return lines


def names_of(style, tag, n):
    kind = style[0]
    if kind == "L":
        return [tag + LETTERS[k] for k in range(n)]
    if kind == "N":
        return ["%sn%d" % (tag, k) for k in range(n)]
    if kind == "P":
        return [tag + SHAPES[style[1][k]] for k in range(n)]
    if kind == "S":
        return [SHAPES[style[1][k]] + tag for k in range(n)]
    raise ValueError(style)


def body_text(seq, names):
    parts = []
    for k, e in enumerate(seq):
        nm = names[k]
        c = e[0]
        if c == "i":
            parts.append(nm)
            continue
        if c == "v":
            rhs = VALUES[e[1]][2]
        elif c == "r":
            rhs = names[e[1]]
        elif c == "x":
            rhs = "PRE_%d" % e[1]
        elif c == "a":
            rhs = "AN_%d" % e[1]
        elif c == "d":
            rhs = "DEF_%d" % e[1]
        elif c == "h":
            rhs = SPELLINGS[e[1]][2]
        elif c == "w":
            rhs = lit(e[1])
        else:
            raise ValueError(e)
        parts.append("%s = %s" % (nm, rhs))
    return "{ %s }" % ", ".join(parts)


def norm_spec(spec):
    """after a JSON round trip: lists -> tuples"""
    def tup(o):
        return tuple(tup(x) for x in o) if isinstance(o, (list, tuple)) else o
    fam, form, style, seq = spec
    return (fam, form, tup(style), tup(seq))


def make_item(tag, spec):
    fam, form, style, seq = spec
    names = names_of(style, tag, len(seq))
    body = body_text(seq, names)
    text = FORMS[form].format(tag=tag, body=body)
    ctext = FORM_CSOURCE[form].format(tag=tag, body=body) if form in FORM_CSOURCE else text
    t_py, t_c = FORM_TYPE[form]
    if isinstance(t_py, tuple):
        t_py = tuple(x.format(tag=tag) for x in t_py)
    elif t_py is not None:
        t_py = t_py.format(tag=tag)
    if t_c is not None:
        t_c = t_c.format(tag=tag)
    struct = FORM_STRUCT[form].format(tag=tag) if form in FORM_STRUCT else None
    return {"tag": tag, "spec": spec, "fam": fam, "form": form, "seq": seq, "names": names, "text": text, "ctext": ctext,
            "T": t_py, "CT": t_c, "struct": struct}


def needs_prelude(spec):
    return any(e[0] in "xad" for e in spec[3])


# ---------------------------------------------------------------------------------------
# sequences

def sequences(length, alphabet, extra=(), need_extra=False):
    """All sequences of `length` enumerators, each one of: an explicit value of `alphabet`, implicit, '= any earlier
    enumerator of this enum', or one of the `extra` options; with need_extra only those using an extra option."""
    opts_v = [("v", i) for i in alphabet]
    extra = list(extra)
    xset = set(extra)

    def rec(prefix):
        if len(prefix) == length:
            if not need_extra or any(e in xset for e in prefix):
                yield tuple(prefix)
            return
        k = len(prefix)
        for o in opts_v + [("i",)] + [("r", j) for j in range(k)] + extra:
            prefix.append(o)
            for s in rec(prefix):
                yield s
            prefix.pop()
    return rec([])


def base_plan(quick):
    if quick:
        return [(1, FULL), (2, FULL), (3, FULL), (4, SUBSET)]
    return [(1, FULL), (2, FULL), (3, FULL), (4, FULL), (5, SUBSET5)]


def enumerate_space(quick):
    """-> (specs in a fixed order, description of the bounds)"""
    specs = []
    seen = set()

    def add(fam, form, style, seq):
        key = (fam == "include", form, style, seq)
        if key not in seen:
            seen.add(key)
            specs.append((fam, form, style, seq))
    L = ("L",)
    bounds = {}

    # 1. the base family: tagged top-level enums
    plan = base_plan(quick)
    for n, alph in plan:
        for s in sequences(n, alph):
            add("base", "tag", L, s)
    bounds["base"] = "tagged enum; (length, alphabet size) = %s" % [(n, len(a)) for n, a in plan]

    # 2. declaration forms
    le2 = [s for n in (1, 2) for s in sequences(n, FULL)]
    le2s = [s for n in (1, 2) for s in sequences(n, SUBSET)]
    le3s = [s for s in sequences(3, SUBSET)]
    for form in MAIN_FORMS:
        for s in le2:
            add("form", form, L, s)
    for form in MORE_FORMS:
        for s in (le2s if quick else le2):
            add("form", form, L, s)
    if not quick:
        for form in MAIN_FORMS + MORE_FORMS:
            for s in le3s:
                add("form", form, L, s)
    bounds["form"] = "forms %s x all sequences of length <= 2 over the 13 values; forms %s x %s" % (
        MAIN_FORMS, MORE_FORMS,
        "length <= 2 over the 6-value subset" if quick else "the same; all nine x length 3 over the 6-value subset")

    # 3. references to constants declared earlier outside the enum, other literal spellings
    xidx = SUBSET if quick else FULL
    extra = ([("x", i) for i in xidx] + [("a", i) for i in xidx] + [("d", i) for i in xidx if i in DEFINE_IDX]
             + [("h", j) for j in range(len(SPELLINGS))])
    for n in (1, 2):
        for s in sequences(n, FULL, extra, need_extra=True):
            add("xref", "tag", L, s)
            if n == 1 or not quick:
                add("xref", "tdanon", L, s)
    bounds["xref"] = ("sequences of length <= 2 over the 13 values + implicit + back-reference + {PRE_i (enumerator of an "
                      "earlier tagged enum), AN_i (of an earlier anonymous enum), DEF_i (#define)} for i in %s + %d "
                      "hex/octal/suffixed spellings, at least one of the latter four kinds; tagged%s" % (
                          "the 6-value subset" if quick else "all 13 values", len(SPELLINGS),
                          ", typedef'd anonymous for length 1" if quick else " and typedef'd anonymous"))

    # 4. enumerator names
    for n, alph in ((1, NSUB3), (2, NSUB2 if quick else NSUB3)):
        for s in sequences(n, alph):
            for perm in itertools.permutations(range(len(SHAPES)), n):
                add("names", "tag", ("P", perm), s)
                add("names", "tag", ("S", perm), s)
    for s in sequences(3, NSUB2):
        perms = (itertools.permutations(range(3), 3) if quick else itertools.permutations(range(len(SHAPES)), 3))
        for perm in perms:
            add("names", "tag", ("P", perm), s)
            if not quick:
                add("names", "tag", ("S", perm), s)
    bounds["names"] = ("name shapes %s as <tag><shape> and <shape><tag>: every arrangement of 1 / 2 of them x sequences "
                       "of length 1 / 2 over {-1, 2^31, 2^63}%s; length 3 over {-1, 2^31}: %s" % (
                           SHAPES, " (length 2: {-1, 2^31})" if quick else "", "the 6 orders of the first three shapes, <tag><shape>" if quick
                           else "every arrangement of 3 shapes, both styles"))

    # 5. long implicit runs crossing the type boundaries
    ns = [BIG_N] if quick else [BIG_N, 2000]
    for n in ns:
        for st in BIG_STARTS:
            add("big", "tag", ("N",), (("w", st),) + (("i",),) * (n - 1))
    bounds["big"] = "one explicit start value of %s followed by %s - 1 implicit enumerators named <tag>n<k>" % (
        [lit(v) for v in BIG_STARTS], ns)

    # 6. seen through an FFI that include()s the declaring one
    for form in ["tag", "tdanon", "tdtag", "anon", "field", "fieldanon"]:
        for s in sequences(1, FULL):
            add("include", form, L, s)
    for form in ["tag", "tdanon", "fieldanon"]:
        for s in sequences(2, SUBSET if quick else FULL):
            add("include", form, L, s)
    bounds["include"] = ("forms tag/tdanon/tdtag/anon/field/fieldanon x length 1 over the 13 values, tag/tdanon/fieldanon x length 2 over %s; "
                         "observed in the declaring FFI and in a second FFI / generated module that include()s it" % (
                             "the 6-value subset" if quick else "the 13 values"))
    return specs, bounds
