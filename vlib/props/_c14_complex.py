"""C14 supplement: complex arguments and results of extern "Python" functions.

libffi cannot describe complex types, so ffi.callback() refuses them; the
extern "Python" trampolines of API mode accept them.  Every signature of a small
alphabet with float/double _Complex in every argument position and as result is
called from compiled C with distinct values; the Python function must see exactly
the values passed and C must receive exactly the value returned.  The module is
compiled with -fstack-protector-all so that a trampoline writing past its
argument/result buffer aborts instead of silently working.
"""
import importlib.util
import itertools
import os

from .. import build

CT = {"fc": "float _Complex", "dc": "double _Complex", "i": "int", "d": "double"}


def signatures():
    sigs = []
    for n in (0, 1, 2, 3):
        for args in itertools.product(("fc", "dc", "i"), repeat=n):
            if n and not any(a in ("fc", "dc") for a in args):
                continue
            for res in ("fc", "dc", "i"):
                if n == 0 and res == "i":
                    continue
                if n == 3 and res != "dc":
                    continue
                sigs.append((res, args))
    return sigs


def value(kind, k):
    if kind == "i":
        return 100 + k
    re = float(k * 8 + 1) + 0.5            # exactly representable in float too
    im = float(k * 8 + 2) + 0.25
    return complex(re, im)


def build_module(sigs, tmpdir, name):
    import cffi
    cdef = []
    src = ["#include <complex.h>\n"]
    for si, (res, args) in enumerate(sigs):
        proto = "%s xp%d(%s)" % (CT[res], si, ", ".join(CT[a] for a in args) or "void")
        cdef.append('extern "Python" %s;' % proto)
        cdef.append("void call%d(double *out);" % si)
        src.append("static %s;\n" % proto)
        cargs = []
        for k, a in enumerate(args):
            v = value(a, k)
            if a == "i":
                cargs.append(str(v))
            else:
                cargs.append("(%s)(%r + %r * I)" % (CT[a], v.real, v.imag))
        if res == "i":
            body = "int r = xp%d(%s); out[0] = r; out[1] = 0;" % (si, ", ".join(cargs))
        else:
            body = "%s r = xp%d(%s); out[0] = creal(r); out[1] = cimag(r);" % (CT[res], si, ", ".join(cargs))
        src.append("void call%d(double *out) { volatile long guard1 = 0x1111; %s (void)guard1; }\n" % (si, body))
    ffi = cffi.FFI()
    ffi.cdef("\n".join(cdef))
    ffi.set_source(name, "".join(src), extra_compile_args=["-O0", "-g0", "-w", "-fstack-protector-all"])
    so = ffi.compile(tmpdir=tmpdir, verbose=False)
    spec = importlib.util.spec_from_file_location(name, so)
    mod = importlib.util.module_from_spec(spec)
    spec.loader.exec_module(mod)
    return mod


def work(item):
    """Runs in a crash-contained worker: returns list of mismatches."""
    sigs = item
    d = os.path.join(build.scratch(), "c14cx")
    os.makedirs(d, exist_ok=True)
    mod = build_module(sigs, d, "_c14cx_%d" % os.getpid())
    ffi, lib = mod.ffi, mod.lib
    bad = []
    n = 0
    for si, (res, args) in enumerate(sigs):
        seen = []
        ret = value(res, 7)

        def body(*a, seen=seen, ret=ret):
            seen.append(a)
            return ret
        ffi.def_extern(name="xp%d" % si)(body)
        out = ffi.new("double[2]")
        getattr(lib, "call%d" % si)(out)
        n += 1
        want_args = tuple(value(a, k) for k, a in enumerate(args))
        decl = "%s xp(%s)" % (CT[res], ", ".join(CT[a] for a in args) or "void")
        if len(seen) != 1:
            bad.append(("python-function-not-called-once", decl, {"calls": len(seen)}))
            continue
        if seen[0] != want_args:
            k = next(i for i, (x, y) in enumerate(zip(seen[0], want_args)) if x != y)
            bad.append(("complex-argument-corrupted", decl,
                        {"position": k, "type": CT[args[k]], "followed_by_argument": k < len(args) - 1,
                         "saw": repr(seen[0][k]), "passed": repr(want_args[k])}))
        got = complex(out[0], out[1]) if res != "i" else int(out[0])
        if got != ret:
            bad.append(("complex-result-wrong", decl, {"got": repr(got), "returned": repr(ret)}))
    return n, bad
