"""C07 -- the Python (in-line) and C (compiled / out-of-line) type-string parsers
denote the same type.

E1: every derivation of depth <= d of the declarator grammar G (see _typegrammar),
in two spellings, plus every single-token deletion / duplication / adjacent swap of
every depth <= 3 string, in three declaration contexts.  Oracle: differential --
cffi.FFI().typeof(s) against the ffi of an imported out-of-line ABI module generated
from the same cdef: both reject, or both accept and denote the same type.
"""
import collections
import gc
import os
import shutil

from .. import build, pool
from ..build import InfraError
from . import _typegrammar as G

ID = "C07"
LEVEL = "exploration"
META = dict(
    engine="E1-enum", level="exploration",
    technique="bounded exhaustive enumeration of all derivations of a declarator grammar and all their one-token "
              "near misses, differential between the two type-string parsers",
    text="Every derivation of depth <= 3 (thorough 4) of a grammar transcribed from the statement (all orderings of "
         "all primitive specifier multisets, const/volatile at every specifier position and after '*', pointer "
         "chains, arrays with decimal/octal/hex/#define/enumerator/empty lengths, function pointers with void / "
         "one / two / variadic parameter lists drawn recursively, __cdecl/__stdcall in both positions, nested "
         "grouping parentheses, over int, char, unsigned long, double, void, _Bool, four typedefs, struct, union, "
         "enum) and every single-token deletion, duplication and adjacent swap of every depth <= 3 string is given "
         "to the in-line FFI and to the FFI of an imported out-of-line module built from the same cdef, in three "
         "declaration contexts (none, direct, via ffi.include; near misses: direct only in the quick tier, none + "
         "direct in the thorough tier).  Both must reject, or return the identical ctype object (same "
         "kind/shape/name where a struct, union or enum occurs).  Every disagreement is attributed to a root cause "
         "by a structural condition on the input; what no listed cause explains is reported as 'unexplained'.",
    note="differential oracle: a defect shared by both parsers is invisible here (C30 and C08 look at each parser "
         "alone); strings whose struct/union/enum/typedef/constant names are not declared in the context are "
         "outside the statement and are counted, not compared")

NM_DEPTH = 3           # near misses are taken of every string of depth <= 3 in both tiers
BLOCK = 1500

_PAIRS = None


def _pairs():
    global _PAIRS
    if _PAIRS is None or _PAIRS[0] != os.getpid():
        d = os.path.join(_workdir(), "w%d" % os.getpid())
        os.makedirs(d, exist_ok=True)
        _PAIRS = (os.getpid(), {c: G.make_pair(c, d) for c in G.CONTEXTS})
    return _PAIRS[1]


def _try(ffi, s):
    try:
        return True, ffi.typeof(s)
    except Exception as e:
        msg = str(e).splitlines()
        return False, "%s: %s" % (type(e).__name__, msg[0] if msg else "")


def judge(pair, s):
    """-> (verdict, inline_obs, compiled_obs); verdict in reject / same / equiv (agreement) or
    c_rejects / py_rejects / different_type (disagreement)."""
    oka, a = _try(pair.inline, s)
    okb, b = _try(pair.compiled, s)
    if not oka and not okb:
        return "reject", a, b
    if oka and not okb:
        return "c_rejects", G.describe(a), b
    if okb and not oka:
        return "py_rejects", a, G.describe(b)
    if a is b:
        return "same", None, None
    if G.equiv(a, b):
        return "equiv", None, None
    return "different_type", G.describe(a), G.describe(b)


AGREE = ("reject", "same", "equiv")


# ---- structural features of a token string (vacuity histogram and cause classification) ----

TYPEDEFS = G.TYPEDEFS
GROUP_OPENERS = G.GROUP_OPENERS
_match_paren = G.match_paren
spec_lists = G.spec_lists


def features(tokens):
    """Structural classes of a token string.  Used for the vacuity histogram and, for the names
    listed in CAUSES, as the input-only condition of one root cause each."""
    f = set()
    n = len(tokens)
    for i, t in enumerate(tokens):
        nxt = tokens[i + 1] if i + 1 < n else None
        prv = tokens[i - 1] if i else None
        if t == "(":
            if nxt == "(" or (nxt in G.ABIS and i + 2 < n and tokens[i + 2] == "("):
                f.add("group_paren_before_paren")
            if nxt in ("*", "["):
                f.add("group_paren")
            if nxt in G.QUALS or (nxt in G.ABIS and i + 2 < n and tokens[i + 2] in G.QUALS):
                f.add("paren_then_qualifier")
            if nxt not in GROUP_OPENERS:
                # a parameter list: is it a single parameter of type void that is not the bare token?
                j = _match_paren(tokens, i)
                if j is not None:
                    inner = tokens[i + 1:j]
                    body = [x for x in inner if x not in G.QUALS]
                    if (len(inner) > 1 and body and body[0] == "void" and
                            (len(body) == 1 or (len(body) == 2 and (body[1] in G.NAMES or body[1] in G.TAGS)
                                                and inner[-1] == body[1]))):
                        f.add("sole_void_param_decorated")
        if t == "*":
            f.add("pointer")
            if nxt in G.QUALS:
                f.add("qual_after_star")
        if t == "[":
            f.add("array")
            if nxt == "]":
                f.add("len_open")
            elif nxt in ("K", "Z"):
                f.add("len_define")
                if nxt == "Z":
                    f.add("len_named_zero")
            elif nxt in ("E1", "E0"):
                f.add("len_enumerator")
                if nxt == "E0":
                    f.add("len_named_zero")
            elif nxt in G.QUALS:
                f.add("qual_inside_brackets")
            elif nxt is not None and nxt.startswith("0x"):
                f.add("len_hex")
            elif nxt is not None and len(nxt) > 1 and nxt[0] == "0":
                f.add("len_octal")
            elif nxt == "0":
                f.add("len_zero")
            elif nxt is not None and nxt.isdigit():
                f.add("len_decimal")
        if t in G.ABIS:
            f.add("abi")
            ok = False
            if prv == "(" and nxt == "*":
                f.add("abi_inside")
                j = _match_paren(tokens, i - 1)
                ok = j is not None and j + 1 < n and tokens[j + 1] == "("
            elif nxt == "(" and i + 2 < n and tokens[i + 2] == "*":
                f.add("abi_outside")
                j = _match_paren(tokens, i + 1)
                ok = j is not None and j + 1 < n and tokens[j + 1] == "("
            if not ok:
                f.add("abi_not_in_position")
        if t == "...":
            f.add("variadic")
            if prv != ",":
                f.add("ellipsis_without_comma")
        if t == ",":
            f.add("two_params")
        if t == "void" and prv == "(" and nxt == ")":
            f.add("void_params")
        if t in ("struct", "union", "enum"):
            f.add("tag_" + t)
        if t in TYPEDEFS:
            f.add("typedef_" + t)
        if t in ("td_s", "St"):
            f.add("tagged_struct_typedef")
    for s, e, quals, specs in spec_lists(tokens):
        # (cparser rewrites `__stdcall (` and `( __stdcall` into qualifiers placed before the '(')
        if not specs and (quals or (e < n and tokens[e] == "__stdcall") or
                          (e + 1 < n and tokens[e] == "(" and tokens[e + 1] == "__stdcall")):
            f.add("no_type_specifier")
        prims = [tokens[k] for k in specs]
        if len(prims) > 1:
            f.add("multi_specifier")
        for k in quals:
            if not specs or k < specs[0]:
                f.add("qual_before_specs")
            elif k > specs[-1]:
                f.add("qual_after_specs")
            else:
                f.add("qual_between_specs")
        nsign = prims.count("signed") + prims.count("unsigned")
        if "signed" in prims and (nsign > 1 or any(x in ("double", "float", "void", "_Bool") for x in prims)):
            f.add("signed_discarded")
        base = [x for x in prims if x in ("int", "char", "double", "float", "void", "_Bool")]
        if base and prims[-1] != base[-1]:
            f.add("specifier_after_base_keyword")
    return f


def _rename(desc, old, new):
    if isinstance(desc, list):
        if desc == old:
            return new
        return [_rename(x, old, new) for x in desc]
    return desc


def causes(tokens, context, verdict, inline_obs=None, compiled_obs=None):
    """Root causes -- decided from the input alone -- that are known to explain a disagreement
    of this kind.  Each is the narrow structural condition of one defect of cffi."""
    f = features(tokens)
    if context == "include" and "len_define" in f:
        f.add("define_from_included_ffi")
    if verdict == "different_type" and "tagged_struct_typedef" in f and inline_obs is not None:
        # #12 explains a difference only if the two types are the same up to the name of that struct
        if _rename(inline_obs, ["struct", "td_s"], ["struct", "struct St"]) != compiled_obs:
            f.discard("tagged_struct_typedef")
    out = []
    for name, kinds in CAUSES:
        if verdict in kinds and name in f:
            out.append(name)
    return out


# (structural feature, disagreement kinds it can explain).  One entry per root cause in cffi:
CAUSES = [
    # DESIGN 6 #11: parse_sequel() recognises a grouping '(' only before '*', 'const', 'volatile', '['
    ("group_paren_before_paren", ("c_rejects",)),
    # DESIGN 6 #12: force_the_name() renames a tagged struct after the typedef that targets it (in-line only)
    ("tagged_struct_typedef", ("different_type",)),
    # parse_complete() stops reading specifiers at the first qualifier that follows short/long/signed/unsigned
    ("qual_between_specs", ("c_rejects",)),
    # cparser._get_type_and_quals() drops 'signed' without checking what it is combined with
    ("signed_discarded", ("c_rejects",)),
    # pycparser/cparser accept a specifier list made of qualifiers only (implicit int)
    ("no_type_specifier", ("c_rejects",)),
    # cparser erases __cdecl / rewrites __stdcall by regular expression wherever they stand
    ("abi_not_in_position", ("c_rejects",)),
    # pycparser accepts C99 '[const]' / '[volatile]' array declarators of parameters
    ("qual_inside_brackets", ("c_rejects",)),
    # cparser replaces '...' by an identifier, so 'T ...' declares a parameter of that name
    ("ellipsis_without_comma", ("c_rejects",)),
    # cparser takes any sole parameter of type void for '(void)'; parse_c_type.c only the bare token
    ("sole_void_param_decorated", ("c_rejects", "different_type")),
    # the in-line FFI takes #define'd integers from an included FFI as array lengths, parse_sequel() looks
    # only in the globals of its own module
    ("define_from_included_ffi", ("c_rejects",)),
    # parse_sequel() takes '(' + const/volatile for grouping parentheses (qualifier before the '*')
    ("paren_then_qualifier", ("py_rejects",)),
]


def work(block):
    """block = (contexts, [strings]).  -> (evaluations, counts, disagreements)"""
    ctxs, strings = block
    pairs = _pairs()
    counts = collections.Counter()
    bad = []
    n = 0
    for s in strings:
        tokens = G.tokenize(s)
        f = None
        for c in ctxs:
            why = G.in_scope(tokens, c)
            if why is not None:
                counts["excluded:%s:%s" % (c, why)] += 1
                continue
            v, a, b = judge(pairs[c], s)
            n += 1
            counts["verdict:%s:%s" % (c, v)] += 1
            if f is None:
                f = features(tokens)
                if f:
                    counts["nontrivial"] += 1
            acc = "accept" if v in ("same", "equiv") else ("reject" if v == "reject" else "disagree")
            for x in f:
                counts["feature:%s:%s" % (x, acc)] += 1
            if v not in AGREE:
                bad.append((c, s, v, a, b))
    return n, dict(counts), bad


# ---------------------------------------------------------------------------------------

def space(ctx):
    depth = 3 if ctx.quick else 4
    if "depth" in getattr(ctx, "opts", {}):
        depth = int(ctx.opts["depth"])
    g = G.Grammar()
    tn = g.typenames(depth)
    base = [t for c, t in tn]
    base_nm = [t for c, t in tn if c <= NM_DEPTH]
    baseset = set(base)
    for t in base:          # self-check of the scope rule: it must not exclude any derivation of G
        if G.in_scope(t, "decls") is not None or G.in_scope(t, "include") is not None:
            raise InfraError("scope rule excludes the derivation %r" % (G.spaced(t),))
    strings_base = set()
    for c, t in tn:
        strings_base.add(G.spaced(t))
        if c <= NM_DEPTH:                 # the second spelling for the depth <= 3 derivations (both tiers)
            strings_base.add(G.dense(t))
    nm = set()
    for t in base_nm:
        for m in G.near_misses(t):
            if m and m not in baseset:
                nm.add(m)
    strings_nm = set(G.spaced(t) for t in nm) - strings_base
    return depth, base, sorted(strings_base), sorted(strings_nm)


def _workdir():
    d = os.path.join(build.scratch_shared(), "c07")
    os.makedirs(d, exist_ok=True)
    return d


def run(ctx):
    d = _workdir()          # created before the workers are forked; they inherit VERIF_SHARED_SCRATCH
    try:
        return _run(ctx)
    finally:
        shutil.rmtree(d, ignore_errors=True)


def _run(ctx):
    depth, base, s_base, s_nm = space(ctx)
    ctx.log("depth %d: %d derivations, %d distinct strings (spaced; dense too up to depth 3), %d distinct "
            "near-miss strings" % (
        depth, len(base), len(s_base), len(s_nm)))
    ctx_base = list(G.CONTEXTS)
    ctx_nm = ["decls"] if ctx.quick else ["empty", "decls"]
    blocks = [(ctx_base, b) for b in pool.chunks(s_base, BLOCK)]
    blocks += [(ctx_nm, b) for b in pool.chunks(s_nm, BLOCK)]
    counts = collections.Counter()
    evaluated = 0
    bad = []
    gc.collect()
    gc.freeze()        # the forked workers must not copy the driver's string lists page by page
    for block, r in pool.pmap(work, [[b] for b in blocks]):
        if isinstance(r, pool.WorkerError):
            raise InfraError("worker failed: %s" % r.tb)
        if isinstance(r, pool.Crash):
            raise InfraError("worker died (%s) in a block starting with %r" % (r.describe(), block[1][0]))
        n, cnt, b = r
        evaluated += n
        counts.update(cnt)
        bad.extend(b)
    nontrivial = counts.pop("nontrivial", 0)
    for k, v in counts.items():
        ctx.count(k, v)
    ctx.log("%d evaluations done, %d disagreements" % (evaluated, len(bad)))
    for i in range(0, len(s_base), max(1, len(s_base) // 40)):
        ctx.sample({"string": s_base[i], "kind": "derivation"})
    for i in range(0, len(s_nm), max(1, len(s_nm) // 40)):
        ctx.sample({"string": s_nm[i], "kind": "near_miss"})

    if getattr(ctx, "opts", {}).get("dump"):        # debugging aid: --opt dump=/path/file.json
        import json
        with open(ctx.opts["dump"], "w") as fdump:
            json.dump(sorted(bad), fdump, indent=0)

    # classify, confirm in fresh FFIs, report (smallest example of every signature first)
    groups = collections.defaultdict(list)
    for c, s, v, a, b in bad:
        tokens = G.tokenize(s)
        cs = causes(tokens, c, v, a, b)
        sig = {"kind": v, "cause": "+".join(cs) if cs else "unexplained"}
        groups[tuple(sorted(sig.items()))].append(((len(tokens), sum(map(len, tokens))), s, c, v, a, b))
    first, rest = [], []
    # single root causes before combinations, so that each gets one of the (limited) replay files
    for key in sorted(groups, key=lambda k: (dict(k)["cause"].count("+"), k)):
        lst = sorted(groups[key])
        first.append((key, lst[0]))
        rest.extend((key, x) for x in lst[1:])
    for key, (_, s, c, v, a, b) in first:
        # the smallest case of every signature must reproduce on FFIs that have seen nothing else
        d = os.path.join(_workdir(), "confirm%d" % len(first))
        os.makedirs(d, exist_ok=True)
        v2, a2, b2 = judge(G.make_pair(c, d), s)
        if v2 != v:
            raise InfraError("verdict for %r in context %s depends on what the FFI parsed before: %s in the "
                             "explorer, %s alone" % (s, c, v, v2))
    for key, (_, s, c, v, a, b) in first + rest:
        ctx.violation(dict(key), {"string": s, "context": c, "verdict": v, "inline": a, "compiled": b})

    counts_accept = 0
    for k, v in counts.items():
        if k.startswith("verdict:") and (k.endswith(":same") or k.endswith(":equiv")):
            counts_accept += v
    cov = {
        "evaluations": evaluated,
        "distinct_nontrivial": nontrivial,
        "rule": "distinct strings: every derivation of depth <= %d of grammar G token-spaced, those of depth <= 3 also "
                "densely spelled, in the contexts %s, plus every single-token deletion, duplication and adjacent swap of "
                "every derivation of depth <= %d (token-spaced) in the contexts %s; an evaluation is one "
                "(string, context) pair given to both parsers; pairs whose names are not declared in the context "
                "or that contain a declarator name are outside the statement: excluded and counted under "
                "excluded:*; non-trivial = distinct evaluated strings with at least one structural feature "
                "(anything but a bare canonical base type)" % (depth, "/".join(ctx_base), min(depth, NM_DEPTH),
                                                               "/".join(ctx_nm)),
        "exhaustive": True,
        "bound": {"derivation_depth": depth, "near_miss_of_depth": min(depth, NM_DEPTH), "edits": 1},
        "derivations": len(base),
        "strings_derived": len(s_base),
        "strings_near_miss": len(s_nm),
        "accepted_by_both": counts_accept,
        "disagreements": len(bad),
    }
    return ctx.finish(cov, [
        "differential oracle between the two parsers; no third authority decides which one is right",
        "x86-64 Linux: __stdcall does not change the function type on this platform, only its parsing is compared",
    ])


def replay(detail):
    d = os.path.join(build.scratch_shared(), "replay%d" % os.getpid())
    os.makedirs(d, exist_ok=True)
    try:
        p = G.make_pair(detail["context"], d)
        s = detail["string"]
        v, a, b = judge(p, s)
        print("context : %s" % detail["context"])
        print("string  : %r" % s)
        oka, ta = _try(p.inline, s)
        okb, tb = _try(p.compiled, s)
        print("in-line  cffi.FFI().typeof      -> %s" % (ta,))
        print("compiled module.ffi.typeof      -> %s" % (tb,))
        print("verdict : %s (recorded: %s)" % (v, detail.get("verdict")))
        return 1 if v not in AGREE else 0
    finally:
        shutil.rmtree(d, ignore_errors=True)
