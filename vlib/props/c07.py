"""C07 -- the Python (in-line) and C (compiled / out-of-line) type-string parsers
denote the same type.

E1: every derivation of depth <= d of the declarator grammar G (see _typegrammar,
Grammar(ext=True)), in two spellings, plus every single-token deletion / duplication /
adjacent swap of every depth <= 3 string, plus the side families of _c07x (named
parameters, 3-4 parameters and nested parameter lists, literal forms and kinds of
named constants as array lengths, every typedef as a parameter type), in four
declaration contexts.  Oracle: differential -- cffi.FFI().typeof(s) against the ffi of
an imported out-of-line ABI module, or of a compiled API-mode extension module, made
from the same cdef: both reject, or both accept and denote the same type, and each
gives the same object again when asked a second time.
"""
import collections
import gc
import os
import shutil

from .. import build, pool
from ..build import InfraError
from . import _typegrammar as G
from . import _c07x as X

ID = "C07"
LEVEL = "exploration"
META = dict(
    engine="E1-enum", level="exploration",
    technique="bounded exhaustive enumeration of all derivations of a declarator grammar and all their one-token "
              "near misses, differential between the two type-string parsers",
    text="Every derivation of depth <= 3 (thorough 4) of a grammar transcribed from the statement (all orderings of "
         "all primitive specifier multisets including float/double _Complex, const/volatile at every specifier "
         "position and after '*', pointer chains, arrays with decimal/octal/hex/#define/enumerator/empty lengths, "
         "function pointers with void / one / two / variadic parameter lists drawn recursively, __cdecl/__stdcall in "
         "both positions, nested grouping parentheses, over int, char, unsigned long, double, void, _Bool, struct, "
         "union, enum, ten typedefs -- of int, pointer, tagged struct, anonymous struct, array, function, function "
         "pointer, void, anonymous enum, pointer to anonymous struct -- and the predeclared names bool, int32_t, "
         "size_t, wchar_t, char16_t) and every single-token deletion, duplication and adjacent swap of every depth "
         "<= 3 string is given to the in-line FFI and to the FFI of a generated module built from the same cdef, in "
         "four declaration contexts (none, direct, via ffi.include -- out-of-line ABI modules -- and a compiled "
         "API-mode extension; near misses: direct only in the quick tier, none + direct in the thorough tier).  Four "
         "side families, each a complete finite product, cover what the depth bound cuts off: every derivation of "
         "depth <= 2 (thorough 3) as a NAMED parameter in five parameter-list shapes; parameter lists of 3 and 4 "
         "parameters and parameters that have 2-4 parameters themselves, three levels deep, under four hosts; 43 "
         "literal forms (several digits, both hex cases, invalid digits, the 2**31 / 2**32 / SSIZE_MAX / 2**64 "
         "thresholds, size overflow) and 16 named constants (negative, > 2**32, > SSIZE_MAX #defines, enumerators of "
         "tagged / anonymous / typedef'd enums, a constant without value, a function, a variable, a typedef) as array "
         "lengths in nine declarator shapes; every typedef as parameter type under eleven parameter declarators.  "
         "Both must reject, or return the identical ctype object (same kind/shape/name where a struct, union or enum "
         "occurs), and every FFI that accepts a string must return the same object when asked again (cache path).  "
         "Every disagreement is attributed to a root cause by a structural condition on the input; what no listed "
         "cause explains is reported as 'unexplained'.",
    note="differential oracle: a defect shared by both parsers is invisible here (C30 and C08 look at each parser "
         "alone); strings whose struct/union/enum/typedef/constant names are not declared in the context are "
         "outside the statement and are counted, not compared; so are array lengths that the statement does not "
         "list (binary literals, suffixes, character constants, expressions) and resource limits (the C parser's "
         "1200-opcode buffer, the Python recursion limit of the in-line parser); parameter names are not in the "
         "statement's grammar: the named family reports under its own signature key and leaves out names directly "
         "after an opening parenthesis, where the parsers are known to differ")

NM_DEPTH = 3           # near misses are taken of every string of depth <= 3 in both tiers
BLOCK = 1500

_PAIRS = None
_API = None            # (module name, path of the .so): compiled once by the driver, imported by every worker
CONTEXTS = G.CONTEXTS + ("api",)


def _make_pair(c, d, ext=True):
    return G.make_pair(c, d, ext=ext, api=_API)


def _needs_ext(tokens, c):
    """The in-line parser re-declares every typedef name of its FFI in front of every type string it
    parses, so the ten extra declarations cost every string ~30 %.  A string that uses none of their
    names is therefore given to the FFIs of the base declarations (what it denotes does not depend on
    declarations it does not mention); the 'api' context has the extended declarations only."""
    return c == "api" or not G.EXT_NAMES.isdisjoint(tokens)


def _pairs():
    """{(context, ext): Pair}"""
    global _PAIRS
    if _PAIRS is None or _PAIRS[0] != os.getpid():
        d = os.path.join(_workdir(), "w%d" % os.getpid())
        os.makedirs(d, exist_ok=True)
        pairs = {(c, True): _make_pair(c, d) for c in CONTEXTS}
        for c in G.CONTEXTS:
            pairs[c, False] = pairs[c, True] if c == "empty" else _make_pair(c, d, ext=False)
        _PAIRS = (os.getpid(), pairs)
    return _PAIRS[1]


def _try(ffi, s):
    try:
        return True, ffi.typeof(s)
    except Exception as e:
        msg = str(e).splitlines()
        return False, "%s: %s" % (type(e).__name__, msg[0] if msg else "")


def judge(pair, s):
    """-> (verdict, inline_obs, compiled_obs); verdict in reject / same / equiv (agreement) or
    c_rejects / py_rejects / different_type / second_lookup (disagreement).
    An FFI that accepts the string is asked a second time (the cached path: FFI._parsed_types,
    ffi_obj.c types_dict): the same string must denote the same object again."""
    oka, a = _try(pair.inline, s)
    okb, b = _try(pair.compiled, s)
    if oka:
        oka2, a2 = _try(pair.inline, s)
        if not oka2 or a2 is not a:
            return "second_lookup", G.describe(a), ["inline", G.describe(a2) if oka2 else a2]
    if okb:
        okb2, b2 = _try(pair.compiled, s)
        if not okb2 or b2 is not b:
            return "second_lookup", G.describe(b), ["compiled", G.describe(b2) if okb2 else b2]
    if not oka and not okb:
        return "reject", a, b
    if oka and not okb:
        return "c_rejects", G.describe(a), b
    if okb and not oka:
        return "py_rejects", a, G.describe(b)
    if a is b:
        return "same", None, None
    if G.equiv(a, b):
        return "equiv", None, None
    return "different_type", G.describe(a), G.describe(b)


AGREE = ("reject", "same", "equiv")


# ---- structural features of a token string (vacuity histogram and cause classification) ----

TYPEDEFS = G.TYPEDEFS
GROUP_OPENERS = G.GROUP_OPENERS
_match_paren = G.match_paren
spec_lists = G.spec_lists


def features(tokens):
    """Structural classes of a token string.  Used for the vacuity histogram and, for the names
    listed in CAUSES, as the input-only condition of one root cause each."""
    f = set()
    n = len(tokens)
    for i, t in enumerate(tokens):
        nxt = tokens[i + 1] if i + 1 < n else None
        prv = tokens[i - 1] if i else None
        if t == "(":
            if nxt == "(" or (nxt in G.ABIS and i + 2 < n and tokens[i + 2] == "("):
                f.add("group_paren_before_paren")
            if nxt in ("*", "["):
                f.add("group_paren")
            if nxt in G.QUALS or (nxt in G.ABIS and i + 2 < n and tokens[i + 2] in G.QUALS):
                f.add("paren_then_qualifier")
            if nxt not in GROUP_OPENERS:
                # a parameter list: is it a single parameter of type void that is not the bare token?
                j = _match_paren(tokens, i)
                if j is not None:
                    inner = tokens[i + 1:j]
                    body = [x for x in inner if x not in G.QUALS]
                    if (len(inner) > 1 and body and body[0] == "void" and
                            (len(body) == 1 or (len(body) == 2 and (body[1] in G.NAMES or body[1] in G.TAGS)
                                                and inner[-1] == body[1]))):
                        f.add("sole_void_param_decorated")
        if t == "*":
            f.add("pointer")
            if nxt in G.QUALS:
                f.add("qual_after_star")
        if t == "[":
            f.add("array")
            if nxt == "]":
                f.add("len_open")
            elif nxt in G.CONST_KIND:
                f.add("len_" + G.CONST_KIND[nxt])
                if nxt in ("Z", "E0", "X0"):
                    f.add("len_named_zero")
                elif nxt in ("NEG", "EM"):
                    f.add("len_named_negative")
                elif nxt in ("BIG", "HUGE"):
                    f.add("len_named_" + nxt.lower())
                elif nxt == "AN":       # declared in DECLS_XA, the part that the 'include' context includes
                    f.add("len_anon_enumerator_xa")
            elif nxt in G.QUALS:
                f.add("qual_inside_brackets")
            elif nxt is not None and nxt[:2] in ("0x", "0X"):
                f.add("len_hex")
            elif nxt is not None and len(nxt) > 1 and nxt[0] == "0":
                f.add("len_octal")
            elif nxt == "0":
                f.add("len_zero")
            elif nxt is not None and nxt.isdigit():
                f.add("len_decimal")
                if len(nxt) > 9:
                    f.add("len_over_31_bits")
        if t in G.ABIS:
            f.add("abi")
            ok = False
            if prv == "(" and nxt == "*":
                f.add("abi_inside")
                j = _match_paren(tokens, i - 1)
                ok = j is not None and j + 1 < n and tokens[j + 1] == "("
            elif nxt == "(" and i + 2 < n and tokens[i + 2] == "*":
                f.add("abi_outside")
                j = _match_paren(tokens, i + 1)
                ok = j is not None and j + 1 < n and tokens[j + 1] == "("
            if not ok:
                f.add("abi_not_in_position")
        if t == "...":
            f.add("variadic")
            if prv != ",":
                f.add("ellipsis_without_comma")
        if t == ",":
            f.add("two_params")
        if t in G.COMMON_TYPES:
            f.add("common_type")
        if t == "void" and prv == "(" and nxt == ")":
            f.add("void_params")
        if t in ("struct", "union", "enum"):
            f.add("tag_" + t)
        if t in TYPEDEFS:
            f.add("typedef_" + t)
        if t in ("td_s", "St"):
            f.add("tagged_struct_typedef")
    for s, e, quals, specs in spec_lists(tokens):
        # (cparser rewrites `__stdcall (` and `( __stdcall` into qualifiers placed before the '(')
        if not specs and (quals or (e < n and tokens[e] == "__stdcall") or
                          (e + 1 < n and tokens[e] == "(" and tokens[e + 1] == "__stdcall")):
            f.add("no_type_specifier")
        prims = [tokens[k] for k in specs]
        if len(prims) > 1:
            f.add("multi_specifier")
        before_complex = ()
        if "_Complex" in prims:
            f.add("complex")
            c = specs[prims.index("_Complex")]
            fl = [k for k in specs if tokens[k] in ("float", "double") and k < c]
            if fl:
                before_complex = [k for k in quals if fl[-1] < k < c]
            if before_complex:
                f.add("qual_before_complex")
        if s > 0 and tokens[s - 1] in ("(", ",") and len(prims) == 1:
            # a parameter whose type specifier is a typedef name
            if prims[0] == "td_fn":
                if e < n and tokens[e] in (")", ","):
                    f.add("func_typedef_param")
                elif e < n and tokens[e] == "[" and "]" in tokens[e:]:
                    j = e + tokens[e:].index("]")
                    if j + 1 < n and tokens[j + 1] in (")", ","):
                        f.add("func_typedef_array_param")
            if prims[0] == "td_v" and tokens[s - 1] == "(" and e < n and tokens[e] == ")":
                f.add("sole_void_typedef_param")
        if (s > 0 and tokens[s - 1] in ("(", ",") and specs and e + 3 < n and tokens[e] == "[" and
                tokens[e + 2] == "]" and tokens[e + 3] in (")", ",") and _bad_length(tokens[e + 1])):
            f.add("array_param_bad_length")
        for k in quals:
            if not specs or k < specs[0]:
                f.add("qual_before_specs")
            elif k > specs[-1]:
                f.add("qual_after_specs")
            elif k not in before_complex:
                f.add("qual_between_specs")
        nsign = prims.count("signed") + prims.count("unsigned")
        if "signed" in prims and (nsign > 1 or any(x in ("double", "float", "void", "_Bool") for x in prims)):
            f.add("signed_discarded")
        base = [x for x in prims if x in ("int", "char", "double", "float", "void", "_Bool")]
        if base and [x for x in prims if x != "_Complex"][-1] != base[-1]:
            f.add("specifier_after_base_keyword")
    return f


SSIZE_MAX = 2 ** 63 - 1


def _bad_length(t):
    """A length that no array can have: a negative named constant, or a value > SSIZE_MAX."""
    if t in ("NEG", "EM", "HUGE"):
        return True
    try:
        if t[:2] in ("0x", "0X"):
            return int(t[2:], 16) > SSIZE_MAX
        if t.isdigit():
            return int(t, 8 if t[0] == "0" else 10) > SSIZE_MAX
    except ValueError:
        pass
    return False


def _rename(desc, old, new):
    if isinstance(desc, list):
        if desc == old:
            return new
        return [_rename(x, old, new) for x in desc]
    return desc


def causes(tokens, context, verdict, inline_obs=None, compiled_obs=None):
    """Root causes -- decided from the input alone -- that are known to explain a disagreement
    of this kind.  Each is the narrow structural condition of one defect of cffi."""
    f = features(tokens)
    if context == "include" and "len_define" in f:
        f.add("define_from_included_ffi")
    if context == "include" and "len_anon_enumerator_xa" in f:
        f.add("anon_enumerator_from_included_ffi")
    if verdict == "different_type" and "tagged_struct_typedef" in f and inline_obs is not None:
        # #12 explains a difference only if the two types are the same up to the name of that struct
        if _rename(inline_obs, ["struct", "td_s"], ["struct", "struct St"]) != compiled_obs:
            f.discard("tagged_struct_typedef")
    out = []
    for name, kinds in CAUSES:
        if verdict in kinds and name in f:
            out.append(name)
    return out


# (structural feature, disagreement kinds it can explain).  One entry per root cause in cffi:
CAUSES = [
    # DESIGN 6 #11: parse_sequel() recognises a grouping '(' only before '*', 'const', 'volatile', '['
    ("group_paren_before_paren", ("c_rejects",)),
    # DESIGN 6 #12: force_the_name() renames a tagged struct after the typedef that targets it (in-line only)
    ("tagged_struct_typedef", ("different_type",)),
    # parse_complete() stops reading specifiers at the first qualifier that follows short/long/signed/unsigned
    ("qual_between_specs", ("c_rejects",)),
    # cparser._get_type_and_quals() drops 'signed' without checking what it is combined with
    ("signed_discarded", ("c_rejects",)),
    # pycparser/cparser accept a specifier list made of qualifiers only (implicit int)
    ("no_type_specifier", ("c_rejects",)),
    # cparser erases __cdecl / rewrites __stdcall by regular expression wherever they stand
    ("abi_not_in_position", ("c_rejects",)),
    # pycparser accepts C99 '[const]' / '[volatile]' array declarators of parameters
    ("qual_inside_brackets", ("c_rejects",)),
    # cparser replaces '...' by an identifier, so 'T ...' declares a parameter of that name
    ("ellipsis_without_comma", ("c_rejects",)),
    # cparser takes any sole parameter of type void for '(void)'; parse_c_type.c only the bare token
    ("sole_void_param_decorated", ("c_rejects", "different_type")),
    # the in-line FFI takes #define'd integers from an included FFI as array lengths, parse_sequel() looks
    # only in the globals of its own module
    ("define_from_included_ffi", ("c_rejects",)),
    # parse_sequel() takes '(' + const/volatile for grouping parentheses (qualifier before the '*')
    ("paren_then_qualifier", ("py_rejects",)),
    # -- causes found with the extended grammar (typedefs of every constructor, _Complex) --
    # parse_sequel() decides on the *opcode* of a parameter whether it decays to a pointer; a typedef of a
    # function type is OP_TYPENAME and is then realised as an object type (cparser._as_func_arg looks at the
    # resolved type)
    ("func_typedef_param", ("c_rejects",)),
    # ... and an array of that typedef (not C) decays to a pointer to the item, which realize_c_type turns
    # into a function pointer; the in-line parser rejects an array of functions
    ("func_typedef_array_param", ("py_rejects",)),
    # parse_sequel() takes only the token 'void' + ')' for an empty parameter list; cparser any type that
    # resolves to void
    ("sole_void_typedef_param", ("c_rejects", "different_type")),
    # ('float const _Complex', a qualifier between the base keyword and _Complex, used to be a cause here: the C
    #  parser looked for _Complex directly after float/double.  Repaired in /repo by 6d2defe: the feature is still
    #  counted, but it no longer explains a disagreement)
    # Parser.include() copies _int_constants (so the in-line FFI knows the enumerators of an included anonymous
    # enum) but skips the 'anonymous' declarations, so the including module has no global for them
    ("anon_enumerator_from_included_ffi", ("c_rejects",)),
    # cparser._as_func_arg() turns an array parameter into a pointer without ever building the array type, so
    # its (first) length is never checked: negative or > SSIZE_MAX is accepted; parse_sequel() checks it
    ("array_param_bad_length", ("c_rejects",)),
]


def work(block):
    """block = (family, contexts, [strings]).  -> (evaluations, counts, disagreements)"""
    family, ctxs, strings = block
    pairs = _pairs()
    counts = collections.Counter()
    bad = []
    n = 0
    for s in strings:
        tokens = G.tokenize(s)
        if family == "named":
            tokens = X.strip_names(tokens)      # scope and features are those of the parameter's type
        f = None
        for c in ctxs:
            why = G.in_scope(tokens, c)
            if why is not None:
                counts["excluded:%s:%s" % (c, why)] += 1
                continue
            ext = _needs_ext(tokens, c)
            v, a, b = judge(pairs[c, ext], s)
            n += 1
            counts["verdict:%s:%s" % (c, v)] += 1
            if ext and c != "api":
                counts["declarations:%s:extended" % c] += 1
            if f is None:
                f = features(tokens)
                if f:
                    counts["nontrivial"] += 1
            acc = "accept" if v in ("same", "equiv") else ("reject" if v == "reject" else "disagree")
            counts["family:%s:%s" % (family, acc)] += 1
            if v != "reject":       # every accepting FFI was asked twice and gave the same object again
                counts["second_lookup:" + ("failed" if v == "second_lookup" else "same_object")] += \
                    1 if v in ("c_rejects", "py_rejects", "second_lookup") else 2
            for x in f:
                counts["feature:%s:%s" % (x, acc)] += 1
            if v not in AGREE:
                bad.append((c, s, v, a, b, family))
    return n, dict(counts), bad


# ---------------------------------------------------------------------------------------

def space(ctx):
    """-> depth, derivations, {family: sorted strings}.  Families:
    derivation / near_miss -- the extended grammar G (see _typegrammar.Grammar(ext=True)) and its
    one-token edits; named / arity / lengths / tdparam -- the side families of _c07x."""
    depth = 3 if ctx.quick else 4
    if "depth" in getattr(ctx, "opts", {}):
        depth = int(ctx.opts["depth"])
    g = G.Grammar(ext=True)
    tn = g.typenames(depth)
    base = [t for c, t in tn]
    base_nm = [t for c, t in tn if c <= NM_DEPTH]
    baseset = set(base)
    for t in base:          # self-check of the scope rule: it must not exclude any derivation of G
        for c in ("decls", "include", "api"):
            if G.in_scope(t, c) is not None:
                raise InfraError("scope rule excludes the derivation %r" % (G.spaced(t),))
    strings_base = set()
    for c, t in tn:
        strings_base.add(G.spaced(t))
        if c <= NM_DEPTH:                 # the second spelling for the depth <= 3 derivations (both tiers)
            strings_base.add(G.dense(t))
    nm = set()
    for t in base_nm:
        for m in G.near_misses(t):
            if m and m not in baseset:
                nm.add(m)
    strings_nm = set(G.spaced(t) for t in nm) - strings_base
    fam = {"derivation": sorted(strings_base), "near_miss": sorted(strings_nm)}
    seen = set(strings_base) | strings_nm
    named_depth = depth - 1
    for name, toks in (("named", [t for sh, t in X.named(g, named_depth)]), ("arity", X.arity()),
                       ("lengths", X.lengths()), ("tdparam", X.tdparam())):
        ss = set()
        for t in toks:
            ss.add(G.spaced(t))
            if name != "named":
                ss.add(G.dense(t))
        fam[name] = sorted(ss - seen)
        seen |= ss
    return depth, base, fam, named_depth


def _workdir():
    d = os.path.join(build.scratch_shared(), "c07")
    os.makedirs(d, exist_ok=True)
    return d


def run(ctx):
    d = _workdir()          # created before the workers are forked; they inherit VERIF_SHARED_SCRATCH
    try:
        return _run(ctx)
    finally:
        shutil.rmtree(d, ignore_errors=True)


FAMILIES = ("derivation", "near_miss", "named", "arity", "lengths", "tdparam")
CTX_RANK = {c: i for i, c in enumerate(CONTEXTS)}


def _run(ctx):
    global _API
    depth, base, fam, named_depth = space(ctx)
    s_base, s_nm = fam["derivation"], fam["near_miss"]
    ctx.log("depth %d: %d derivations, %d distinct strings (spaced; dense too up to depth 3), %d distinct "
            "near-miss strings; side families: %s" % (
        depth, len(base), len(s_base), len(s_nm),
        ", ".join("%s %d" % (k, len(fam[k])) for k in FAMILIES[2:])))
    try:
        _API = G.compile_api_module(_workdir())
    except RuntimeError as e:
        raise InfraError(str(e))
    ctx_base = list(CONTEXTS)
    ctx_nm = ["decls"] if ctx.quick else ["empty", "decls"]
    ctx_of = {"derivation": ctx_base, "near_miss": ctx_nm, "named": ctx_base, "arity": ctx_base,
              "lengths": ctx_base, "tdparam": ctx_base}
    blocks = []
    only = getattr(ctx, "opts", {}).get("only")      # debugging aid: --opt only=named,lengths
    if only:
        for name in fam:
            if name not in only.split(","):
                fam[name] = []
    for name in FAMILIES:
        blocks += [(name, ctx_of[name], b) for b in pool.chunks(fam[name], BLOCK)]
    counts = collections.Counter()
    evaluated = 0
    bad = []
    gc.collect()
    gc.freeze()        # the forked workers must not copy the driver's string lists page by page
    for block, r in pool.pmap(work, [[b] for b in blocks]):
        if isinstance(r, pool.WorkerError):
            raise InfraError("worker failed: %s" % r.tb)
        if isinstance(r, pool.Crash):
            raise InfraError("worker died (%s) in a block starting with %r" % (r.describe(), block[2][0]))
        n, cnt, b = r
        evaluated += n
        counts.update(cnt)
        bad.extend(b)
    nontrivial = counts.pop("nontrivial", 0)
    for k, v in counts.items():
        ctx.count(k, v)
    for name in fam:
        ctx.count("strings:%s" % name, len(fam[name]))
    ctx.log("%d evaluations done, %d disagreements" % (evaluated, len(bad)))
    for name in FAMILIES:
        lst = fam[name]
        for i in range(0, len(lst), max(1, len(lst) // (40 if name in ("derivation", "near_miss") else 8))):
            ctx.sample({"string": lst[i], "kind": name})

    if getattr(ctx, "opts", {}).get("dump"):        # debugging aid: --opt dump=/path/file.json
        import json
        with open(ctx.opts["dump"], "w") as fdump:
            json.dump(sorted(bad), fdump, indent=0)

    # classify, confirm in fresh FFIs, report (smallest example of every signature first)
    groups = collections.defaultdict(list)
    for c, s, v, a, b, family in bad:
        tokens = G.tokenize(s)
        if family == "named":
            tokens = X.strip_names(tokens)
        cs = causes(tokens, c, v, a, b)
        sig = {"kind": v, "cause": "+".join(cs) if cs else "unexplained"}
        if family == "named":
            sig["named_parameter"] = True        # a shape next to the statement's grammar: never mixed with it
        groups[tuple(sorted(sig.items()))].append(((len(tokens), sum(map(len, tokens))), s, CTX_RANK[c], c, v, a, b,
                                                   family))
    first, rest = [], []
    # single root causes before combinations, so that each gets one of the (limited) replay files
    for key in sorted(groups, key=lambda k: (dict(k)["cause"].count("+"), k)):
        lst = sorted(groups[key], key=lambda x: x[:3])
        first.append((key, lst[0]))
        rest.extend((key, x) for x in lst[1:])
    for key, (_, s, _r, c, v, a, b, family) in first:
        # the smallest case of every signature must reproduce on FFIs that have seen nothing else
        d = os.path.join(_workdir(), "confirm%d" % len(first))
        os.makedirs(d, exist_ok=True)
        v2, a2, b2 = judge(_fresh_pair(c, d, s), s)
        if v2 != v:
            raise InfraError("verdict for %r in context %s depends on what the FFI parsed before: %s in the "
                             "explorer, %s alone" % (s, c, v, v2))
    for key, (_, s, _r, c, v, a, b, family) in first + rest:
        ctx.violation(dict(key), {"string": s, "context": c, "verdict": v, "inline": a, "compiled": b,
                                  "family": family})

    counts_accept = 0
    for k, v in counts.items():
        if k.startswith("verdict:") and (k.endswith(":same") or k.endswith(":equiv")):
            counts_accept += v
    cov = {
        "evaluations": evaluated,
        "distinct_nontrivial": nontrivial,
        "rule": "distinct strings: every derivation of depth <= %d of the extended grammar G (typedefs of int, "
                "pointer, array, function, function pointer, void, structs, anonymous enum, pointer to anonymous "
                "struct; float/double _Complex; bool, int32_t, size_t, wchar_t, char16_t) token-spaced, those of "
                "depth <= 3 also densely spelled, in the contexts %s, plus every single-token deletion, duplication "
                "and adjacent swap of every derivation of depth <= %d (token-spaced) in the contexts %s; plus the "
                "side families, in the contexts %s: named = every derivation of depth <= %d as a named parameter in "
                "the lists (P) (P,int) (int,P) (P,...) (P,Q); arity = parameter lists of 3 and 4 parameters over "
                "{int, char *} and lists whose parameters have 2..4 parameters themselves (3 nesting levels), with "
                "and without '...', under 4 hosts, two spellings; lengths = %d literal forms and %d named constants "
                "in 9 declarator shapes over char/int, two spellings; an evaluation is one (string, context) pair "
                "given to both parsers (and a second time to each parser that accepted it); pairs whose names are "
                "not declared in the context or that contain a declarator name are outside the statement: excluded "
                "and counted under excluded:*; non-trivial = distinct evaluated strings with at least one structural "
                "feature (anything but a bare canonical base type)" % (
                    depth, "/".join(ctx_base), min(depth, NM_DEPTH), "/".join(ctx_nm), "/".join(ctx_base),
                    named_depth, len(X.LEN_LITERALS), len(X.LEN_NAMES)),
        "exhaustive": True,
        "bound": {"derivation_depth": depth, "near_miss_of_depth": min(depth, NM_DEPTH), "edits": 1,
                  "named_parameter_depth": named_depth},
        "derivations": len(base),
        "strings_derived": len(s_base),
        "strings_near_miss": len(s_nm),
        "strings_named": len(fam["named"]),
        "strings_arity": len(fam["arity"]),
        "strings_lengths": len(fam["lengths"]),
        "strings_tdparam": len(fam["tdparam"]),
        "accepted_by_both": counts_accept,
        "disagreements": len(bad),
    }
    return ctx.finish(cov, [
        "differential oracle between the two parsers; no third authority decides which one is right",
        "x86-64 Linux: __stdcall does not change the function type on this platform, only its parsing is compared",
        "parameter names are not part of the statement's grammar; the 'named' family compares them because "
        "ffi.callback('int(*)(int x, void *ud)') is the documented idiom, and reports under its own signature",
    ])


def _fresh_pair(c, d, s):
    """FFIs that have parsed nothing yet (for 'api': a module compiled again under a new name)."""
    if c == "api":
        try:
            return G.make_pair(c, d, ext=True, api=G.compile_api_module(d))
        except RuntimeError as e:
            raise InfraError(str(e))
    return G.make_pair(c, d, ext=_needs_ext(X.strip_names(G.tokenize(s)), c))


def replay(detail):
    d = os.path.join(build.scratch_shared(), "replay%d" % os.getpid())
    os.makedirs(d, exist_ok=True)
    try:
        s = detail["string"]
        p = _fresh_pair(detail["context"], d, s)
        v, a, b = judge(p, s)
        print("context : %s" % detail["context"])
        print("string  : %r" % s)
        oka, ta = _try(p.inline, s)
        okb, tb = _try(p.compiled, s)
        print("in-line  cffi.FFI().typeof      -> %s" % (ta,))
        print("compiled module.ffi.typeof      -> %s" % (tb,))
        print("verdict : %s (recorded: %s)" % (v, detail.get("verdict")))
        return 1 if v not in AGREE else 0
    finally:
        shutil.rmtree(d, ignore_errors=True)
