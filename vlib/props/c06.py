"""C06 -- primitive type facts agree with gcc and across all type tables.

E1 over a *complete* finite set: every primitive name cffi knows (the keys of
PrimitiveType.ALL_PRIMITIVE_TYPES, the keys of PRIMITIVE_TO_INDEX, the C table
of build_primitive_type() read back through OP_PRIMITIVE n for every n, the
aliases of commontypes) plus every permutation of every specifier multiset of
C11 6.7.2p2, observed in three FFIs (in-line, out-of-line ABI module, compiled
API module) through three routes each (typeof(string), a cdef typedef, a struct
field).  Oracle: facts printed by gcc for the same spelling; object identity.
"""
import importlib.util
import itertools
import os

from .. import build, cref, pool
from ..build import InfraError

ID = "C06"
LEVEL = "exploration"
META = dict(
    engine="E1-enum", level="exploration",
    technique="complete enumeration of the finite set of primitive type names x 3 FFI kinds x 3 routes, facts compared "
              "with gcc, ctype identity compared across FFIs and tables",
    text="Every name in ALL_PRIMITIVE_TYPES, PRIMITIVE_TO_INDEX, the C primitive_name[] table (realised through "
         "OP_PRIMITIVE n for every n < _NUM_PRIM in a hand-made _cffi_backend.FFI), the commontypes aliases and every "
         "permutation of every C11 specifier multiset, plain and with one const/volatile at every position, is resolved by typeof(), by a cdef typedef and as a struct field "
         "in an in-line FFI, an out-of-line ABI module and a compiled API module; sizeof, alignof, signedness, value "
         "category, integer range and field offsets must equal what gcc prints for the same spelling, the ctype must "
         "be the same object everywhere, and the three name<->index tables must be the same bijection.  The set is "
         "finite and enumerated completely.",
    note="gcc 12 on this machine and <stdint.h>/<stddef.h>/<uchar.h>/<wchar.h>/<stdbool.h>/<complex.h>/<sys/types.h> "
         "are the authority; the signedness of plain 'char' is not observable through cffi (int() of a char is its "
         "ordinal by definition) and is not compared")

# C11 6.7.2p2: the multisets of type specifiers that name an arithmetic type
MULTISETS = [
    ("char",), ("signed", "char"), ("unsigned", "char"),
    ("short",), ("signed", "short"), ("short", "int"), ("signed", "short", "int"),
    ("unsigned", "short"), ("unsigned", "short", "int"),
    ("int",), ("signed",), ("signed", "int"),
    ("unsigned",), ("unsigned", "int"),
    ("long",), ("signed", "long"), ("long", "int"), ("signed", "long", "int"),
    ("unsigned", "long"), ("unsigned", "long", "int"),
    ("long", "long"), ("signed", "long", "long"), ("long", "long", "int"), ("signed", "long", "long", "int"),
    ("unsigned", "long", "long"), ("unsigned", "long", "long", "int"),
    ("float",), ("double",), ("long", "double"), ("_Bool",),
    ("float", "_Complex"), ("double", "_Complex"), ("long", "double", "_Complex"),
]

# the 17 standard arithmetic types cffi has a ctype for, as gcc spells them -> cffi's name
STANDARD = [("char", "char"), ("signed char", "signed char"), ("unsigned char", "unsigned char"),
            ("short", "short"), ("unsigned short", "unsigned short"), ("int", "int"),
            ("unsigned int", "unsigned int"), ("long", "long"), ("unsigned long", "unsigned long"),
            ("long long", "long long"), ("unsigned long long", "unsigned long long"),
            ("float", "float"), ("double", "double"), ("long double", "long double"), ("_Bool", "_Bool"),
            ("float _Complex", "_cffi_float_complex_t"), ("double _Complex", "_cffi_double_complex_t")]

# cffi's two names that are not C: how gcc spells the same type (documented by cffi)
GCC_SPELL = {"_cffi_float_complex_t": "float _Complex", "_cffi_double_complex_t": "double _Complex"}

# character types by the statement (C itself sees wchar_t/char16_t/char32_t as integer typedefs)
CHAR_NAMES = {"char": "bytes", "wchar_t": "str", "char16_t": "str", "char32_t": "str"}

HEADERS = ["stdint.h", "stddef.h", "uchar.h", "wchar.h", "stdbool.h", "complex.h", "sys/types.h"]
INCLUDES = "".join("#include <%s>\n" % h for h in HEADERS)

FFIS = ("inline", "abi", "api")


def _unqualified(name):
    return " ".join(w for w in name.split() if w not in ("const", "volatile"))


def permutations():
    out = []
    for ms in MULTISETS:
        for p in sorted(set(itertools.permutations(ms))):
            out.append(" ".join(p))
    return out


def qualified_permutations():
    """Every permutation of every multiset with one 'const' or 'volatile' at every position (in front, between two
    specifiers, at the end): C allows qualifiers anywhere among the specifiers, and the spelling still names the
    same arithmetic type."""
    out = []
    for ms in MULTISETS:
        for p in sorted(set(itertools.permutations(ms))):
            for q in ("const", "volatile"):
                for i in range(len(p) + 1):
                    out.append(" ".join(p[:i] + (q,) + p[i:]))
    return out


def name_sources():
    """All candidate names, with the place(s) each comes from."""
    from cffi import cffi_opcode, commontypes, model
    src = {}

    def add(n, where):
        src.setdefault(n, []).append(where)
    for n in sorted(model.PrimitiveType.ALL_PRIMITIVE_TYPES):
        add(n, "ALL_PRIMITIVE_TYPES")
    for n in sorted(cffi_opcode.PRIMITIVE_TO_INDEX):
        add(n, "PRIMITIVE_TO_INDEX")
    for k in sorted(commontypes.COMMON_TYPES):
        v = commontypes.COMMON_TYPES[k]
        if isinstance(v, str) and k != v and v in model.PrimitiveType.ALL_PRIMITIVE_TYPES:
            add(k, "alias")
    for n in permutations():
        add(n, "permutation")
    for n in qualified_permutations():
        add(n, "qualified-permutation")
    return src


def c_table():
    """index -> name as stored in the C table of build_primitive_type(), read by realising
    OP_PRIMITIVE n through a hand-made out-of-line FFI.  Also probes past the end."""
    import _cffi_backend
    from cffi import cffi_opcode
    N = cffi_opcode._NUM_PRIM
    probe = list(range(1, N + 4))
    types = b"".join(((n << 8) | cffi_opcode.OP_PRIMITIVE).to_bytes(4, "big") for n in probe)
    typenames = tuple(i.to_bytes(4, "big") + ("p%03d" % n).encode() for i, n in enumerate(probe))
    ffi = _cffi_backend.FFI("c06_handmade", _version=0x2601, _types=types, _typenames=typenames)
    table, ctypes_, beyond = {}, {}, {}
    for n in probe:
        try:
            ct = ffi.typeof("p%03d" % n)
        except Exception as e:
            if n < N:
                table[n] = None
            else:
                beyond[n] = type(e).__name__
            continue
        if n < N:
            table[n] = ct.cname
            ctypes_[n] = ct
        else:
            beyond[n] = "accepted:" + ct.cname
    return table, ctypes_, beyond


# ---------------------------------------------------------------------------------------
# the authority

def gcc_facts(names, fields):
    """names: cffi spellings.  Returns {name: facts}, plus the offsets/size of struct SP over `fields`."""
    lines = [INCLUDES, "#include <stdio.h>\n",
             '#define F(i, T) printf("N|%d|%zu|%zu|%d|%d|%d|%d\\n", i, sizeof(T), _Alignof(T), '
             '(int)((__real__ (T)-1) < 0), __builtin_classify_type((T)0), (int)((T)2 == (T)1), WHICH(T))\n']
    which = "(" + " + ".join("(__builtin_types_compatible_p(T, %s) ? %d : 0)" % (g, i + 1)
                             for i, (g, _) in enumerate(STANDARD)) + ")"
    lines.append("#define WHICH(T) %s\n" % which)
    lines.append("struct SP {\n")
    for i, n in enumerate(fields):
        lines.append("  char p%d; %s f%d;\n" % (i, GCC_SPELL.get(n, n), i))
    lines.append("};\nint main(void){\n")
    for i, n in enumerate(names):
        lines.append("F(%d, %s);\n" % (i, GCC_SPELL.get(n, n)))
    for i, n in enumerate(fields):
        lines.append('printf("O|%d|%%zu\\n", offsetof(struct SP, f%d));\n' % (i, i))
    lines.append('printf("S|%zu|%zu\\n", sizeof(struct SP), _Alignof(struct SP));\nreturn 0;}\n')
    out = cref.run_c("".join(lines), flags=["-std=gnu11"])
    facts, offs, sp = {}, {}, None
    for line in out.splitlines():
        p = line.split("|")
        if p[0] == "N":
            i, size, align, neg, cls, isbool, which = (int(x) for x in p[1:])
            name = names[i]
            std = STANDARD[which - 1][1] if which else None
            if cls == 9:
                cat = "complex"
            elif cls == 8:
                cat = "cdata" if std == "long double" else "float"   # cffi hands out long double as a cdata
            elif isbool:
                cat = "bool"
            elif _unqualified(name) in CHAR_NAMES:
                cat = CHAR_NAMES[_unqualified(name)]
            else:
                cat = "int"
            facts[name] = {"size": size, "align": align, "signed": bool(neg), "category": cat,
                           "standard": std,
                           "integer": cls == 1}
        elif p[0] == "O":
            offs[int(p[1])] = int(p[2])
        else:
            sp = (int(p[1]), int(p[2]))
    if len(facts) != len(names) or sp is None:
        raise InfraError("reference program printed %d facts for %d names" % (len(facts), len(names)))
    return facts, offs, sp


# ---------------------------------------------------------------------------------------
# the three FFIs

def _import(name, path):
    spec = importlib.util.spec_from_file_location(name, path)
    mod = importlib.util.module_from_spec(spec)
    spec.loader.exec_module(mod)
    return mod


def accepted_by_cdef(name):
    import cffi
    f = cffi.FFI()
    try:
        f.cdef("typedef %s td_probe;" % name)
        f.typeof("td_probe")
        return True, None
    except Exception as e:
        return False, type(e).__name__


PRIM_INT_PROBES = [("int8_t", 1, 1), ("uint8_t", 1, 0), ("int16_t", 2, 1), ("uint16_t", 2, 0),
                   ("int32_t", 4, 1), ("uint32_t", 4, 0), ("int64_t", 8, 1), ("uint64_t", 8, 0)]


def build_ffis(td_names, fields, tag):
    """Returns {kind: ffi}.  The same declarations go to all three; the API module is
    compiled against the real headers."""
    import cffi
    decl = "".join("typedef %s td_%d;\n" % (n, i) for i, n in enumerate(td_names))
    decl += "struct SP {\n" + "".join("  char p%d; %s f%d;\n" % (i, n, i) for i, n in enumerate(fields)) + "};\n"
    d = os.path.join(build.scratch(), "c06_%s" % tag)
    os.makedirs(d, exist_ok=True)
    out = {}
    f1 = cffi.FFI()
    f1.cdef(decl)
    out["inline"] = f1
    f2 = cffi.FFI()
    f2.cdef(decl)
    mod_abi = "c06_abi_%s_%d" % (tag, os.getpid())
    f2.set_source(mod_abi, None)
    f2.compile(tmpdir=d, verbose=0)
    out["abi"] = _import(mod_abi, os.path.join(d, mod_abi + ".py")).ffi
    f3 = cffi.FFI()
    f3.cdef(decl + "".join("typedef int... xi_%d;\n" % k for k in range(len(PRIM_INT_PROBES))))
    cdecl = "".join("typedef %s td_%d;\n" % (GCC_SPELL.get(n, n), i) for i, n in enumerate(td_names))
    cdecl += "struct SP {\n" + "".join("  char p%d; %s f%d;\n" % (i, GCC_SPELL.get(n, n), i)
                                       for i, n in enumerate(fields)) + "};\n"
    cdecl += "".join("typedef %s xi_%d;\n" % (t, k) for k, (t, _, _) in enumerate(PRIM_INT_PROBES))
    mod_api = "c06_api_%s_%d" % (tag, os.getpid())
    f3.set_source(mod_api, INCLUDES + cdecl, extra_compile_args=["-O0", "-w", "-std=gnu11"])
    so = f3.compile(tmpdir=d, verbose=0)
    out["api"] = _import(mod_api, so).ffi
    return out


def observe(ffi, ct, gf):
    """The facts the statement names, observed through the public API of `ffi` for ctype `ct`.
    gf (gcc's facts) only tells which boundary values to try."""
    o = {"size": ffi.sizeof(ct), "align": ffi.alignof(ct), "kind": ct.kind, "cname": ct.cname}
    pt = ffi.getctype(ct, "*")
    p = ffi.new(pt)
    v = p[0]
    o["category"] = "cdata" if isinstance(v, ffi.CData) else type(v).__name__
    try:
        o["signed"] = int(ffi.cast(ct, -1)) < 0
    except TypeError:
        o["signed"] = None
    if gf["category"] in ("int", "bool"):
        lo, hi = cref.int_range(gf["size"], gf["signed"], is_bool=gf["category"] == "bool")
        rng = {}
        for label, val, want in (("lo", lo, True), ("hi", hi, True), ("lo-1", lo - 1, False), ("hi+1", hi + 1, False)):
            try:
                p[0] = val
                rng[label] = (True, int(p[0]) == val)
            except OverflowError:
                rng[label] = (False, None)
            except Exception as e:               # not an integer ctype at all
                rng[label] = ("error", type(e).__name__)
        o["range"] = rng
    return o


def compare(o, gf, name):
    """-> list of (fact, observed, expected)"""
    bad = []
    if o["size"] != gf["size"]:
        bad.append(("size", o["size"], gf["size"]))
    if o["align"] != gf["align"]:
        bad.append(("align", o["align"], gf["align"]))
    if o["kind"] != "primitive":
        bad.append(("kind", o["kind"], "primitive"))
    if o["category"] != gf["category"]:
        bad.append(("category", o["category"], gf["category"]))
    if gf["category"] != "complex" and gf["canonical"] != "char":
        if o["signed"] is None or o["signed"] != gf["signed"]:
            bad.append(("signed", o["signed"], gf["signed"]))
    if "range" in o:
        want = {"lo": (True, True), "hi": (True, True), "lo-1": (False, None), "hi+1": (False, None)}
        if o["range"] != want:
            bad.append(("range", o["range"], want))
    if o["cname"] != gf["canonical"]:
        bad.append(("cname", o["cname"], gf["canonical"]))
    return bad


def work(job):
    """job: {'only': None | [names]}.  Returns (counters, samples, violations)."""
    import _cffi_backend
    from cffi import cffi_opcode, model
    only = job.get("only")
    counts = {}
    viol = []
    samples = []

    def cnt(k, n=1):
        counts[k] = counts.get(k, 0) + n

    def bad(sig, detail):
        viol.append((sig, detail))

    src = name_sources()
    table, table_ct, beyond = c_table()
    for n, nm in sorted(table.items()):
        if nm is not None:
            src.setdefault(nm, []).append("C_table")
    names = sorted(src)
    cnt("names_total", len(names))
    for n in names:
        for w in set(src[n]):
            cnt("source_" + w)

    # ---- the three tables are the same bijection -------------------------------------
    A = set(model.PrimitiveType.ALL_PRIMITIVE_TYPES)
    B = dict(cffi_opcode.PRIMITIVE_TO_INDEX)
    N = cffi_opcode._NUM_PRIM
    if only is None:
        if A != set(B):
            bad({"kind": "table", "which": "ALL_PRIMITIVE_TYPES_vs_PRIMITIVE_TO_INDEX"},
                {"only_in_model": sorted(A - set(B)), "only_in_opcode": sorted(set(B) - A)})
        if sorted(B.values()) != list(range(1, N)):
            bad({"kind": "table", "which": "PRIMITIVE_TO_INDEX_not_bijective"},
                {"indices": sorted(B.values()), "num_prim": N})
        for nm, idx in sorted(B.items()):
            cnt("index_roundtrips")
            if table.get(idx) != nm:
                bad({"kind": "table", "which": "PRIMITIVE_TO_INDEX_vs_C_table"},
                    {"name": nm, "index": idx, "c_table_name": table.get(idx)})
        for idx in range(1, N):
            if table.get(idx) is None:
                bad({"kind": "table", "which": "C_table_hole"}, {"index": idx})
        for idx, what in sorted(beyond.items()):
            cnt("index_past_end_probed")
            if what.startswith("accepted"):
                bad({"kind": "table", "which": "C_table_longer_than_NUM_PRIM"}, {"index": idx, "got": what})

    # ---- acceptance by cdef/typeof, gcc facts ------------------------------------------
    if only is not None:
        names = [n for n in names if n in only]
    acc = {}
    for n in names:
        ok, exc = accepted_by_cdef(n)
        acc[n] = ok
        cnt("cdef_accepts" if ok else "cdef_rejects")
    td_names = [n for n in names if acc[n]]
    own = A | set(B) | set(nm for nm in table.values() if nm)      # cffi's own canonical names
    fields = [n for n in td_names if n in own]
    gnames = sorted(set(names))
    gfacts, goffs, gsp = gcc_facts(gnames, fields)
    for n in gnames:
        gf = gfacts[n]
        # which ctype the spelling denotes: cffi's own names denote themselves; any other spelling
        # denotes the standard type gcc says it is compatible with (None: cffi has no such ctype)
        gf["canonical"] = n if n in own else gf["standard"]
    ffis = build_ffis(td_names, fields, "all" if only is None else "replay")

    # reference object for identity: what the C backend returns for the canonical name
    def backend_type(canon):
        try:
            return _cffi_backend.new_primitive_type(canon)
        except Exception:
            return None

    for n in names:
        gf = gfacts[n]
        routes_ok = 0
        per_ffi_accept = {}
        for kind in FFIS:
            ffi = ffis[kind]
            try:
                ct = ffi.typeof(n)
                per_ffi_accept[kind] = True
            except Exception as e:
                per_ffi_accept[kind] = False
                ct = None
            if ct is None:
                continue
            cnt("typeof_accepts_" + kind)
            if gf["canonical"] is None:
                # gcc knows the spelling but cffi has no ctype for that standard type and still accepted it
                bad({"kind": "accepts_unknown_type", "ffi": kind}, {"name": n, "got": ct.cname})
                continue
            o = observe(ffi, ct, gf)
            for fact, got, want in compare(o, gf, n):
                bad({"kind": "fact", "fact": fact, "ffi": kind, "route": "typeof"},
                    {"name": n, "ffi": kind, "route": "typeof", "fact": fact, "observed": got, "gcc": want})
            ref = backend_type(gf["canonical"])
            cnt("identity_checks")
            if ct is not ref:
                bad({"kind": "identity", "ffi": kind, "route": "typeof"},
                    {"name": n, "ffi": kind, "route": "typeof", "got": repr(ct), "want": repr(ref)})
            routes_ok += 1
            if acc[n]:
                i = td_names.index(n)
                try:
                    ct2 = ffi.typeof("td_%d" % i)
                except Exception as e:
                    bad({"kind": "typedef_unresolved", "ffi": kind},
                        {"name": n, "ffi": kind, "route": "typedef", "error": "%s: %s" % (type(e).__name__, e)})
                    continue
                cnt("identity_checks")
                if ct2 is not ref:
                    bad({"kind": "identity", "ffi": kind, "route": "typedef"},
                        {"name": n, "ffi": kind, "route": "typedef", "got": repr(ct2), "want": repr(ref)})
                o2 = observe(ffi, ct2, gf)
                for fact, got, want in compare(o2, gf, n):
                    bad({"kind": "fact", "fact": fact, "ffi": kind, "route": "typedef"},
                        {"name": n, "ffi": kind, "route": "typedef", "fact": fact, "observed": got, "gcc": want})
        # the in-line cdef and the three typeof() must agree on whether the name exists
        vals = set(per_ffi_accept.values()) | {acc[n]}
        if len(vals) != 1:
            w = n.split()
            qbc = any(a in ("const", "volatile") and b == "_Complex" for a, b in zip(w, w[1:]))
            bad({"kind": "acceptance_differs", "qualifier_before_complex": qbc},
                {"name": n, "cdef": acc[n], "typeof": per_ffi_accept})
        if routes_ok:
            cnt("names_accepted")
            cnt("category_" + gf["category"])
            if n != gf["canonical"]:
                cnt("names_that_are_respellings")
            samples.append({"name": n, "sources": sorted(set(src[n])), "gcc": {k: gf[k] for k in
                            ("size", "align", "signed", "category", "canonical")}})
        else:
            cnt("names_rejected_everywhere")
            if set(src[n]) - {"permutation", "qualified-permutation"}:
                # a name from cffi's own tables must be usable
                bad({"kind": "table_name_rejected"}, {"name": n, "sources": sorted(set(src[n]))})

    # ---- C table objects are the same objects too ------------------------------------------
    for idx, ct in sorted(table_ct.items()):
        if only is not None and ct.cname not in only:
            continue
        cnt("identity_checks")
        if ct is not backend_type(ct.cname):
            bad({"kind": "identity", "ffi": "handmade", "route": "OP_PRIMITIVE"},
                {"name": ct.cname, "index": idx, "ffi": "handmade", "route": "OP_PRIMITIVE"})

    # ---- struct fields: offsets as laid out by gcc --------------------------------------
    for kind in FFIS:
        ffi = ffis[kind]
        try:
            sz, al = ffi.sizeof("struct SP"), ffi.alignof("struct SP")
        except Exception as e:
            bad({"kind": "struct_unresolved", "ffi": kind}, {"ffi": kind, "error": "%s: %s" % (type(e).__name__, e),
                                                             "fields": fields})
            continue
        if (sz, al) != gsp:
            bad({"kind": "fact", "fact": "struct_size", "ffi": kind, "route": "field"},
                {"ffi": kind, "observed": [sz, al], "gcc": list(gsp), "fields": fields, "name": None})
        fl = dict(ffi.typeof("struct SP").fields)
        for i, n in enumerate(fields):
            cnt("field_offsets_compared")
            off = ffi.offsetof("struct SP", "f%d" % i)
            if off != goffs[i]:
                bad({"kind": "fact", "fact": "offset", "ffi": kind, "route": "field"},
                    {"name": n, "ffi": kind, "route": "field", "fact": "offset", "observed": off, "gcc": goffs[i]})
            if fl["f%d" % i].type is not backend_type(gfacts[n]["canonical"]):
                bad({"kind": "identity", "ffi": kind, "route": "field"},
                    {"name": n, "ffi": kind, "route": "field", "got": repr(fl["f%d" % i].type)})

    # ---- the size/sign -> index macro used by generated C (_cffi_prim_int) -----------------
    if only is None:
        for k, (t, size, sign) in enumerate(PRIM_INT_PROBES):
            cnt("prim_int_probes")
            try:
                ct = ffis["api"].typeof("xi_%d" % k)
            except Exception as e:
                bad({"kind": "prim_int_unresolved"}, {"type": t, "error": "%s: %s" % (type(e).__name__, e)})
                continue
            if ct is not backend_type(t):
                bad({"kind": "identity", "ffi": "api", "route": "prim_int"},
                    {"name": t, "ffi": "api", "route": "prim_int", "got": repr(ct)})
    return counts, samples, viol


def run(ctx):
    res = None
    for item, r in pool.pmap(work, [[{"only": None}]], nproc=1):
        if isinstance(r, pool.WorkerError):
            raise InfraError("worker failed: %s" % r.tb)
        if isinstance(r, pool.Crash):
            raise InfraError("worker crashed: %s" % r.describe())
        res = r
    counts, samples, viol = res
    for k, v in counts.items():
        ctx.count(k, v)
    for s in samples:
        ctx.sample(s)
    for sig, detail in viol:
        ctx.violation(sig, detail)
    nfacts = 0
    for kind in FFIS:
        nfacts += counts.get("typeof_accepts_" + kind, 0)
    cov = {
        "evaluations": counts.get("names_total", 0) * len(FFIS),
        "distinct_nontrivial": counts.get("names_accepted", 0),
        "rule": "the complete set of candidate names = keys of ALL_PRIMITIVE_TYPES + keys of PRIMITIVE_TO_INDEX + names "
                "of the C table for OP_PRIMITIVE 1.._NUM_PRIM-1 (+3 indices past the end) + commontypes aliases + all "
                "%d distinct permutations of the %d specifier multisets of C11 6.7.2p2; each tried with typeof() in 3 FFIs "
                "(in-line, out-of-line ABI module, compiled API module) and via cdef typedef and struct field; "
                "non-trivial = name accepted by cffi, so its facts and identity were compared with gcc "
                "(distinct names counted)" % (len(permutations()), len(MULTISETS)),
        "exhaustive": True,
        "names": counts.get("names_total", 0),
        "fact_sets_compared": nfacts,
        "identity_checks": counts.get("identity_checks", 0),
    }
    return ctx.finish(cov, ["gcc 12 + glibc headers on this machine give the facts for each spelling",
                            "plain char: signedness not observable through cffi, not compared",
                            "names gcc accepts but every cffi FFI rejects (specifiers after the base type, "
                            "long double _Complex) are outside the statement ('accepted by cdef() and typeof()') "
                            "and only counted"])


def replay(detail):
    name = detail.get("name")
    counts, samples, viol = work({"only": [name] if name else None})
    hit = 0
    for sig, d in viol:
        if name is None or d.get("name") == name:
            print("MISMATCH", sig, d)
            hit += 1
    if not hit:
        print("no mismatch for", name)
    return 1 if hit else 0
