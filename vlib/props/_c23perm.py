"""Helpers of C23 part (b): sets whose iteration order is a choice point.

Two ways of installing them:

* "rebind": the NAME `set` is rebound in the namespaces of the real cffi.recompiler /
  cffi.model / cffi.cparser modules (done in c23.py).
* "ast": a second copy of the whole cffi package is imported under the alias name
  `c23cffi` from the same source files, with an AST pass that rewrites every set display
  `{a, b}`, every set comprehension and every load of the names `set` / `frozenset` to the
  permuting classes below.  This reaches what rebinding a name cannot: displays,
  comprehensions, frozenset, the results of the set operators (the permuting classes
  return permuting sets from | & - ^ and the named methods), set.pop(), and the modules
  cffi.api / cffi.commontypes / cffi.cffi_opcode / ... .  Nothing is written anywhere
  (no byte-code cache: the loader compiles in memory).
  Not reached: the result of `dict.keys() & x` (a plain set made in C), and
  weakref.WeakKeyDictionary iteration.
"""
import ast
import importlib.abc
import importlib.util
import itertools
import os
import sys

from ..build import InfraError

ALIAS = "c23cffi"
FULL_LIMIT = 4          # sets up to this size: every permutation belongs to the reduced family


class Choices(object):
    def __init__(self, prefix):
        self.prefix = list(prefix)
        self.taken = []      # (n_alternatives, chosen, n_reduced)

    def choose(self, n, nred=None):
        k = len(self.taken)
        c = self.prefix[k] if k < len(self.prefix) else 0
        if c >= n:
            raise InfraError("set-order replay diverged")
        self.taken.append((n, c, n if nred is None else nred))
        return c


CH = [None]


def _reduced_family(n):
    """identity, reversal, the rotations and the adjacent transpositions of range(n)."""
    ident = tuple(range(n))
    fam = [ident, tuple(reversed(ident))]
    for r in range(1, n):
        fam.append(ident[r:] + ident[:r])
    for i in range(n - 1):
        p = list(ident)
        p[i], p[i + 1] = p[i + 1], p[i]
        fam.append(tuple(p))
    out = []
    for p in fam:
        if p not in out:
            out.append(p)
    return out


_ORDERS = {}


def orders(n):
    """All permutations of range(n): the reduced family first (index 0 = sorted order), then the
    others in lexicographic order.  Returns (list, size of the reduced family)."""
    if n not in _ORDERS:
        if n > 8:
            raise InfraError("a set of %d elements is iterated during generation: %d! orders are not enumerable; "
                             "lower the corpus entry" % (n, n))
        allp = list(itertools.permutations(range(n)))
        if n <= FULL_LIMIT:
            _ORDERS[n] = (allp, len(allp))
        else:
            red = _reduced_family(n)
            seen = set(red)
            _ORDERS[n] = (red + [p for p in allp if p not in seen], len(red))
    return _ORDERS[n]


def _permuted(items):
    items = sorted(items, key=repr)
    ch = CH[0]
    if ch is None or len(items) < 2:
        return items
    perms, nred = orders(len(items))
    p = perms[ch.choose(len(perms), nred)]
    return [items[i] for i in p]


def _mk(cls):
    def wrap2(name):
        base = getattr(cls.__mro__[1], name)

        def f(self, *a):
            r = base(self, *a)
            if r is NotImplemented:
                return r
            return cls(r)
        f.__name__ = name
        return f
    for name in ("__or__", "__and__", "__sub__", "__xor__", "__ror__", "__rand__", "__rsub__", "__rxor__",
                 "union", "intersection", "difference", "symmetric_difference", "copy"):
        setattr(cls, name, wrap2(name))
    return cls


class PermSet(set):
    """A set whose iteration order is a choice point (all permutations)."""

    def __iter__(self):
        return iter(_permuted(set.__iter__(self)))

    def pop(self):
        items = sorted(set.__iter__(self), key=repr)
        if not items:
            raise KeyError("pop from an empty set")
        ch = CH[0]
        k = 0
        if ch is not None and len(items) > 1:
            k = ch.choose(len(items))
        set.discard(self, items[k])
        return items[k]

    def __reduce__(self):
        return (PermSet, (sorted(set.__iter__(self), key=repr),))


class PermFrozenSet(frozenset):
    def __iter__(self):
        return iter(_permuted(frozenset.__iter__(self)))


_mk(PermSet)
_mk(PermFrozenSet)


class _Rewrite(ast.NodeTransformer):
    def __init__(self):
        self.n = {"display": 0, "comprehension": 0, "name": 0}

    def _call(self, fn, arg, node):
        return ast.copy_location(ast.Call(func=ast.Name(id=fn, ctx=ast.Load()), args=[arg], keywords=[]), node)

    def visit_Set(self, node):
        self.generic_visit(node)
        self.n["display"] += 1
        return self._call("_c23_PermSet", ast.List(elts=node.elts, ctx=ast.Load()), node)

    def visit_SetComp(self, node):
        self.generic_visit(node)
        self.n["comprehension"] += 1
        return self._call("_c23_PermSet", ast.ListComp(elt=node.elt, generators=node.generators), node)

    def visit_Name(self, node):
        if isinstance(node.ctx, ast.Load) and node.id in ("set", "frozenset"):
            self.n["name"] += 1
            return ast.copy_location(ast.Name(id="_c23_PermSet" if node.id == "set" else "_c23_PermFrozenSet",
                                              ctx=ast.Load()), node)
        return node


REWRITTEN = {}      # module name -> counts of rewritten nodes


class _Loader(importlib.abc.Loader):
    def __init__(self, fullname, path):
        self.fullname = fullname
        self.path = path

    def create_module(self, spec):
        return None

    def exec_module(self, module):
        with open(self.path, "rb") as f:
            src = f.read()
        tree = ast.parse(src, self.path)
        rw = _Rewrite()
        tree = rw.visit(tree)
        ast.fix_missing_locations(tree)
        REWRITTEN[self.fullname] = dict(rw.n)
        code = compile(tree, self.path, "exec", dont_inherit=True)
        module.__dict__["_c23_PermSet"] = PermSet
        module.__dict__["_c23_PermFrozenSet"] = PermFrozenSet
        exec(code, module.__dict__)


class _Finder(importlib.abc.MetaPathFinder):
    def __init__(self, directory):
        self.directory = directory

    def find_spec(self, fullname, path=None, target=None):
        if fullname == ALIAS:
            fn = os.path.join(self.directory, "__init__.py")
            return importlib.util.spec_from_file_location(fullname, fn, loader=_Loader(fullname, fn),
                                                          submodule_search_locations=[self.directory])
        if fullname.startswith(ALIAS + "."):
            sub = fullname[len(ALIAS) + 1:]
            if "." in sub:
                return None
            fn = os.path.join(self.directory, sub + ".py")
            if not os.path.isfile(fn):
                return None
            return importlib.util.spec_from_file_location(fullname, fn, loader=_Loader(fullname, fn))
        return None


_ALIAS_MOD = [None]


def alias_package():
    """The instrumented copy of the cffi package that this process imports (same source files)."""
    if _ALIAS_MOD[0] is None:
        import cffi
        directory = os.path.dirname(os.path.abspath(cffi.__file__))
        sys.meta_path.insert(0, _Finder(directory))
        mod = importlib.import_module(ALIAS)
        for sub in ("api", "model", "cparser", "recompiler", "commontypes", "cffi_opcode"):
            importlib.import_module(ALIAS + "." + sub)
        if os.path.dirname(os.path.abspath(mod.recompiler.__file__)) != directory:
            raise InfraError("alias package loaded from the wrong place")
        if mod.FFI is cffi.FFI:
            raise InfraError("alias package is not a separate copy")
        _ALIAS_MOD[0] = mod
    return _ALIAS_MOD[0]
