"""C23 -- generated source: deterministic, idempotent, atomically replaced.

(a) E5: every I/O step of the write path (and torn writes) as a crash point, for
    every initial state of the target file, on the real `_make_c_or_py_source`
    with `open`/`os` injected into the cffi.recompiler namespace; entered directly
    (make_c_source / make_py_source), through recompile() (module names with dots:
    package directories), ffi.compile() (Python target) and ffi.emit_*_code();
    for several C-source strings (CR LF, lone CR, empty, no final newline,
    non-ASCII, longer than the I/O buffer); each crash followed by a recovery run
    in "another process" (different pid); and once more with a rename() that does
    not replace an existing file (the unlink + rename fallback).
(b) every iteration order of every `set` iterated during generation, deviation
    bounded: the name `set` rebound in cffi.recompiler / cffi.model / cffi.cparser,
    and a second copy of the whole package whose set displays, comprehensions,
    `set` / `frozenset` names are rewritten by an AST pass (_c23perm.py).
(c) the corpus generated in fresh processes under several PYTHONHASHSEEDs, from
    different working directories and target paths, twice each plus once more on
    the same (meanwhile used) ffi object: identical bytes; and two non-ASCII
    inputs under three locale / UTF-8-mode settings.
"""
import hashlib
import locale
import os
import shutil
import subprocess
import sys

from .. import build, pool
from ..build import InfraError
from . import _c23perm
from ._c23perm import PermSet, CH as _CH, Choices as _Choices

ID = "C23"
LEVEL = "fault_enumeration"
META = dict(
    engine="E5-crash", level="fault_enumeration",
    technique="exhaustive crash-point and torn-write enumeration of the real write path with injected I/O, plus "
              "exhaustive enumeration of set-iteration orders (deviation-bounded) and hash-seed/process/locale variation",
    text="For every corpus cdef (incl. embedding, dotted module name, packed, several cdef() calls) x {C source, "
         "Python module} x every initial state of the target (absent, identical, identical+1 byte, identical+more, "
         "proper prefix, different same-length, different, empty, identical but CR LF / one CR / one LF for CR LF / "
         "BOM in front, symlink to a different / identical / missing file, stale temp file of the same pid; for "
         "recompile()/compile() also 'directory absent') the write path runs to completion (idempotence: no write "
         "step, mtime kept, returns False iff identical) and is then re-run once per I/O step with the process "
         "'dying' instead of that step, and for writes after each torn prefix; the target must hold the complete old "
         "or the complete new content; after every crash a recovery run under another pid must end with the new "
         "content, the right return value and no temp file of its own.  The same for 8 C-source strings (CR LF, lone "
         "CR, CR at the end, empty, no final newline, non-ASCII, 70000 characters) x 3 cdefs, and for the entry points "
         "recompile() / ffi.compile() / ffi.emit_c_code() / ffi.emit_python_code() x module names mod_x, pkg.mod_x, "
         "a.b.mod_x x 3 cdefs (quick tier: the first 12 corpus cdefs + the 5 builder entries, and 1 cdef for the C-source "
         "and entry-point families).  The unlink+rename fallback is judged under an os.rename that refuses to replace an "
         "existing file (Windows answer).  Determinism: all iteration orders of the sets used while generating (1 "
         "deviation from all n! orders in the quick tier; thorough adds a 2nd deviation taken from the reduced family "
         "reversal/rotations/adjacent transpositions for sets of more than 4 elements), both with the name `set` "
         "rebound in the real modules (quick tier: reduced family only) and with an AST-rewritten copy of the package "
         "(set displays, comprehensions, set/frozenset names, operator results, pop); 8 (thorough 32) hash seeds in "
         "fresh processes, with the ffi used (typeof/sizeof/new of every declared type) between two generations; 3 "
         "locale / UTF-8-mode settings for a non-ASCII C source and a non-ASCII embedding init code.",
    note="crash model = process death between or inside system calls (the code never fsyncs: power loss with unsynced "
         "data is outside the statement's quantifier); part (a) compares with the text encoded as open(..., 'w') of "
         "the checking process encodes it (UTF-8 under bin/check), the encoding dependence itself is judged in (c); "
         "the rename-failure fallback is reachable only where rename() does not replace (Windows): it is executed here "
         "under an injected answer of os.rename; measured durations on the 16-core machine while it was loaded by other jobs (load average 65-90): quick "
         "130 s wall / 230 s CPU, thorough 7.5 min wall / 15.5 min CPU; the work is spread evenly over the 16 workers "
         "(no long pole), so an idle machine needs roughly CPU/16 plus three pool start-ups")

CORPUS_FALLBACK = [
    ("prim", "int f(int); extern long g;\n#define K 42\nstatic const int SC = -3;"),
    ("structs", "struct a { int x; char *p; }; struct b { struct a a1; short s:3; long long q[4]; }; "
                "union u { int i; float f; }; typedef struct a a_t; a_t *mk(struct b *, union u);"),
    ("ptrargs", "int p1(int *a, char *b); void p2(char *, int *, double *); char *p3(void); int p4(const char *, ...);"),
    ("enums", "enum e1 { A, B = 5, C }; enum e2 { N = -1, M = 4000000000 }; typedef enum { X1, X2 } anon_e; enum e1 fe(anon_e);"),
    ("partial", "struct p { int a; ...; }; typedef struct { int k; ...; } q_t;\n#define DOTS ...\nenum pe { PA, PB, ... };"
                " typedef int... myint_t; typedef float... myfloat_t; extern int garr[...];"),
    ("callbacks", "typedef int (*cb_t)(int, void *); int reg(cb_t); extern \"Python\" int pycb(int, void *);"
                  " extern \"Python\" { void pycb2(void); long pycb3(struct sx *); }"),
    ("funcptr", "typedef struct s1 s1; typedef void (*fp1)(s1 *, int (*)(double)); fp1 getfp(void); extern fp1 gfp;"
                " struct s1 { fp1 h; int (*arr[3])(void); };"),
    ("anon", "typedef struct { int a; struct { int b; union { int c; char d; }; }; } an_t; an_t fa(an_t);"),
    ("consts", "#define ZERO 0\n#define NEG -7\n#define HEX 0x7fffffff\n#define BIG 0xFFFFFFFFFFFFFFFF\n"
               "static const char CC = 'x'; static const unsigned long long ULL = 18446744073709551615;"),
    ("opaque", "typedef struct opq opq_t; opq_t *oget(void); void oput(opq_t *); struct fwd; void fw(struct fwd *);"
               " typedef ... *handle_t; handle_t hopen(void);"),
    ("wide", "wchar_t *ws(wchar_t); char16_t c16(char32_t); _Bool bb(_Bool); long double ld(long double);"
             " float _Complex fc(double _Complex); size_t sz(ssize_t); int64_t i64(uint8_t);"),
    ("file", "int fput(FILE *, const char *); typedef struct { FILE *fp; int n; } fw_t;"),
    ("includes3", "@includes3"),
    # generator branches no plain cdef reaches (audit gap 6)
    ("embedding", "@embedding"),
    ("dotted", "@dotted"),
    ("packed", "@packed"),
    ("twocdefs", "@twocdefs"),
]
BUILDER_ENTRIES = ("includes3", "embedding", "dotted", "packed", "twocdefs")


def corpus():
    try:
        from . import _corpus
        lst = list(_corpus.CORPUS)
        names = set(n for n, _ in lst)
        return lst + [(n, t) for n, t in CORPUS_FALLBACK if n not in names]
    except Exception:
        return list(CORPUS_FALLBACK)


PREAMBLE = "/* prelude */\n#include <stdio.h>\n"

# values of the "C source" input (audit gap 1).  "std" is the one every corpus entry is generated with.
PREAMBLES = {
    "std": PREAMBLE,
    "crlf": "/* w */\r\nint a;\r\n#include <stdio.h>\r\n",
    "lone-cr": "int a;\rint b;\n",
    "cr-at-end": "int a;\nint b;\r",
    "empty": "",
    "no-final-newline": "int x;",
    "non-ascii": "/* \u00a9 caf\u00e9 \u4e2d */\nint c;\n",
    "long-70000": "/* " + "x" * 70000 + " */\nint d;\n",
}
PREAMBLE_CDEFS = ("structs", "prim", "callbacks")     # the write path does not depend on the cdef:
ENTRY_CDEFS = ("structs", "prim", "callbacks")        # the quick tier takes the first one only
MODNAMES = {"@dotted": "a.b.mod_x"}


def modname_of(text):
    return MODNAMES.get(text, "mod_x")


def make_ffi(text, py, cffi_mod=None):
    if cffi_mod is None:
        import cffi as cffi_mod
    if text.startswith("@"):
        return BUILDERS[text[1:]](py, cffi_mod)
    ffi = cffi_mod.FFI()
    ffi.cdef(text)
    return ffi


def _build_includes3(py, cffi):
    """An FFI that include()s three others (each with its own module name)."""
    parts = []
    for nm, decl in (("inc_zeta", "typedef struct za { int a; } za_t; int fz(za_t *);"),
                     ("inc_alpha", "enum ea { EA1, EA2 = 7 }; typedef enum ea ea_t;"),
                     ("inc_mid", "struct mm { long long q; };\n#define MMK 12\n")):
        f = cffi.FFI()
        f.cdef(decl)
        f.set_source(nm, None if py else "/* %s */" % nm)
        parts.append(f)
    ffi = cffi.FFI()
    for f in parts:
        ffi.include(f)
    ffi.cdef("struct top { za_t z; ea_t e; struct mm m; }; int use(struct top *);")
    return ffi


EMBEDDING_INIT = (
    "\n"
    "    from mod_x import ffi\n"
    "    S = \"a quote \\\" a backslash \\\\ and \u00e9 \u4e2d \\x7f\"\n"
    "    L = \"" + "long line " * 60 + "\"\n"
    "\n"
    "    @ffi.def_extern()\n"
    "    def emb_add(a, b):\n"
    "        return a + b   # ??/ trigraph-like, tab\there\n")


def _build_embedding(py, cffi):
    ffi = cffi.FFI()
    ffi.embedding_api("int emb_add(int, int); extern int emb_glob;")
    ffi.cdef("int helper(int); typedef struct { int a; } emb_t;")
    ffi.embedding_init_code(EMBEDDING_INIT)
    return ffi


def _build_dotted(py, cffi):
    ffi = cffi.FFI()
    ffi.cdef("int dotted_f(int); struct dd { int a; }; typedef struct dd dd_t;")
    if not py:
        ffi.cdef("extern \"Python\" int dotted_cb(int);")
    return ffi


def _build_packed(py, cffi):
    ffi = cffi.FFI()
    ffi.cdef("struct pk1 { char c; int i; long long q; };", packed=True)
    ffi.cdef("struct pk2 { char c; long long q; short s; };", pack=2)
    ffi.cdef("struct pk0 { char c; long long q; }; int upk(struct pk1 *, struct pk2 *, struct pk0 *);")
    return ffi


def _build_twocdefs(py, cffi):
    ffi = cffi.FFI()
    ffi.cdef("typedef int t1; int f1(t1);\n#define TWO 2\n")
    ffi.cdef("struct s2 { t1 a; }; int f2(struct s2 *);")
    ffi.cdef("int f1(t1);\n#define TWO 2\n", override=True)
    ffi.cdef("enum e3 { E3A, E3B };")
    return ffi


BUILDERS = {"includes3": _build_includes3, "embedding": _build_embedding, "dotted": _build_dotted,
            "packed": _build_packed, "twocdefs": _build_twocdefs}


def c_stub_source(text):
    return PREAMBLE


def touch_ffi(ffi):
    """Use the ffi between two generations (audit gap 8): typeof / sizeof / new of every declared type.
    Returns the number of successful operations; errors (partial types, opaque structs) are expected."""
    n = 0
    for key in sorted(ffi._parser._declarations):
        kind, _, nm = key.partition(" ")
        if kind not in ("typedef", "struct", "union", "enum"):
            continue
        cname = nm if kind == "typedef" else key
        for op in (lambda: ffi.typeof(cname), lambda: ffi.sizeof(cname), lambda: ffi.new(cname + " *"),
                   lambda: ffi.typeof(cname).fields, lambda: ffi.getctype(cname, "*")):
            try:
                op()
                n += 1
            except Exception:
                pass
    return n


# ---------------------------------------------------------------------------------------
# (a) crash points

class Crash(BaseException):
    pass


UNKNOWN = "n/a"          # entry points that do not return 'updated'
RENAME_CFG = "rename-does-not-replace"


class IOWorld(object):
    """Performs the real operations on a scratch directory, numbering every I/O step.
    Step `crash_at` (optionally with a torn-write prefix length) 'kills the process'.
    rename_fails: os.rename raises OSError when the destination exists (the answer of a
    platform whose rename does not replace).  pid_offset: os.getpid() of "another process"."""

    def __init__(self, crash_at=None, torn=None, rename_fails=False, pid_offset=0):
        self.crash_at = crash_at
        self.torn = torn
        self.steps = []
        self.rename_fails = rename_fails
        self.pid_offset = pid_offset
        self.write_sizes = {}

    def step(self, name, detail=None):
        k = len(self.steps)
        self.steps.append((name, detail))
        if self.crash_at is not None and k == self.crash_at and not (name in ("flush", "close") and self.torn is not None):
            raise Crash()
        return k

    # --- injected names ---
    def open(self, path, mode="r", *a, **kw):
        # extra arguments (newline='' of the comparing read) go to the real open() unchanged
        self.step("open-" + mode, (os.path.basename(path), kw.get("newline", "default")))
        real = open(path, mode, *a, **kw)
        return _F(self, real, mode)

    def os_proxy(self):
        w = self
        real_os = os

        class P(object):
            def __getattr__(self, name):
                return getattr(real_os, name)

            def getpid(self):
                return real_os.getpid() + w.pid_offset

            def makedirs(self, a, *args, **kw):
                w.step("makedirs", os.path.basename(a))
                return real_os.makedirs(a, *args, **kw)

            def rename(self, a, b):
                w.step("rename", (os.path.basename(a), os.path.basename(b)))
                if w.rename_fails and real_os.path.lexists(b):
                    raise FileExistsError("injected: rename does not replace %r" % os.path.basename(b))
                return real_os.rename(a, b)

            def replace(self, a, b):
                w.step("replace", (os.path.basename(a), os.path.basename(b)))
                return real_os.replace(a, b)

            def unlink(self, a):
                w.step("unlink", os.path.basename(a))
                return real_os.unlink(a)

            def remove(self, a):
                w.step("remove", os.path.basename(a))
                return real_os.remove(a)
        return P()


class _F(object):
    """File wrapper with the buffering that matters for the crash model: written data sits in
    user space until flush()/close(); a process death loses it.  Every call is an I/O step."""

    def __init__(self, world, real, mode):
        self.w = world
        self.real = real
        self.mode = mode
        self.pending = []

    def read(self, *a):
        self.w.step("read")
        return self.real.read(*a)

    def write(self, data):
        self.w.step("write", len(data))          # buffered: nothing reaches the file yet
        self.pending.append(data)
        return len(data)

    def _flush_pending(self, stepname):
        data = "".join(self.pending) if self.pending and isinstance(self.pending[0], str) else b"".join(self.pending)
        k = self.w.step(stepname, len(data))
        self.w.write_sizes[k] = len(data)
        if self.w.crash_at == k and self.w.torn is not None:
            self.real.write(data[:self.w.torn])   # the kernel got only a prefix when the process died
            self.real.flush()
            self.real.close()
            raise Crash()
        self.pending = []
        if data:
            self.real.write(data)
        self.real.flush()

    def flush(self):
        self._flush_pending("flush")

    def close(self):
        self._flush_pending("close")
        self.real.close()

    def __enter__(self):
        return self

    def __exit__(self, *a):
        if a[0] is not None and issubclass(a[0], Crash):
            try:
                self.real.close()          # the process died: buffered data is lost
            except Exception:
                pass
            return False
        self.close()
        return False

    def __getattr__(self, name):
        return getattr(self.real, name)


# An old target holding bytes that are not valid UTF-8 makes regeneration raise UnicodeDecodeError
# (open(..., 'r').read() is only guarded by `except OSError`).  The old content stays complete, so
# the statement (old-or-new at every crash point) is not broken; that state is therefore not judged.
INITIAL = ["absent", "identical", "identical+1", "identical+many", "prefix", "same-length-different",
           "different", "empty",
           # audit gap 1: differs from the new text only in newline bytes / a byte-order mark
           "identical-crlf", "identical-one-cr", "identical-lf-for-crlf", "bom+identical",
           # audit gap 4: the target is a symbolic link; a temp file with this pid's name exists already
           "symlink-different", "symlink-identical", "dangling-symlink", "stale-temp-file"]
NODIR = "absent-nodir"            # recompile()/compile(): the directory of the target does not exist yet
IDENTICAL_LIKE = ("identical", "symlink-identical")
STALE_JUNK = b"/* stale temp of a crashed run */\n" * 4


def initial_bytes(kind, new):
    """Content of the target as a reader sees it (through a symlink) before the run; None = nothing there."""
    if kind in ("absent", NODIR, "dangling-symlink"):
        return None
    if kind in IDENTICAL_LIKE:
        return new
    if kind == "identical+1":
        return new + b"\n"
    if kind == "identical+many":
        return new + b"/* trailing */\n" * 3
    if kind == "prefix":
        return new[:len(new) // 2]
    if kind == "same-length-different":
        return new[:-2] + (b"Z\n" if new[-2:] != b"Z\n" else b"Y\n")
    if kind in ("different", "symlink-different", "stale-temp-file"):
        return b"/* old content */\nint old;\n"
    if kind == "empty":
        return b""
    if kind == "identical-crlf":
        return new.replace(b"\n", b"\r\n")
    if kind == "identical-one-cr":
        k = new.find(b"\n", len(new) // 2)
        if k < 0:
            k = new.find(b"\n")
        if k < 0:
            return new                                # (never: generated text has newlines) -> state skipped
        return new[:k] + b"\r" + new[k + 1:]
    if kind == "identical-lf-for-crlf":
        return new.replace(b"\r\n", b"\n", 1)         # == new when there is no CR LF: the state is skipped
    if kind == "bom+identical":
        return b"\xef\xbb\xbf" + new
    if kind == "undecodable":
        return b"\xff\xfe\x80 old binary junk \xc3\x28\n"
    raise ValueError(kind)


def _target_relpath(spec):
    py = spec["py"]
    parts = spec["modname"].split(".")
    ext = ".py" if py else spec.get("ext", ".c")
    if spec["entry"] in ("recompile", "compile"):
        return os.path.join(*(parts[:-1] + [parts[-1] + ext]))
    return parts[-1] + ext


def _run_entry(spec, ffi, d, target, world):
    import cffi.recompiler as R
    py = spec["py"]
    pre = None if py else PREAMBLES[spec["preamble"]]
    modname = spec["modname"]
    entry = spec["entry"]
    saved = (R.__dict__.get("open"), R.os)
    R.open = world.open
    R.os = world.os_proxy()
    try:
        if entry == "direct":
            if py:
                return R.make_py_source(ffi, modname, target)
            return R.make_c_source(ffi, modname, pre, target)
        if entry == "recompile":
            r = R.recompile(ffi, modname, pre, tmpdir=d, call_c_compiler=False, uses_ffiplatform=False,
                            compiler_verbose=0, source_extension=spec.get("ext", ".c"))
            return r[1]
        if entry == "compile":
            r = ffi.compile(tmpdir=d)
            if r != target:
                raise InfraError("compile() returned %r, the harness expects %r" % (r, target))
            return UNKNOWN
        if entry == "emit":
            import contextlib
            import io
            with contextlib.redirect_stdout(io.StringIO()):       # "generating ..." / "(already up-to-date)"
                (ffi.emit_python_code if py else ffi.emit_c_code)(target)
            return UNKNOWN
        raise InfraError("unknown entry %r" % (entry,))
    finally:
        if saved[0] is None:
            del R.open
        else:
            R.open = saved[0]
        R.os = saved[1]


def _encode_like_open(text):
    """The bytes open(path, 'w').write(text) of this process produces."""
    if os.linesep != "\n":
        text = text.replace("\n", os.linesep)
    return text.encode(locale.getpreferredencoding(False))


def _reference_text(ffi, spec):
    import io
    import cffi.recompiler as R
    f = io.StringIO()
    if spec["py"]:
        R.make_py_source(ffi, spec["modname"], f)
    else:
        R.make_c_source(ffi, spec["modname"], PREAMBLES[spec["preamble"]], f)
    return f.getvalue()


def _spec(family, name, text, py, preamble="std", entry="direct", modname=None, ext=".c"):
    return {"family": family, "name": name, "text": text, "py": bool(py), "preamble": preamble, "entry": entry,
            "modname": modname or modname_of(text), "ext": ext}


def spec_id(spec):
    return "%s-%s-%s-%s-%s-%s-%s" % (spec["family"], spec["name"], "py" if spec["py"] else "c", spec["preamble"],
                                     spec["entry"], spec["modname"].replace(".", "_"), spec["ext"].strip("."))


def write_specs(cps, quick):
    texts = dict(cps)
    specs = []
    sel = list(cps)
    if quick:
        sel = [(n, t) for i, (n, t) in enumerate(cps) if i < 12 or n in BUILDER_ENTRIES]
    for n, t in sel:
        for py in (False, True):
            specs.append(_spec("corpus", n, t, py))
    for pk in PREAMBLES:
        if pk == "std":
            continue
        for n in PREAMBLE_CDEFS[:1] if quick else PREAMBLE_CDEFS:
            specs.append(_spec("preamble", n, texts[n], False, preamble=pk))
    for n in ENTRY_CDEFS[:1] if quick else ENTRY_CDEFS:
        for modname in ("mod_x", "pkg.mod_x", "a.b.mod_x"):
            ext = ".cpp" if modname == "pkg.mod_x" else ".c"
            specs.append(_spec("entry", n, texts[n], False, entry="recompile", modname=modname, ext=ext))
            specs.append(_spec("entry", n, texts[n], True, entry="recompile", modname=modname))
            specs.append(_spec("entry", n, texts[n], True, entry="compile", modname=modname))
        specs.append(_spec("entry", n, texts[n], False, entry="emit", modname="mod_x"))
        specs.append(_spec("entry", n, texts[n], True, entry="emit", modname="mod_x"))
    return specs


def _torn_lengths(n):
    cand = {0, 1, n // 2, n - 1, 8192, ((n - 1) // 8192) * 8192}      # incl. the io buffer boundaries of long texts
    return sorted(t for t in cand if 0 <= t < n)


def crash_work(spec, only_states=None):
    """All initial states x all crash points (+ recovery, + rename fallback) for one spec."""
    py = spec["py"]
    ffi = make_ffi(spec["text"], py)
    item = (spec["name"], py)
    try:
        text = _reference_text(ffi, spec)
    except Exception as e:
        # this cdef cannot be generated for this target kind at all (e.g. '...' needs a compiler)
        return {"item": item, "excluded": "%s" % type(e).__name__}
    try:
        new = _encode_like_open(text)
    except UnicodeEncodeError:
        return {"item": item, "excluded": "not-encodable-in-this-locale"}
    if spec["entry"] in ("compile", "emit"):
        if py:
            ffi.set_source(spec["modname"], None)
        else:
            ffi.set_source(spec["modname"], PREAMBLES[spec["preamble"]], source_extension=spec["ext"])
    d = os.path.join(build.scratch(), "c23-" + spec_id(spec))
    aux = d + "-aux"
    rel = _target_relpath(spec)
    target = os.path.join(d, rel)
    tdir = os.path.dirname(target)
    store = os.path.join(aux, "store.dat")
    os.makedirs(aux, exist_ok=True)
    own_tmp = rel + ".~%d" % os.getpid()
    bad = []
    cnt = {"runs": 0, "crash": 0, "recovery": 0, "fallback_crash": 0, "skipped_states": 0}
    per_state = {}
    steps_seen = set()
    newline_args = set()
    fallback_steps = None
    nsteps_max = 0
    states = list(INITIAL) + ([NODIR] if spec["entry"] in ("recompile", "compile") else [])
    if only_states is not None:
        states = [s for s in states if s in only_states]

    def reset(kind):
        # (rmdir / unlink are the expensive calls here: nothing is removed that is overwritten anyway)
        if kind == NODIR:
            if os.path.lexists(d):
                shutil.rmtree(d)
            return None
        if not os.path.isdir(tdir):
            os.makedirs(tdir)
        old = initial_bytes(kind, new)
        plain = old is not None and not kind.startswith("symlink-")
        for fn in os.listdir(tdir):
            p = os.path.join(tdir, fn)
            if p == target and plain and not os.path.islink(p):
                continue
            os.unlink(p)
        if kind.startswith("symlink-"):
            with open(store, "wb") as f:
                f.write(old)
            os.utime(store, (1000000000, 1000000000))
            os.symlink(store, target)
        elif kind == "dangling-symlink":
            os.symlink(os.path.join(aux, "nothing-here"), target)
        elif old is not None:
            with open(target, "wb") as f:
                f.write(old)
            os.utime(target, (1000000000, 1000000000))
        if kind == "stale-temp-file":
            with open(os.path.join(d, own_tmp), "wb") as f:
                f.write(STALE_JUNK)
        return old

    def content():
        try:
            with open(target, "rb") as f:
                return f.read()
        except FileNotFoundError:
            return None

    def leftovers():
        out = []
        for dp, dns, fns in os.walk(d):
            for fn in fns:
                p = os.path.relpath(os.path.join(dp, fn), d)
                if p != rel:
                    out.append(p)
        return sorted(out)

    def run(world):
        cnt["runs"] += 1
        return _run_entry(spec, ffi, d, target, world)

    def crash_plan(kind, k, torn, cfg, step_name):
        """One crash run and the recovery run after it."""
        old = reset(kind)
        wc = IOWorld(crash_at=k, torn=torn, rename_fails=cfg is not None)
        extra = {"config": cfg} if cfg else {}
        try:
            run(wc)
            bad.append(("crash-plan-not-reached", dict(extra, initial=kind, step=k)))
            return
        except Crash:
            pass
        except Exception as e:
            bad.append(("crash-run-raises", dict(extra, initial=kind, step=k, error="%s: %s" % (type(e).__name__, e))))
            return
        got = content()
        if not (got == old or got == new):
            what = "absent" if got is None else ("truncated/partial (%d bytes)" % len(got))
            bad.append(("torn-target", dict(extra, initial=kind, step=k, step_name=step_name, torn=torn,
                                            target_is=what)))
        # recovery: the next process (another pid) regenerates without fault
        cnt["recovery"] += 1
        wr = IOWorld(pid_offset=1, rename_fails=cfg is not None)
        try:
            up = run(wr)
        except Exception as e:
            bad.append(("recovery-raises", dict(extra, initial=kind, step=k, torn=torn,
                                                error="%s: %s" % (type(e).__name__, e))))
            return
        got2 = content()
        if got2 != new:
            bad.append(("recovery-content-wrong", dict(extra, initial=kind, step=k, torn=torn)))
        if up is not UNKNOWN and up is not (got != new):
            bad.append(("recovery-return-wrong", dict(extra, initial=kind, step=k, torn=torn, returned=repr(up),
                                                      target_was_new=(got == new))))
        left = [p for p in leftovers() if p != own_tmp]           # the dead process's temp file may stay
        if left:
            bad.append(("recovery-temp-left", dict(extra, initial=kind, step=k, torn=torn, files=left)))

    for kind in states:
        if kind not in IDENTICAL_LIKE and kind != NODIR and initial_bytes(kind, new) == new:
            cnt["skipped_states"] += 1           # e.g. 'identical-lf-for-crlf' for a text without CR LF
            continue
        old = reset(kind)
        # --- full run (no crash)
        w = IOWorld()
        try:
            updated = run(w)
            exc = None
        except Exception as e:
            updated, exc = None, e
        if exc is not None:
            bad.append(("regenerate-raises", {"initial": kind, "error": "%s: %s" % (type(exc).__name__, exc)}))
            continue
        per_state[kind] = per_state.get(kind, 0) + 1
        got = content()
        names = [s[0] for s in w.steps]
        steps_seen.update(names)
        newline_args.update(repr(s[1][1]) for s in w.steps if s[0] == "open-r")
        if got != new:
            bad.append(("final-content-wrong", {"initial": kind}))
        if kind in IDENTICAL_LIKE:
            wrote = [n for n in names if n.startswith("open-w") or n in ("write", "flush", "rename", "replace", "unlink", "remove")]
            if updated is not UNKNOWN and updated is not False:
                bad.append(("identical-reported-updated", {"initial": kind, "returned": repr(updated)}))
            if wrote:
                bad.append(("identical-but-written", {"initial": kind, "steps": names}))
            if os.stat(target).st_mtime != 1000000000:
                bad.append(("identical-mtime-changed", {"initial": kind}))
        else:
            if updated is not UNKNOWN and updated is not True:
                bad.append(("changed-reported-not-updated", {"initial": kind, "returned": repr(updated)}))
        left = leftovers()
        if left:
            bad.append(("temp-left-after-success", {"initial": kind, "files": left}))
        nsteps = len(w.steps)
        nsteps_max = max(nsteps_max, nsteps)
        # --- a second run right after must be a no-op
        w2 = IOWorld()
        try:
            up2 = run(w2)
            if (up2 is not UNKNOWN and up2 is not False) or any(n in ("write", "rename") for n, _ in w2.steps):
                bad.append(("second-run-not-noop", {"initial": kind, "returned": repr(up2)}))
            if content() != new:
                bad.append(("second-run-content-wrong", {"initial": kind}))
        except Exception as e:
            bad.append(("second-run-raises", {"initial": kind, "error": "%s: %s" % (type(e).__name__, e)}))
        # --- crash instead of every step, and torn writes
        plans = []
        for k in range(nsteps):
            plans.append((k, None))
            if w.steps[k][0] in ("flush", "close") and w.write_sizes.get(k):
                for t in _torn_lengths(w.write_sizes[k]):
                    plans.append((k, t))
        for k, torn in plans:
            cnt["crash"] += 1
            crash_plan(kind, k, torn, None, w.steps[k][0])
        # --- audit gap 7: the same under a rename() that does not replace an existing target
        if kind in IDENTICAL_LIKE:
            continue
        reset(kind)
        wf = IOWorld(rename_fails=True)
        try:
            upf = run(wf)
        except Exception as e:
            bad.append(("regenerate-raises", {"initial": kind, "config": RENAME_CFG,
                                              "error": "%s: %s" % (type(e).__name__, e)}))
            continue
        fnames = [n for n, _ in wf.steps]
        steps_seen.update(fnames)
        if content() != new:
            bad.append(("final-content-wrong", {"initial": kind, "config": RENAME_CFG}))
        if upf is not UNKNOWN and upf is not True:
            bad.append(("changed-reported-not-updated", {"initial": kind, "config": RENAME_CFG, "returned": repr(upf)}))
        if leftovers():
            bad.append(("temp-left-after-success", {"initial": kind, "config": RENAME_CFG, "files": leftovers()}))
        if "unlink" in fnames:
            fallback_steps = fnames
            first = fnames.index("rename")
            for k in range(first + 1, len(fnames)):          # the steps up to the first rename are the plans above
                cnt["fallback_crash"] += 1
                crash_plan(kind, k, None, RENAME_CFG, fnames[k])
    for p in (d, aux):
        if os.path.lexists(p):
            shutil.rmtree(p)
    return {"item": item, "runs": cnt["runs"], "crash_runs": cnt["crash"], "recovery_runs": cnt["recovery"],
            "fallback_crash_runs": cnt["fallback_crash"], "skipped_states": cnt["skipped_states"],
            "per_state": per_state, "steps": sorted(steps_seen), "bad": bad, "newline_args": sorted(newline_args),
            "fallback_steps": fallback_steps, "nsteps_max": nsteps_max, "new_len": len(new)}


# ---------------------------------------------------------------------------------------
# (b) set iteration orders

def _gen_both(text, mode):
    """Generate C and Python module text; mode 'plain' (uninstrumented), 'rebind' (the name `set` rebound in
    three real modules) or 'ast' (instrumented copy of the package).  Returns (c_text, py_text)."""
    import io
    if mode == "ast":
        pkg = _c23perm.alias_package()
        R = pkg.recompiler
        mods = ()
    else:
        import cffi as pkg
        import cffi.recompiler as R
        import cffi.model as M
        import cffi.cparser as P
        mods = (R, M, P) if mode == "rebind" else ()
    for m in mods:
        m.set = PermSet
    try:
        out = []
        for py in (False, True):
            f = io.StringIO()
            try:
                ffi = make_ffi(text, py, pkg)
                if py:
                    R.make_py_source(ffi, modname_of(text), f)
                else:
                    R.make_c_source(ffi, modname_of(text), PREAMBLE, f)
            except InfraError:
                raise
            except Exception as e:
                out.append("<%s>" % type(e).__name__)      # not generatable for this target kind
                continue
            out.append(f.getvalue())
        return tuple(out)
    finally:
        for m in mods:
            try:
                del m.set
            except AttributeError:
                pass


def order_work(item):
    """item = (name, text, bound, mode, shard, nshards, first_full).  Deviation-bounded exploration of the set
    orders; the subtrees below the root are dealt out to `nshards` workers (the root itself is counted by
    shard 0).  The first deviation ranges over all n! orders of the set if first_full, further ones (and the
    first one otherwise) over the reduced family of _c23perm.orders()."""
    name, text, bound, mode, shard, nshards, first_full = item
    _CH[0] = None
    ref = _gen_both(text, "plain")
    stack = [[]]
    nexec = 0
    npoints = 0
    root_alts = 0
    bad = []
    while stack:
        prefix = stack.pop()
        is_root = not prefix
        ch = _Choices(prefix)
        _CH[0] = ch
        try:
            got = _gen_both(text, mode)
        finally:
            _CH[0] = None
        if not is_root or shard == 0:
            nexec += 1
            npoints = max(npoints, len(ch.taken))
            if got != ref:
                bad.append(("set-order-changes-output", {"cdef": name, "mode": mode, "choices": [c for _, c, _ in ch.taken]}))
                if len(bad) > 2:
                    break
        devs = sum(1 for _, c, _ in ch.taken if c)
        for i in range(len(prefix), len(ch.taken)):
            if devs + 1 > bound:
                break
            n, _, nred = ch.taken[i]
            for alt in range(1, n if (devs == 0 and first_full) else nred):
                if is_root:
                    root_alts += 1
                    if root_alts % nshards != shard:
                        continue
                stack.append([c for _, c, _ in ch.taken[:i]] + [alt])
    return {"item": name, "mode": mode, "executions": nexec, "choice_points": npoints, "bad": bad,
            "root_alternatives": root_alts}


def order_probe(item):
    """Number of alternatives below the root (to decide the number of shards)."""
    name, text, mode, first_full = item
    ch = _Choices([])
    _CH[0] = ch
    try:
        _gen_both(text, mode)
    finally:
        _CH[0] = None
    return {"alts": sum((n if first_full else nred) - 1 for n, _, nred in ch.taken), "points": len(ch.taken),
            "rewritten": dict(_c23perm.REWRITTEN) if mode == "ast" else None}


# ---------------------------------------------------------------------------------------
# (c) processes / hash seeds / paths / locales

_CHILD = r'''
import sys, os, hashlib, io
sys.path.insert(0, %(verif)r)
from vlib.props import c23
import cffi
out = []
variant = int(sys.argv[1])
base = sys.argv[2]
touched = 0
for name, text in c23.corpus():
    for py in (False, True):
        d = os.path.join(base, ("x" * (1 + variant %% 3)), "dir%%d" %% variant)
        os.makedirs(d, exist_ok=True)
        os.chdir(d if variant %% 2 else base)
        res = []
        for rep in range(2):
            ffi = c23.make_ffi(text, py)
            ffi.set_source(c23.modname_of(text), None if py else c23.PREAMBLE)
            fn = os.path.join(d, "out_%%s_%%d_%%d.%%s" %% (name, py, rep, "py" if py else "c"))
            try:
                (ffi.emit_python_code if py else ffi.emit_c_code)(fn)
            except Exception as e:
                res.append(("<%%s>" %% type(e).__name__).encode())
                continue
            with open(fn, "rb") as f:
                res.append(f.read())
            # same ffi object, second call, after the ffi has been used
            touched += c23.touch_ffi(ffi)
            fn2 = fn + ".again"
            (ffi.emit_python_code if py else ffi.emit_c_code)(fn2)
            with open(fn2, "rb") as f:
                res.append(f.read())
        assert len(set(res)) >= 1
        out.append("R|%%s|%%d|%%s|%%d" %% (name, py, hashlib.sha256(res[0]).hexdigest(), len(set(res))))
out.append("T|%%d" %% touched)
sys.stdout.write("\n".join(out) + "\n")
'''


def seed_work(item):
    seed, variant = item
    base = os.path.join(build.scratch(), "c23-seed-%s-%d" % (seed, variant))
    os.makedirs(base, exist_ok=True)
    env = dict(os.environ)
    env["PYTHONHASHSEED"] = str(seed)
    code = _CHILD % {"verif": build.VERIF}
    p = subprocess.run([build.PY, "-c", code, str(variant), base], env=env, stdout=subprocess.PIPE,
                       stderr=subprocess.PIPE, text=True)
    if p.returncode != 0:
        raise InfraError("seed child failed: %s" % p.stderr[-2000:])
    return {"seed": seed, "variant": variant, "lines": p.stdout.splitlines()}


# audit gap 2: the locale / UTF-8 mode is a configuration; the two inputs with non-ASCII characters
LOCALE_VARS = ("LC_ALL", "LC_CTYPE", "LANG", "PYTHONUTF8", "PYTHONCOERCECLOCALE", "PYTHONIOENCODING")
LOCALE_ENVS = {
    "inherited": None,
    "ascii-locale": {"LC_ALL": "C", "LANG": "C", "PYTHONCOERCECLOCALE": "0", "PYTHONUTF8": "0"},
    "utf8-mode": {"PYTHONUTF8": "1"},
}
LOCALE_CASES = [("nonascii-c-source", "int f(int);", "non-ascii"), ("nonascii-embedding-init", "@embedding", "std")]

_CHILD_LOCALE = r'''
import sys, os, hashlib, shutil
sys.path.insert(0, %(verif)r)
from vlib.props import c23
base = sys.argv[1]
out = []
for case, text, pk in c23.LOCALE_CASES:
    ref = os.path.join(base, "ref-" + case + ".c")
    for phase in ("absent", "again", "target-from-utf8-process"):
        d = os.path.join(base, case + "-" + ("x" if phase == "target-from-utf8-process" else "a"))
        os.makedirs(d, exist_ok=True)
        fn = os.path.join(d, "mod_x.c")
        if phase == "target-from-utf8-process":
            shutil.copyfile(ref, fn)
        if phase != "absent" and os.path.exists(fn):
            os.utime(fn, (1000000000, 1000000000))
        ffi = c23.make_ffi(text, False)
        ffi.set_source("mod_x", c23.PREAMBLES[pk])
        try:
            ffi.emit_c_code(fn)
            outcome = "ok"
        except Exception as e:
            outcome = type(e).__name__
        try:
            with open(fn, "rb") as f:
                digest = hashlib.sha256(f.read()).hexdigest()
            kept = int(os.stat(fn).st_mtime == 1000000000)
        except OSError:
            digest, kept = "-", 0
        left = sorted(x for x in os.listdir(d) if x != "mod_x.c")
        out.append("L|%%s|%%s|%%s|%%s|%%d|%%d" %% (case, phase, outcome, digest, kept, len(left)))
sys.stdout.write("\n".join(out) + "\n")
'''


def locale_work(envname):
    import io
    import cffi.recompiler as R
    base = os.path.join(build.scratch(), "c23-locale-%s" % envname)
    os.makedirs(base, exist_ok=True)
    refs = {}
    for case, text, pk in LOCALE_CASES:
        f = io.StringIO()
        R.make_c_source(make_ffi(text, False), "mod_x", PREAMBLES[pk], f)
        data = f.getvalue().encode("utf-8")
        with open(os.path.join(base, "ref-" + case + ".c"), "wb") as g:
            g.write(data)
        refs[case] = hashlib.sha256(data).hexdigest()
    env = dict(os.environ)
    if LOCALE_ENVS[envname] is not None:
        for k in LOCALE_VARS:
            env.pop(k, None)
        env.update(LOCALE_ENVS[envname])
    code = _CHILD_LOCALE % {"verif": build.VERIF}
    p = subprocess.run([build.PY, "-c", code, base], env=env, stdout=subprocess.PIPE, stderr=subprocess.PIPE)
    if p.returncode != 0:
        raise InfraError("locale child failed: %s" % p.stderr[-2000:].decode("utf-8", "replace"))
    rows = []
    for line in p.stdout.decode("ascii").splitlines():
        if line.startswith("L|"):
            _, case, phase, outcome, digest, kept, nleft = line.split("|")
            rows.append({"case": case, "phase": phase, "outcome": outcome, "digest": digest, "mtime_kept": int(kept),
                         "files_left": int(nleft), "utf8_digest": refs[case]})
    shutil.rmtree(base, ignore_errors=True)
    return {"env": envname, "rows": rows}


def proc_work(item):
    return seed_work(item[1]) if item[0] == "seed" else locale_work(item[1])


def judge_locale(results):
    """results: list of locale_work() results.  Returns [(sig, info)] for every configuration dependence:
    a generation must succeed and give the bytes every other configuration gives; regenerating into the
    file a UTF-8 process wrote (and into its own output) must succeed and leave it untouched."""
    out = []
    by_case = {}
    for r in results:
        for row in r["rows"]:
            by_case.setdefault((row["case"], row["phase"]), []).append((r["env"], row))
    for (case, phase), lst in sorted(by_case.items()):
        digests = sorted(set(row["digest"] for _, row in lst if row["outcome"] == "ok"))
        for env, row in lst:
            if row["outcome"] != "ok":
                out.append(({"kind": "locale-dependent-generation", "outcome": "raises-" + row["outcome"], "env": env},
                            {"case": case, "phase": phase, "env": env, "row": row}))
            elif phase != "absent" and not row["mtime_kept"]:
                out.append(({"kind": "locale-dependent-generation", "outcome": "identical-target-rewritten", "env": env},
                            {"case": case, "phase": phase, "env": env, "row": row}))
        if len(digests) > 1:
            out.append(({"kind": "locale-dependent-generation", "outcome": "bytes-differ"},
                        {"case": case, "phase": phase, "rows": [[e, r] for e, r in lst]}))
    return out


# ---------------------------------------------------------------------------------------

def _pool(func, items):
    for item, r in pool.pmap(func, [[it] for it in items], item_timeout=3600):
        if isinstance(r, (pool.WorkerError, pool.Crash)):
            raise InfraError(repr(r))
        yield item, r


def run(ctx):
    cps = corpus()
    ctx.log("corpus: %d cdefs" % len(cps))
    # (a)
    specs = write_specs(cps, ctx.quick)
    tot = {"runs": 0, "crash": 0, "recovery": 0, "fallback": 0}
    steps_all = set()
    newline_args = set()
    fallback = None
    longest = 0
    for spec, r in _pool(crash_work, specs):
        if "excluded" in r:
            ctx.count("excluded_target_not_generatable[%s]" % r["excluded"])
            continue
        tot["runs"] += r["runs"]
        tot["crash"] += r["crash_runs"]
        tot["recovery"] += r["recovery_runs"]
        tot["fallback"] += r["fallback_crash_runs"]
        steps_all.update(r["steps"])
        newline_args.update(r["newline_args"])
        fallback = r["fallback_steps"] or fallback
        longest = max(longest, r["new_len"])
        ctx.count("write_specs[family=%s]" % spec["family"])
        ctx.count("crash_points[family=%s]" % spec["family"], r["crash_runs"])
        if spec["family"] == "preamble":
            ctx.count("crash_points[c_source=%s]" % spec["preamble"], r["crash_runs"])
        if spec["family"] == "entry":
            ctx.count("crash_points[entry=%s,%s]" % (spec["entry"], spec["modname"]), r["crash_runs"])
        ctx.count("crash_points", r["crash_runs"])
        ctx.count("recovery_runs", r["recovery_runs"])
        ctx.count("rename_fallback_crash_points", r["fallback_crash_runs"])
        ctx.count("initial_states_skipped_equal_to_new", r["skipped_states"])
        for kind, n in r["per_state"].items():
            ctx.count("complete_runs[initial=%s]" % kind, n)
        ctx.sample({"spec": spec_id(spec), "io_steps": r["steps"], "crash_runs": r["crash_runs"],
                    "recovery_runs": r["recovery_runs"], "bytes": r["new_len"]})
        for kind, info in r["bad"]:
            if info.get("config"):
                # one root cause (the unlink+rename fallback): one signature, whatever the initial state
                sig = {"kind": kind, "config": info["config"]}
            else:
                sig = {"kind": kind, "initial": info.get("initial")}
                if spec["entry"] != "direct":
                    sig["entry"] = spec["entry"]
            ctx.violation(sig, {"part": "crash", "spec": spec, "kind": kind, "info": info})
    ctx.log("(a) done: %d specs, %d runs" % (len(specs), tot["runs"]))
    # (b)
    bound = 1 if ctx.quick else 2
    ord_exec = {"rebind": 0, "ast": 0}
    maxpts = 0
    rewritten = None
    # the AST-rewritten copy reaches every site the rebound name reaches: in the quick tier only it gets all n! orders
    full = {"ast": True, "rebind": not ctx.quick}
    probes = [(n, t, mode, full[mode]) for n, t in cps for mode in ("rebind", "ast")]
    # the probes are cheap: in this process (every message through the pool costs a scheduling round trip)
    big, small = [], []
    for (n, t, mode, ff) in probes:
        r = order_probe((n, t, mode, ff))
        rewritten = r["rewritten"] or rewritten
        nshards = max(1, min(pool.NPROC, r["alts"] // 40))
        (big if nshards > 1 else small).extend((n, t, bound, mode, s, nshards, ff) for s in range(nshards))
    blocks = [[j] for j in big] + [small[i:i + 12] for i in range(0, len(small), 12)]
    for item, r in pool.pmap(order_work, blocks, item_timeout=3600):
        if isinstance(r, (pool.WorkerError, pool.Crash)):
            raise InfraError(repr(r))
        ord_exec[r["mode"]] += r["executions"]
        maxpts = max(maxpts, r["choice_points"])
        for kind, info in r["bad"]:
            ctx.violation({"kind": kind, "mode": r["mode"]}, {"part": "order", "item": list(item), "info": info})
    for mode, n in ord_exec.items():
        ctx.count("set_order_executions[%s]" % mode, n)
    if not rewritten or not sum(v["name"] for v in rewritten.values()):
        raise InfraError("the AST pass rewrote nothing: %r" % (rewritten,))
    ctx.log("(b) done: %r" % (ord_exec,))
    # (c)
    seeds = [0, 1, 2, 3, 4, 5, 6, "random"] if ctx.quick else list(range(31)) + ["random"]
    jobs = [(s, i) for i, s in enumerate(seeds)]
    res = {}
    lres = []
    for item, r in _pool(proc_work, [("seed", j) for j in jobs] + [("locale", e) for e in sorted(LOCALE_ENVS)]):
        if item[0] == "locale":
            lres.append(r)
            continue
        for line in r["lines"]:
            if line.startswith("T|"):
                ctx.count("ffi_operations_between_generations", int(line[2:]))
            if not line.startswith("R|"):
                continue
            _, name, py, digest, ndistinct = line.split("|")
            res.setdefault((name, py), {}).setdefault(digest, []).append(r["seed"])
            if ndistinct != "1":
                ctx.violation({"kind": "repeated-call-differs"},
                              {"part": "seed", "cdef": name, "py": py, "seed": r["seed"], "variant": r["variant"]})
    for (name, py), dg in res.items():
        if len(dg) != 1:
            ctx.violation({"kind": "differs-across-processes"},
                          {"part": "seed", "cdef": name, "py": py, "digests": {k: v for k, v in dg.items()}})
    ctx.count("seed_processes", len(jobs))
    lres.sort(key=lambda r: r["env"])
    nloc = sum(len(r["rows"]) for r in lres)
    ctx.count("locale_processes", len(lres))
    ctx.count("locale_generations", nloc)
    for sig, info in judge_locale(lres):
        ctx.violation(sig, {"part": "locale", "info": info})
    ctx.log("(c) done")
    nord = sum(ord_exec.values())
    total = tot["runs"] + nord + len(jobs) * len(cps) * 2 + nloc
    cov = {
        "evaluations": total,
        "distinct_nontrivial": tot["crash"] + tot["fallback"],
        "rule": "evaluations = complete, crash and recovery runs of the write path + generations under a forced set "
                "order + (seed, cdef, target) generations in fresh processes + (locale, input, phase) generations; "
                "distinct_nontrivial = distinct (spec = family/cdef/target kind/C source/entry point/module name, "
                "initial state, crashed I/O step, torn length, rename answer) crash runs, each inspected for "
                "old-or-new content and followed by a recovery run; families: corpus (every cdef, std C source, direct "
                "call), preamble (8 C-source strings x 3 cdefs), entry (recompile/compile/emit x 3 module names x 3 cdefs)",
        "write_specs": len(specs),
        "complete_and_recovery_runs": tot["runs"] - tot["crash"] - tot["fallback"],
        "recovery_runs": tot["recovery"],
        "rename_fallback_crash_points": tot["fallback"],
        "io_step_kinds": sorted(steps_all),
        "newline_argument_of_the_comparing_read": sorted(newline_args),
        "longest_generated_text_bytes": longest,
        "initial_states": INITIAL + [NODIR],
        "c_sources": sorted(PREAMBLES),
        "set_order": {"executions": ord_exec, "max_choice_points_in_one_generation": maxpts, "deviation_bound": bound,
                      "first_deviation_all_orders": full,
                      "reduced_family": "all orders for sets of <= %d elements, else identity/reversal/"
                                                 "rotations/adjacent transpositions" % _c23perm.FULL_LIMIT,
                      "ast_rewritten_nodes": rewritten},
        "hash_seeds": [str(s) for s in seeds],
        "locale_settings": sorted(LOCALE_ENVS),
        "rename_failure_fallback_steps": fallback,
        "exhaustive": True,
    }
    return ctx.finish(cov, ["crash = process death between/inside system calls; no power-loss reordering",
                            "the injected open/os layer performs the real operations on a scratch directory",
                            "part (a) expects the bytes that open(..., 'w') of the checking process writes "
                            "(locale.getpreferredencoding, os.linesep)"])


def replay(detail):
    part = detail.get("part")
    if part == "crash":
        if "spec" in detail:
            spec = detail["spec"]
        else:                              # replay files written before the spec form
            name, text, py = detail["item"]
            spec = _spec("corpus", name, text, py)
        want = (detail.get("kind"), (detail.get("info") or {}).get("initial"), (detail.get("info") or {}).get("config"))
        only = [want[1]] if want[1] else None
        r = crash_work(spec, only_states=only)
        hit = 0
        for kind, info in r.get("bad", []):
            same = (kind, info.get("initial"), info.get("config")) == want
            print("VIOLATED" if same else "also", (kind, info))
            hit += same
        if "excluded" in r:
            print("excluded:", r["excluded"])
        return 1 if hit else 0
    if part == "order":
        item = list(detail["item"])
        if len(item) == 3:
            item = item + ["rebind", 0, 1, True]
        name, text, bound, mode = item[:4]
        r = order_work((name, text, bound, mode, 0, 1, item[6] if len(item) > 6 else True))
        for b in r["bad"]:
            print("VIOLATED", b)
        return 1 if r["bad"] else 0
    if part == "locale":
        lres = [locale_work(e) for e in sorted(LOCALE_ENVS)]
        found = judge_locale(lres)
        for sig, info in found:
            print("VIOLATED", sig, info)
        return 1 if found else 0
    print("seed part: re-run the check (needs several processes)")
    print(detail)
    return 1
