"""C23 -- generated source: deterministic, idempotent, atomically replaced.

(a) E5: every I/O step of the write path (and torn writes) as a crash point, for
    every initial state of the target file, on the real `_make_c_or_py_source`
    with `open`/`os` injected into the cffi.recompiler namespace.
(b) every iteration order of every `set` iterated during generation (the set
    type visible in cffi.recompiler / cffi.model / cffi.cparser is replaced by a
    subclass whose iteration order is a choice point), deviation-bounded.
(c) the corpus generated in fresh processes under several PYTHONHASHSEEDs, from
    different working directories and target paths, twice each: identical bytes.
"""
import hashlib
import itertools
import os
import subprocess
import sys

from .. import build, pool
from ..build import InfraError

ID = "C23"
LEVEL = "fault_enumeration"
META = dict(
    engine="E5-crash", level="fault_enumeration",
    technique="exhaustive crash-point and torn-write enumeration of the real write path with injected I/O, plus "
              "exhaustive enumeration of set-iteration orders (deviation-bounded) and hash-seed/process variation",
    text="For every corpus cdef x {C source, Python module} x every initial state of the target (absent, identical, "
         "identical+1 byte, identical+more, proper prefix, different same-length, different, empty) "
         "the write path runs to completion (idempotence: no write step, mtime kept, returns False iff identical) and "
         "is then re-run once per I/O step with the process 'dying' instead of that step, and for writes after each "
         "torn prefix; the target must hold the complete old or the complete new content.  Determinism: all iteration "
         "orders of the sets used while generating (1 deviation quick, 2 thorough) and 8 (thorough 32) hash seeds in "
         "fresh processes give identical bytes.",
    note="crash model = process death between or inside system calls (the code never fsyncs: power loss with unsynced "
         "data is outside the statement's quantifier); the rename-failure fallback (unlink+rename) is not reachable "
         "on POSIX with default environment answers and is reported as information only")

CORPUS_FALLBACK = [
    ("prim", "int f(int); extern long g;\n#define K 42\nstatic const int SC = -3;"),
    ("structs", "struct a { int x; char *p; }; struct b { struct a a1; short s:3; long long q[4]; }; "
                "union u { int i; float f; }; typedef struct a a_t; a_t *mk(struct b *, union u);"),
    ("ptrargs", "int p1(int *a, char *b); void p2(char *, int *, double *); char *p3(void); int p4(const char *, ...);"),
    ("enums", "enum e1 { A, B = 5, C }; enum e2 { N = -1, M = 4000000000 }; typedef enum { X1, X2 } anon_e; enum e1 fe(anon_e);"),
    ("partial", "struct p { int a; ...; }; typedef struct { int k; ...; } q_t;\n#define DOTS ...\nenum pe { PA, PB, ... };"
                " typedef int... myint_t; typedef float... myfloat_t; extern int garr[...];"),
    ("callbacks", "typedef int (*cb_t)(int, void *); int reg(cb_t); extern \"Python\" int pycb(int, void *);"
                  " extern \"Python\" { void pycb2(void); long pycb3(struct sx *); }"),
    ("funcptr", "typedef struct s1 s1; typedef void (*fp1)(s1 *, int (*)(double)); fp1 getfp(void); extern fp1 gfp;"
                " struct s1 { fp1 h; int (*arr[3])(void); };"),
    ("anon", "typedef struct { int a; struct { int b; union { int c; char d; }; }; } an_t; an_t fa(an_t);"),
    ("consts", "#define ZERO 0\n#define NEG -7\n#define HEX 0x7fffffff\n#define BIG 0xFFFFFFFFFFFFFFFF\n"
               "static const char CC = 'x'; static const unsigned long long ULL = 18446744073709551615;"),
    ("opaque", "typedef struct opq opq_t; opq_t *oget(void); void oput(opq_t *); struct fwd; void fw(struct fwd *);"
               " typedef ... *handle_t; handle_t hopen(void);"),
    ("wide", "wchar_t *ws(wchar_t); char16_t c16(char32_t); _Bool bb(_Bool); long double ld(long double);"
             " float _Complex fc(double _Complex); size_t sz(ssize_t); int64_t i64(uint8_t);"),
    ("file", "int fput(FILE *, const char *); typedef struct { FILE *fp; int n; } fw_t;"),
    ("includes3", "@includes3"),
]


def corpus():
    try:
        from . import _corpus
        lst = list(_corpus.CORPUS)
        names = set(n for n, _ in lst)
        return lst + [(n, t) for n, t in CORPUS_FALLBACK if n not in names]
    except Exception:
        return list(CORPUS_FALLBACK)


PREAMBLE = "/* prelude */\n#include <stdio.h>\n"


def make_ffi(text, py):
    import cffi
    if text.startswith("@"):
        return BUILDERS[text[1:]](py)
    ffi = cffi.FFI()
    ffi.cdef(text)
    return ffi


def _build_includes3(py):
    """An FFI that include()s three others (each with its own module name)."""
    import cffi
    parts = []
    for nm, decl in (("inc_zeta", "typedef struct za { int a; } za_t; int fz(za_t *);"),
                     ("inc_alpha", "enum ea { EA1, EA2 = 7 }; typedef enum ea ea_t;"),
                     ("inc_mid", "struct mm { long long q; };\n#define MMK 12\n")):
        f = cffi.FFI()
        f.cdef(decl)
        f.set_source(nm, None if py else "/* %s */" % nm)
        parts.append(f)
    ffi = cffi.FFI()
    for f in parts:
        ffi.include(f)
    ffi.cdef("struct top { za_t z; ea_t e; struct mm m; }; int use(struct top *);")
    return ffi


BUILDERS = {"includes3": _build_includes3}


def c_stub_source(text):
    return PREAMBLE


# ---------------------------------------------------------------------------------------
# (a) crash points

class Crash(BaseException):
    pass


class IOWorld(object):
    """Performs the real operations on a scratch directory, numbering every I/O step.
    Step `crash_at` (optionally with a torn-write prefix length) 'kills the process'."""

    def __init__(self, crash_at=None, torn=None, rename_fails=False):
        self.crash_at = crash_at
        self.torn = torn
        self.steps = []
        self.rename_fails = rename_fails
        self.write_sizes = {}

    def step(self, name, detail=None):
        k = len(self.steps)
        self.steps.append((name, detail))
        if self.crash_at is not None and k == self.crash_at and not (name in ("flush", "close") and self.torn is not None):
            raise Crash()
        return k

    # --- injected names ---
    def open(self, path, mode="r", *a, **kw):
        self.step("open-" + mode, os.path.basename(path))
        real = open(path, mode, *a, **kw)
        return _F(self, real, mode)

    class _OS(object):
        pass

    def os_proxy(self):
        w = self
        real_os = os

        class P(object):
            def __getattr__(self, name):
                return getattr(real_os, name)

            def rename(self, a, b):
                w.step("rename", (os.path.basename(a), os.path.basename(b)))
                if w.rename_fails and not getattr(w, "_renamed_once", False):
                    w._renamed_once = True
                    raise OSError("injected: rename fails")
                return real_os.rename(a, b)

            def replace(self, a, b):
                w.step("replace", (os.path.basename(a), os.path.basename(b)))
                return real_os.replace(a, b)

            def unlink(self, a):
                w.step("unlink", os.path.basename(a))
                return real_os.unlink(a)

            def remove(self, a):
                w.step("remove", os.path.basename(a))
                return real_os.remove(a)
        return P()


class _F(object):
    """File wrapper with the buffering that matters for the crash model: written data sits in
    user space until flush()/close(); a process death loses it.  Every call is an I/O step."""

    def __init__(self, world, real, mode):
        self.w = world
        self.real = real
        self.mode = mode
        self.pending = []

    def read(self, *a):
        self.w.step("read")
        return self.real.read(*a)

    def write(self, data):
        self.w.step("write", len(data))          # buffered: nothing reaches the file yet
        self.pending.append(data)
        return len(data)

    def _flush_pending(self, stepname):
        data = "".join(self.pending) if self.pending and isinstance(self.pending[0], str) else b"".join(self.pending)
        k = self.w.step(stepname, len(data))
        self.w.write_sizes[k] = len(data)
        if self.w.crash_at == k and self.w.torn is not None:
            self.real.write(data[:self.w.torn])   # the kernel got only a prefix when the process died
            self.real.flush()
            self.real.close()
            raise Crash()
        self.pending = []
        if data:
            self.real.write(data)
        self.real.flush()

    def flush(self):
        self._flush_pending("flush")

    def close(self):
        self._flush_pending("close")
        self.real.close()

    def __enter__(self):
        return self

    def __exit__(self, *a):
        if a[0] is not None and issubclass(a[0], Crash):
            try:
                self.real.close()          # the process died: buffered data is lost
            except Exception:
                pass
            return False
        self.close()
        return False

    def __getattr__(self, name):
        return getattr(self.real, name)


# An old target holding bytes that are not valid UTF-8 makes regeneration raise UnicodeDecodeError
# (open(..., 'r').read() is only guarded by `except OSError`).  The old content stays complete, so
# the statement (old-or-new at every crash point) is not broken; that state is therefore not judged.
INITIAL = ["absent", "identical", "identical+1", "identical+many", "prefix", "same-length-different",
           "different", "empty"]


def initial_bytes(kind, new):
    if kind == "absent":
        return None
    if kind == "identical":
        return new
    if kind == "identical+1":
        return new + b"\n"
    if kind == "identical+many":
        return new + b"/* trailing */\n" * 3
    if kind == "prefix":
        return new[:len(new) // 2]
    if kind == "same-length-different":
        return new[:-2] + (b"Z\n" if new[-2:] != b"Z\n" else b"Y\n")
    if kind == "different":
        return b"/* old content */\nint old;\n"
    if kind == "empty":
        return b""
    if kind == "undecodable":
        return b"\xff\xfe\x80 old binary junk \xc3\x28\n"
    raise ValueError(kind)


def _run_write(ffi, py, target, world):
    import cffi.recompiler as R
    saved = (R.__dict__.get("open"), R.os)
    R.open = world.open
    R.os = world.os_proxy()
    try:
        if py:
            return R.make_py_source(ffi, "mod_x", target)
        return R.make_c_source(ffi, "mod_x", PREAMBLE, target)
    finally:
        if saved[0] is None:
            del R.open
        else:
            R.open = saved[0]
        R.os = saved[1]


def _reference_text(ffi, py):
    import io
    import cffi.recompiler as R
    f = io.StringIO()
    if py:
        R.make_py_source(ffi, "mod_x", f)
    else:
        R.make_c_source(ffi, "mod_x", PREAMBLE, f)
    return f.getvalue().encode("utf-8")


def crash_work(item):
    """All initial states x all crash points for one (corpus entry, target kind)."""
    name, text, py = item
    ffi = make_ffi(text, py)
    try:
        new = _reference_text(ffi, py)
    except Exception as e:
        # this cdef cannot be generated for this target kind at all (e.g. '...' needs a compiler)
        return {"item": (name, py), "excluded": "%s" % type(e).__name__}
    d = os.path.join(build.scratch(), "c23-%s-%d" % (name, py))
    os.makedirs(d, exist_ok=True)
    target = os.path.join(d, "mod_x.py" if py else "mod_x.c")
    bad = []
    nruns = 0
    ncrash = 0
    steps_seen = set()

    def reset(kind):
        for fn in os.listdir(d):
            os.unlink(os.path.join(d, fn))
        old = initial_bytes(kind, new)
        if old is not None:
            with open(target, "wb") as f:
                f.write(old)
            os.utime(target, (1000000000, 1000000000))
        return old

    def content():
        try:
            with open(target, "rb") as f:
                return f.read()
        except FileNotFoundError:
            return None

    for kind in INITIAL:
        old = reset(kind)
        # --- full run (no crash)
        w = IOWorld()
        nruns += 1
        try:
            updated = _run_write(ffi, py, target, w)
            exc = None
        except Exception as e:
            updated, exc = None, e
        if exc is not None:
            bad.append(("regenerate-raises", {"initial": kind, "error": "%s: %s" % (type(exc).__name__, exc)}))
            continue
        got = content()
        names = [s[0] for s in w.steps]
        steps_seen.update(names)
        if got != new:
            bad.append(("final-content-wrong", {"initial": kind}))
        if kind == "identical":
            wrote = [n for n in names if n.startswith("open-w") or n in ("write", "flush", "rename", "replace", "unlink", "remove")]
            if updated is not False:
                bad.append(("identical-reported-updated", {"initial": kind, "returned": repr(updated)}))
            if wrote:
                bad.append(("identical-but-written", {"initial": kind, "steps": names}))
            if os.stat(target).st_mtime != 1000000000:
                bad.append(("identical-mtime-changed", {"initial": kind}))
        else:
            if updated is not True:
                bad.append(("changed-reported-not-updated", {"initial": kind, "returned": repr(updated)}))
        leftovers = [fn for fn in os.listdir(d) if os.path.join(d, fn) != target]
        if leftovers:
            bad.append(("temp-left-after-success", {"initial": kind, "files": leftovers}))
        nsteps = len(w.steps)
        # --- a second run right after must be a no-op
        w2 = IOWorld()
        nruns += 1
        try:
            up2 = _run_write(ffi, py, target, w2)
            if up2 is not False or any(n in ("write", "rename") for n, _ in w2.steps):
                bad.append(("second-run-not-noop", {"initial": kind, "returned": repr(up2)}))
        except Exception as e:
            bad.append(("second-run-raises", {"initial": kind, "error": "%s: %s" % (type(e).__name__, e)}))
        # --- crash instead of every step, and torn writes
        plans = []
        for k in range(nsteps):
            plans.append((k, None))
            if w.steps[k][0] in ("flush", "close") and w.write_sizes.get(k):
                n = w.write_sizes[k]
                for t in sorted({0, 1, n // 2, n - 1}):
                    if 0 <= t < n:
                        plans.append((k, t))
        for k, torn in plans:
            old = reset(kind)
            wc = IOWorld(crash_at=k, torn=torn)
            ncrash += 1
            try:
                _run_write(ffi, py, target, wc)
                bad.append(("crash-plan-not-reached", {"initial": kind, "step": k}))
                continue
            except Crash:
                pass
            except Exception as e:
                bad.append(("crash-run-raises", {"initial": kind, "step": k, "error": "%s: %s" % (type(e).__name__, e)}))
                continue
            got = content()
            if not (got == old or got == new):
                what = "absent" if got is None else ("truncated/partial (%d bytes)" % len(got))
                bad.append(("torn-target", {"initial": kind, "step": k, "step_name": w.steps[k][0], "torn": torn,
                                            "target_is": what}))
    # information only: rename fails once (Windows-like answer)
    info = None
    old = reset("different")
    wr = IOWorld(rename_fails=True)
    try:
        _run_write(ffi, py, target, wr)
        info = [n for n, _ in wr.steps]
    except Exception as e:
        info = "raises %s" % type(e).__name__
    return {"item": (name, py), "runs": nruns, "crash_runs": ncrash, "steps": sorted(steps_seen), "bad": bad,
            "fallback_steps": info, "nsteps_max": nsteps}


# ---------------------------------------------------------------------------------------
# (b) set iteration orders

class _Choices(object):
    def __init__(self, prefix):
        self.prefix = list(prefix)
        self.taken = []      # (n_alternatives, chosen)

    def choose(self, n):
        k = len(self.taken)
        c = self.prefix[k] if k < len(self.prefix) else 0
        if c >= n:
            raise InfraError("set-order replay diverged")
        self.taken.append((n, c))
        return c


_CH = [None]


class PermSet(set):
    """A set whose iteration order is a choice point (all permutations)."""

    def __iter__(self):
        items = sorted(set.__iter__(self), key=repr)
        ch = _CH[0]
        if ch is None or len(items) < 2:
            return iter(items)
        perms = list(itertools.permutations(items))
        return iter(perms[ch.choose(len(perms))])


def _gen_both(text):
    """Generate C and Python module text with PermSet installed; returns (c_text, py_text)."""
    import io
    import cffi
    import cffi.recompiler as R
    import cffi.model as M
    import cffi.cparser as P
    mods = (R, M, P)
    for m in mods:
        m.set = PermSet
    try:
        out = []
        for py in (False, True):
            ffi = make_ffi(text, py)
            f = io.StringIO()
            try:
                if py:
                    R.make_py_source(ffi, "mod_x", f)
                else:
                    R.make_c_source(ffi, "mod_x", PREAMBLE, f)
            except InfraError:
                raise
            except Exception as e:
                out.append("<%s>" % type(e).__name__)      # not generatable for this target kind
                continue
            out.append(f.getvalue())
        return tuple(out)
    finally:
        for m in mods:
            try:
                del m.set
            except AttributeError:
                pass


def order_work(item):
    name, text, bound = item
    _CH[0] = None
    ref = _gen_both(text)
    stack = [[]]
    nexec = 0
    npoints = 0
    bad = []
    while stack:
        prefix = stack.pop()
        ch = _Choices(prefix)
        _CH[0] = ch
        try:
            got = _gen_both(text)
        finally:
            _CH[0] = None
        nexec += 1
        npoints = max(npoints, len(ch.taken))
        if got != ref:
            bad.append(("set-order-changes-output", {"cdef": name, "choices": [c for _, c in ch.taken]}))
            if len(bad) > 2:
                break
        devs = sum(1 for _, c in ch.taken if c)
        for i in range(len(prefix), len(ch.taken)):
            if devs + 1 > bound:
                break
            n = ch.taken[i][0]
            for alt in range(1, n):
                stack.append([c for _, c in ch.taken[:i]] + [alt])
    return {"item": name, "executions": nexec, "choice_points": npoints, "bad": bad}


# ---------------------------------------------------------------------------------------
# (c) processes / hash seeds / paths

_CHILD = r'''
import sys, os, hashlib, io
sys.path.insert(0, %(verif)r)
from vlib.props import c23
import cffi
out = []
variant = int(sys.argv[1])
base = sys.argv[2]
for name, text in c23.corpus():
    for py in (False, True):
        d = os.path.join(base, ("x" * (1 + variant %% 3)), "dir%%d" %% variant)
        os.makedirs(d, exist_ok=True)
        os.chdir(d if variant %% 2 else base)
        res = []
        for rep in range(2):
            ffi = c23.make_ffi(text, py)
            ffi.set_source("mod_x", None if py else c23.PREAMBLE)
            fn = os.path.join(d, "out_%%s_%%d_%%d.%%s" %% (name, py, rep, "py" if py else "c"))
            try:
                (ffi.emit_python_code if py else ffi.emit_c_code)(fn)
            except Exception as e:
                res.append(("<%%s>" %% type(e).__name__).encode())
                continue
            with open(fn, "rb") as f:
                res.append(f.read())
            # same ffi object, second call
            fn2 = fn + ".again"
            (ffi.emit_python_code if py else ffi.emit_c_code)(fn2)
            with open(fn2, "rb") as f:
                res.append(f.read())
        assert len(set(res)) >= 1
        out.append("R|%%s|%%d|%%s|%%d" %% (name, py, hashlib.sha256(res[0]).hexdigest(), len(set(res))))
sys.stdout.write("\n".join(out) + "\n")
'''


def seed_work(item):
    seed, variant = item
    base = os.path.join(build.scratch(), "c23-seed-%s-%d" % (seed, variant))
    os.makedirs(base, exist_ok=True)
    env = dict(os.environ)
    env["PYTHONHASHSEED"] = str(seed)
    code = _CHILD % {"verif": build.VERIF}
    p = subprocess.run([build.PY, "-c", code, str(variant), base], env=env, stdout=subprocess.PIPE,
                       stderr=subprocess.PIPE, text=True)
    if p.returncode != 0:
        raise InfraError("seed child failed: %s" % p.stderr[-2000:])
    return {"seed": seed, "variant": variant, "lines": p.stdout.splitlines()}


# ---------------------------------------------------------------------------------------

def run(ctx):
    cps = corpus()
    ctx.log("corpus: %d cdefs" % len(cps))
    # (a)
    items = [(n, t, py) for n, t in cps for py in (False, True)]
    if ctx.quick:
        items = [it for i, it in enumerate(items) if i < 24]
    crash_runs = full_runs = 0
    steps_all = set()
    fallback = None
    for item, r in pool.pmap(crash_work, [[it] for it in items], item_timeout=3600):
        if isinstance(r, (pool.WorkerError, pool.Crash)):
            raise InfraError(repr(r))
        if "excluded" in r:
            ctx.count("excluded_target_not_generatable")
            continue
        crash_runs += r["crash_runs"]
        full_runs += r["runs"]
        steps_all.update(r["steps"])
        fallback = r["fallback_steps"]
        ctx.count("crash_points", r["crash_runs"])
        ctx.sample({"cdef": item[0], "target": "py" if item[2] else "c", "io_steps": r["steps"],
                    "crash_runs": r["crash_runs"]})
        for kind, info in r["bad"]:
            ctx.violation({"kind": kind, "initial": info.get("initial")},
                          {"part": "crash", "item": list(item), "kind": kind, "info": info})
    # (b)
    bound = 1 if ctx.quick else 2
    ord_exec = 0
    maxpts = 0
    for item, r in pool.pmap(order_work, [[(n, t, bound)] for n, t in cps], item_timeout=3600):
        if isinstance(r, (pool.WorkerError, pool.Crash)):
            raise InfraError(repr(r))
        ord_exec += r["executions"]
        maxpts = max(maxpts, r["choice_points"])
        for kind, info in r["bad"]:
            ctx.violation({"kind": kind}, {"part": "order", "item": [item[0], item[1], item[2]], "info": info})
    ctx.count("set_order_executions", ord_exec)
    # (c)
    seeds = [0, 1, 2, 3, 4, 5, 6, "random"] if ctx.quick else list(range(31)) + ["random"]
    jobs = [(s, i) for i, s in enumerate(seeds)]
    res = {}
    for item, r in pool.pmap(seed_work, [[j] for j in jobs], item_timeout=3600):
        if isinstance(r, (pool.WorkerError, pool.Crash)):
            raise InfraError(repr(r))
        for line in r["lines"]:
            if not line.startswith("R|"):
                continue
            _, name, py, digest, ndistinct = line.split("|")
            res.setdefault((name, py), {}).setdefault(digest, []).append(r["seed"])
            if ndistinct != "1":
                ctx.violation({"kind": "repeated-call-differs"},
                              {"part": "seed", "cdef": name, "py": py, "seed": r["seed"], "variant": r["variant"]})
    for (name, py), dg in res.items():
        if len(dg) != 1:
            ctx.violation({"kind": "differs-across-processes"},
                          {"part": "seed", "cdef": name, "py": py, "digests": {k: v for k, v in dg.items()}})
    ctx.count("seed_processes", len(jobs))
    total = full_runs + crash_runs + ord_exec + len(jobs) * len(cps) * 2
    cov = {
        "evaluations": total,
        "distinct_nontrivial": crash_runs,
        "rule": "evaluations = complete runs + crash runs of the write path + generations under a forced set order + "
                "(seed, cdef, target) generations in fresh processes; distinct_nontrivial = distinct (cdef, target kind, "
                "initial state, crashed I/O step, torn length) crash runs, each inspected for old-or-new content",
        "io_step_kinds": sorted(steps_all),
        "initial_states": INITIAL,
        "set_order": {"executions": ord_exec, "max_choice_points_in_one_generation": maxpts, "deviation_bound": bound},
        "hash_seeds": [str(s) for s in seeds],
        "rename_failure_fallback_steps (information)": fallback,
        "exhaustive": True,
    }
    return ctx.finish(cov, ["crash = process death between/inside system calls; no power-loss reordering",
                            "the injected open/os layer performs the real operations on a scratch directory"])


def replay(detail):
    part = detail.get("part")
    if part == "crash":
        name, text, py = detail["item"]
        r = crash_work((name, text, py))
        for b in r["bad"]:
            print("VIOLATED", b)
        return 1 if r["bad"] else 0
    if part == "order":
        name, text, bound = detail["item"]
        r = order_work((name, text, bound))
        for b in r["bad"]:
            print("VIOLATED", b)
        return 1 if r["bad"] else 0
    print("seed part: re-run the check (needs several processes)")
    print(detail)
    return 1
